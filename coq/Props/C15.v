(** C15 -- fallible operations fail by value, not by panic or hang.
    Theorem-only file (written by tools/c15_mkprops.py): each theorem is closed by [exact] of a lemma of
    Proofs/C15.v, Proofs/C15Owners.v, Proofs/C15Wide.v, Proofs/C15Text.v, Proofs/C15Strftime.v, Proofs/C15Deep.v (with C15Parse.v,
    C15SfItems.v, C15Utf8.v) and followed by
    [Print Assumptions].

    C15 is cross-cutting: its model is the union of all properties' models (Model/C15.v) and its
    theorems are corollaries of the owners' theorems (Props/C01.v ... Props/C19.v), restated in the one
    form the property speaks about:

        for ALL arguments of the Rust argument types, the modelled entry point RETURNS
        ([returns r]: r is neither [Panic] -- an arithmetic overflow, a slice off a character boundary,
        an index out of bounds, an unwrap of None -- nor [OutOfFuel] -- a loop that did not end within
        its proved bound), and a returned value is a VALID value of its type (validity in the owner's
        vocabulary: [date_valid] = exists y o, repr y o d; Proofs.C02.valid_ndt; Proofs.C03.nvalid / vdate;
        Proofs.C04.dtz_ok / ndt_ok / off_ok; Proofs.C06.valid; [time_valid] = Proofs.Time.tvalid).

    plus one dedicated proof (Proofs/C15Strftime.v): the slice-safety invariant of the format-string
    iterator.  Theorems named *_partial exclude a stated sub-domain (the comment in front says which); where the
    owners' restrictions have been lifted since, the full statement stands next to the older partial one.
    Which inventory entries (gen/C15_inventory.json, printed in the evidence) have such a theorem and
    which are covered by correspondence + judge only is listed at the end of this file. *)
From Coq Require Import ZArith List Bool String.
From V Require Import Base.Int Base.IO Spec.Gregorian Model.Strftime Proofs.C15 Proofs.C15Owners Proofs.C15Strftime Proofs.C15Wide Proofs.C15Text Proofs.C15Utf8 Proofs.C15SfItems Proofs.C15Deep Proofs.C15Format Proofs.C15Errors Proofs.C15Serde.
From V Require Model.Date Model.Time Model.DateTime Model.TimeDelta Model.DateExtra Model.Parsed Model.Parse Model.Rfc3339 Model.Show Model.Round Model.C02 Model.C15 Model.C19 Gen.Strftime
               Base.Utf8 Model.Scan Model.FromStr Model.Rfc2822 Model.Format Model.Serde Model.ScanNames Proofs.C12 Proofs.C13Total Proofs.C13Time Proofs.C14 Proofs.C19 Proofs.C20Ts.
Import ListNotations.
Open Scope Z_scope.


(** ** NaiveDate constructors (C01): every i32 / u32 argument; never a trap; the date returned is valid *)
Theorem C15_from_ymd_opt_total : forall y m dd, 
  in_i32 y = true -> in_u32 m = true -> in_u32 dd = true ->
  returns (Model.Date.from_ymd_opt y m dd) /\
  forall d, Model.Date.from_ymd_opt y m dd = Val (Some d) -> date_valid d.
Proof. exact from_ymd_opt_total. Qed.
Print Assumptions C15_from_ymd_opt_total.
Theorem C15_from_yo_opt_total : forall y o, 
  in_i32 y = true -> in_u32 o = true ->
  returns (Model.Date.from_yo_opt y o) /\ forall d, Model.Date.from_yo_opt y o = Val (Some d) -> date_valid d.
Proof. exact from_yo_opt_total. Qed.
Print Assumptions C15_from_yo_opt_total.
(* includes year = i32::MIN / i32::MAX (the year - 1 / year + 1 spill repaired by f8bab14) *)
Theorem C15_from_isoywd_opt_total : forall y w wd, 
  in_i32 y = true -> in_u32 w = true -> 0 <= wd <= 6 ->
  returns (Model.Date.from_isoywd_opt y w wd) /\ forall d, Model.Date.from_isoywd_opt y w wd = Val (Some d) -> date_valid d.
Proof. exact from_isoywd_opt_total. Qed.
Print Assumptions C15_from_isoywd_opt_total.
Theorem C15_from_num_days_from_ce_opt_total : forall n, 
  in_i32 n = true ->
  returns (Model.Date.from_num_days_from_ce_opt n) /\ forall d, Model.Date.from_num_days_from_ce_opt n = Val (Some d) -> date_valid d.
Proof. exact from_num_days_from_ce_opt_total. Qed.
Print Assumptions C15_from_num_days_from_ce_opt_total.
Theorem C15_succ_pred_total : forall d, 
  date_valid d -> returns (Model.Date.succ_opt d) /\ returns (Model.Date.pred_opt d) /\
  (forall x, Model.Date.succ_opt d = Val (Some x) -> date_valid x) /\ (forall x, Model.Date.pred_opt d = Val (Some x) -> date_valid x).
Proof. exact succ_pred_total. Qed.
Print Assumptions C15_succ_pred_total.

(** ** NaiveTime constructors and field replacement (C07): every u32 argument (u32::MAX in every position included) *)
Theorem C15_time_ctor_total : forall h m s x, 
  in_u32 h = true -> in_u32 m = true -> in_u32 s = true -> in_u32 x = true ->
  (returns (Model.Time.from_hms_opt h m s) /\ forall t, Model.Time.from_hms_opt h m s = Val (Some t) -> time_valid t) /\
  (returns (Model.Time.from_hms_milli_opt h m s x) /\ forall t, Model.Time.from_hms_milli_opt h m s x = Val (Some t) -> time_valid t) /\
  (returns (Model.Time.from_hms_micro_opt h m s x) /\ forall t, Model.Time.from_hms_micro_opt h m s x = Val (Some t) -> time_valid t) /\
  (returns (Model.Time.from_hms_nano_opt h m s x) /\ forall t, Model.Time.from_hms_nano_opt h m s x = Val (Some t) -> time_valid t).
Proof. exact time_ctor_total. Qed.
Print Assumptions C15_time_ctor_total.
(* NaiveDate::and_hms_opt / _milli / _micro / _nano (ops c15.d.hms, hmsm, hmsu, hmsn) *)
Theorem C15_and_hms_total : forall d h m s x, 
  date_valid d ->
  in_u32 h = true -> in_u32 m = true -> in_u32 s = true -> in_u32 x = true ->
  (returns (Model.C15.d_and_hms_opt d h m s) /\ forall a, Model.C15.d_and_hms_opt d h m s = Val (Some a) -> ndt_valid a) /\
  (returns (Model.C15.d_and_hms_milli_opt d h m s x) /\ forall a, Model.C15.d_and_hms_milli_opt d h m s x = Val (Some a) -> ndt_valid a) /\
  (returns (Model.C15.d_and_hms_micro_opt d h m s x) /\ forall a, Model.C15.d_and_hms_micro_opt d h m s x = Val (Some a) -> ndt_valid a) /\
  (returns (Model.C15.d_and_hms_nano_opt d h m s x) /\ forall a, Model.C15.d_and_hms_nano_opt d h m s x = Val (Some a) -> ndt_valid a).
Proof. exact and_hms_all_total. Qed.
Print Assumptions C15_and_hms_total.
(* impl Timelike for NaiveDateTime (op c15.ndt.witht) *)
Theorem C15_ndt_with_time_total : forall field a x, 
  Proofs.Time.tvalid (Model.DateTime.nd_time a) -> 7 <= field <= 10 -> in_u32 x = true ->
  returns (Model.C15.ndt_with_time_field field a x).
Proof. exact ndt_with_time_total. Qed.
Print Assumptions C15_ndt_with_time_total.

(** ** TimeDelta (C06): every valid duration, every i32 factor / divisor, every i64 count *)
(* new / try_weeks .. try_seconds are plain functions in the model (no trapping step): a returned duration is in range *)
Theorem C15_td_ctor_valid : forall s n, 
  in_i64 s = true -> in_u32 n = true ->
  (forall d, Model.TimeDelta.td_new s n = Some d -> Proofs.C06.valid d) /\
  (forall d, Model.TimeDelta.try_weeks s = Some d -> Proofs.C06.valid d) /\
  (forall d, Model.TimeDelta.try_days s = Some d -> Proofs.C06.valid d) /\
  (forall d, Model.TimeDelta.try_hours s = Some d -> Proofs.C06.valid d) /\
  (forall d, Model.TimeDelta.try_minutes s = Some d -> Proofs.C06.valid d) /\
  (forall d, Model.TimeDelta.try_seconds s = Some d -> Proofs.C06.valid d).
Proof. exact td_ctor_valid. Qed.
Print Assumptions C15_td_ctor_valid.
Theorem C15_td_millis_total : forall n, 
  in_i64 n = true ->
  returns (Model.TimeDelta.try_milliseconds n) /\ forall d, Model.TimeDelta.try_milliseconds n = Val (Some d) -> Proofs.C06.valid d.
Proof. exact td_millis_total. Qed.
Print Assumptions C15_td_millis_total.
Theorem C15_td_micros_nanos_total : forall n, 
  in_i64 n = true ->
  (returns (Model.TimeDelta.microseconds n) /\ forall d, Model.TimeDelta.microseconds n = Val d -> Proofs.C06.valid d) /\
  (returns (Model.TimeDelta.nanoseconds n) /\ forall d, Model.TimeDelta.nanoseconds n = Val d -> Proofs.C06.valid d).
Proof. exact td_micros_nanos_total. Qed.
Print Assumptions C15_td_micros_nanos_total.
Theorem C15_td_add_total : forall a b, 
  Proofs.C06.valid a -> Proofs.C06.valid b ->
  returns (Model.TimeDelta.td_checked_add a b) /\ forall d, Model.TimeDelta.td_checked_add a b = Val (Some d) -> Proofs.C06.valid d.
Proof. exact td_add_total. Qed.
Print Assumptions C15_td_add_total.
Theorem C15_td_sub_total : forall a b, 
  Proofs.C06.valid a -> Proofs.C06.valid b ->
  returns (Model.TimeDelta.td_checked_sub a b) /\ forall d, Model.TimeDelta.td_checked_sub a b = Val (Some d) -> Proofs.C06.valid d.
Proof. exact td_sub_total. Qed.
Print Assumptions C15_td_sub_total.
(* MAX.checked_mul(2) is refused (range check after the multiplication, 9a6fec9) *)
Theorem C15_td_mul_total : forall a k, 
  Proofs.C06.valid a -> in_i32 k = true ->
  returns (Model.TimeDelta.td_checked_mul a k) /\ forall d, Model.TimeDelta.td_checked_mul a k = Val (Some d) -> Proofs.C06.valid d.
Proof. exact td_mul_total. Qed.
Print Assumptions C15_td_mul_total.
(* a zero divisor is refused by value before the division *)
Theorem C15_td_div_total : forall a k, 
  Proofs.C06.valid a -> in_i32 k = true -> k <> 0 ->
  returns (Model.TimeDelta.td_checked_div a k) /\ forall d, Model.TimeDelta.td_checked_div a k = Val (Some d) -> Proofs.C06.valid d.
Proof. exact td_div_total. Qed.
Print Assumptions C15_td_div_total.
Theorem C15_td_display_total : forall a, 
  Proofs.C06.valid a -> returns (Model.TimeDelta.td_display a).
Proof. exact td_display_total. Qed.
Print Assumptions C15_td_display_total.

(** ** Unix timestamps (C02): every i64 count, every u32 nanosecond field (i64::MIN / i64::MAX micros included) *)
Theorem C15_from_timestamp_total : forall secs nsecs, 
  in_i64 secs = true -> in_u32 nsecs = true ->
  returns (Model.DateTime.dt_from_timestamp secs nsecs) /\
  forall a, Model.DateTime.dt_from_timestamp secs nsecs = Val (Some a) -> Proofs.C02.valid_ndt a.
Proof. exact from_timestamp_total. Qed.
Print Assumptions C15_from_timestamp_total.
Theorem C15_from_timestamp_millis_total : forall ms, 
  in_i64 ms = true ->
  returns (Model.DateTime.dt_from_timestamp_millis ms) /\
  forall a, Model.DateTime.dt_from_timestamp_millis ms = Val (Some a) -> Proofs.C02.valid_ndt a.
Proof. exact from_timestamp_millis_total. Qed.
Print Assumptions C15_from_timestamp_millis_total.
Theorem C15_from_timestamp_micros_total : forall us, 
  in_i64 us = true ->
  returns (Model.DateTime.dt_from_timestamp_micros us) /\
  forall a, Model.DateTime.dt_from_timestamp_micros us = Val (Some a) -> Proofs.C02.valid_ndt a.
Proof. exact from_timestamp_micros_total. Qed.
Print Assumptions C15_from_timestamp_micros_total.
Theorem C15_from_timestamp_nanos_total : forall ns, 
  in_i64 ns = true ->
  returns (Model.DateTime.dt_from_timestamp_nanos ns) /\
  forall a, Model.DateTime.dt_from_timestamp_nanos ns = Val a -> Proofs.C02.valid_ndt a.
Proof. exact from_timestamp_nanos_total. Qed.
Print Assumptions C15_from_timestamp_nanos_total.
(* TimeZone::timestamp_opt / timestamp_millis_opt / timestamp_micros, fixed offset or Utc *)
Theorem C15_tz_timestamp_total : forall off secs nsecs, 
  in_i64 secs = true -> in_u32 nsecs = true ->
  returns (Model.DateTime.tz_timestamp_opt off secs nsecs) /\
  returns (Model.C02.tz_timestamp_millis_opt off secs) /\ returns (Model.C02.tz_timestamp_micros off secs).
Proof. exact tz_timestamp_total. Qed.
Print Assumptions C15_tz_timestamp_total.
(* EVERY well-formed date-time, a leap-second fraction on any second included: never a trap; a returned count is the instant and fits i64 (None exactly outside i64 on non-leap and second-59 values: C02_timestamp_nanos_opt_spec / _leap59) *)
Theorem C15_timestamp_nanos_opt_total : forall a, 
  Proofs.C04.ndt_ok a ->
  returns (Model.DateTime.dt_timestamp_nanos_opt a) /\
  forall st, Model.DateTime.dt_timestamp_nanos_opt a = Val (Some st) -> st = Proofs.C02.instant a /\ in_i64 st = true.
Proof. exact timestamp_nanos_opt_full. Qed.
Print Assumptions C15_timestamp_nanos_opt_total.
(* the older form: non-leap values (kept under its name; superseded by C15_timestamp_nanos_opt_total) *)
Theorem C15_timestamp_nanos_opt_total_partial : forall a, 
  Proofs.C02.valid_ndt a -> Proofs.C02.nonleap a ->
  returns (Model.DateTime.dt_timestamp_nanos_opt a).
Proof. exact timestamp_nanos_opt_total. Qed.
Print Assumptions C15_timestamp_nanos_opt_total_partial.

(** ** Elapsed-time arithmetic (C03 for non-leap values, C07's timeline theorems C07_ndt_leap_add / _sub for leap-second operands): EVERY well-formed date-time ([Proofs.C04.ndt_ok] / [dtz_ok]: nanosecond field < 2*10^9), every duration, every u64 day count; the result is well-formed again.  The forms named _partial are the older statements over non-leap values (C03's nvalid), kept under their names *)
(* leap-second operands included *)
Theorem C15_ndt_signed_total : forall a d, 
  Proofs.C04.ndt_ok a -> Proofs.C06.valid d ->
  (returns (Model.DateTime.ndt_checked_add_signed a d) /\ forall b, Model.DateTime.ndt_checked_add_signed a d = Val (Some b) -> Proofs.C04.ndt_ok b) /\
  (returns (Model.DateTime.ndt_checked_sub_signed a d) /\ forall b, Model.DateTime.ndt_checked_sub_signed a d = Val (Some b) -> Proofs.C04.ndt_ok b).
Proof. exact ndt_signed_full. Qed.
Print Assumptions C15_ndt_signed_total.
(* leap-second operands included; Days::new(u64::MAX) included *)
Theorem C15_ndt_days_total : forall a n, 
  Proofs.C04.ndt_ok a -> in_u64 n = true ->
  (returns (Model.DateTime.ndt_checked_add_days a n) /\ forall b, Model.DateTime.ndt_checked_add_days a n = Val (Some b) -> Proofs.C04.ndt_ok b) /\
  (returns (Model.DateTime.ndt_checked_sub_days a n) /\ forall b, Model.DateTime.ndt_checked_sub_days a n = Val (Some b) -> Proofs.C04.ndt_ok b).
Proof. exact ndt_days_full. Qed.
Print Assumptions C15_ndt_days_total.
(* leap-second operands included; the offset is kept *)
Theorem C15_dtz_signed_total : forall a d, 
  Proofs.C04.dtz_ok a -> Proofs.C06.valid d ->
  (returns (Model.DateTime.dz_checked_add_signed a d) /\
   forall z, Model.DateTime.dz_checked_add_signed a d = Val (Some z) -> Model.DateTime.dz_off z = Model.DateTime.dz_off a /\ Proofs.C04.dtz_ok z) /\
  (returns (Model.DateTime.dz_checked_sub_signed a d) /\
   forall z, Model.DateTime.dz_checked_sub_signed a d = Val (Some z) -> Model.DateTime.dz_off z = Model.DateTime.dz_off a /\ Proofs.C04.dtz_ok z).
Proof. exact dtz_signed_full. Qed.
Print Assumptions C15_dtz_signed_total.
(* Days::new(u64::MAX) included *)
Theorem C15_date_days_total : forall d n, 
  Proofs.C03.vdate d -> in_u64 n = true ->
  (returns (Model.Date.checked_add_days d n) /\ forall x, Model.Date.checked_add_days d n = Val (Some x) -> Proofs.C03.vdate x) /\
  (returns (Model.Date.checked_sub_days d n) /\ forall x, Model.Date.checked_sub_days d n = Val (Some x) -> Proofs.C03.vdate x).
Proof. exact date_days_total. Qed.
Print Assumptions C15_date_days_total.
(* TimeDelta::MIN / MAX included *)
Theorem C15_date_signed_total : forall d x, 
  Proofs.C03.vdate d -> Proofs.C06.valid x ->
  (returns (Model.Date.checked_add_signed d x) /\ forall y, Model.Date.checked_add_signed d x = Val (Some y) -> Proofs.C03.vdate y) /\
  (returns (Model.Date.checked_sub_signed d x) /\ forall y, Model.Date.checked_sub_signed d x = Val (Some y) -> Proofs.C03.vdate y).
Proof. exact date_signed_total. Qed.
Print Assumptions C15_date_signed_total.
(* older form: non-leap values *)
Theorem C15_ndt_signed_total_partial : forall a d, 
  Proofs.C03.nvalid a -> Proofs.C06.valid d ->
  (returns (Model.DateTime.ndt_checked_add_signed a d) /\ forall b, Model.DateTime.ndt_checked_add_signed a d = Val (Some b) -> Proofs.C03.nvalid b) /\
  (returns (Model.DateTime.ndt_checked_sub_signed a d) /\ forall b, Model.DateTime.ndt_checked_sub_signed a d = Val (Some b) -> Proofs.C03.nvalid b).
Proof. exact ndt_signed_total. Qed.
Print Assumptions C15_ndt_signed_total_partial.
(* older form: non-leap values *)
Theorem C15_ndt_days_total_partial : forall a n, 
  Proofs.C03.nvalid a -> in_u64 n = true ->
  (returns (Model.DateTime.ndt_checked_add_days a n) /\ forall b, Model.DateTime.ndt_checked_add_days a n = Val (Some b) -> Proofs.C03.nvalid b) /\
  (returns (Model.DateTime.ndt_checked_sub_days a n) /\ forall b, Model.DateTime.ndt_checked_sub_days a n = Val (Some b) -> Proofs.C03.nvalid b).
Proof. exact ndt_days_total. Qed.
Print Assumptions C15_ndt_days_total_partial.
(* older form: non-leap values *)
Theorem C15_dtz_signed_total_partial : forall u off d, 
  Proofs.C03.nvalid u -> Proofs.C06.valid d ->
  (returns (Model.DateTime.dz_checked_add_signed (Model.DateTime.mk_dtz u off) d) /\
   forall z, Model.DateTime.dz_checked_add_signed (Model.DateTime.mk_dtz u off) d = Val (Some z) ->
             Model.DateTime.dz_off z = off /\ Proofs.C03.nvalid (Model.DateTime.dz_utc z)) /\
  (returns (Model.DateTime.dz_checked_sub_signed (Model.DateTime.mk_dtz u off) d) /\
   forall z, Model.DateTime.dz_checked_sub_signed (Model.DateTime.mk_dtz u off) d = Val (Some z) ->
             Model.DateTime.dz_off z = off /\ Proofs.C03.nvalid (Model.DateTime.dz_utc z)).
Proof. exact dtz_signed_total. Qed.
Print Assumptions C15_dtz_signed_total_partial.

(** ** Zone-aware date-times (C04): fixed offsets and Utc *)
(* east_opt is a plain function (no trapping step); west_opt negates: i32::MIN is refused before the negation *)
Theorem C15_fixed_offset_ctor_total : forall s, 
  in_i32 s = true ->
  (forall off, Model.DateTime.east_opt s = Some off -> Proofs.C04.off_ok off) /\
  returns (Model.DateTime.west_opt s) /\ (forall off, Model.DateTime.west_opt s = Val (Some off) -> Proofs.C04.off_ok off).
Proof. exact fixed_offset_ctor_total. Qed.
Print Assumptions C15_fixed_offset_ctor_total.
(* TimeZone::from_local_datetime = NaiveDateTime::and_local_timezone (op c15.ndt.andtz): Single or None, never Ambiguous *)
Theorem C15_from_local_datetime_total : forall off l, 
  Proofs.C04.ndt_ok l -> Proofs.C04.off_ok off ->
  returns (Model.DateTime.from_local_datetime off l) /\
  (forall z, Model.DateTime.from_local_datetime off l = Val (Model.DateTime.MSingle z) -> Proofs.C04.dtz_ok z) /\
  (forall x y, Model.DateTime.from_local_datetime off l <> Val (Model.DateTime.MAmbiguous x y)).
Proof. exact from_local_datetime_total. Qed.
Print Assumptions C15_from_local_datetime_total.
(* the non-panicking wall-clock view the renderers and rounding use *)
Theorem C15_overflowing_naive_local_total : forall a, 
  Proofs.C04.dtz_ok a -> returns (Model.DateTime.overflowing_naive_local a).
Proof. exact overflowing_naive_local_total. Qed.
Print Assumptions C15_overflowing_naive_local_total.
(* with the range filter of 6a10a33: a Single result is inside MIN_UTC..=MAX_UTC *)
Theorem C15_with_time_total : forall a t, 
  Proofs.C04.dtz_ok a -> Proofs.C04.time_ok t ->
  returns (Model.DateTime.dz_with_time a t) /\
  (forall z, Model.DateTime.dz_with_time a t = Val (Model.DateTime.MSingle z) -> Proofs.C04.dtz_ok z) /\
  (forall x y, Model.DateTime.dz_with_time a t <> Val (Model.DateTime.MAmbiguous x y)).
Proof. exact with_time_total. Qed.
Print Assumptions C15_with_time_total.
(* with_hour / with_minute / with_second / with_nanosecond of DateTime: any wall clock, headroom dates included *)
Theorem C15_dtz_with_time_field_total : forall field a x, 
  Proofs.C04.dtz_ok a -> 7 <= field <= 10 -> in_u32 x = true ->
  returns (Model.DateTime.dz_with field a x) /\ forall z, Model.DateTime.dz_with field a x = Val (Some z) -> Proofs.C04.dtz_ok z.
Proof. exact dtz_with_time_field_total. Qed.
Print Assumptions C15_dtz_with_time_field_total.
Theorem C15_with_ymd_and_hms_total : forall off y m d h mi s, 
  Proofs.C04.off_ok off ->
  in_i32 y = true -> in_u32 m = true -> in_u32 d = true -> in_u32 h = true -> in_u32 mi = true -> in_u32 s = true ->
  returns (Model.DateTime.with_ymd_and_hms off y m d h mi s) /\
  (forall z, Model.DateTime.with_ymd_and_hms off y m d h mi s = Val (Model.DateTime.MSingle z) -> Proofs.C04.dtz_ok z) /\
  (forall a b, Model.DateTime.with_ymd_and_hms off y m d h mi s <> Val (Model.DateTime.MAmbiguous a b)).
Proof. exact with_ymd_and_hms_total. Qed.
Print Assumptions C15_with_ymd_and_hms_total.
(* NaiveDateTime::checked_add_offset / checked_sub_offset (ops c15.ndt.addoff, c15.ndt.suboff) *)
Theorem C15_ndt_offset_total : forall a off, 
  Proofs.C04.ndt_ok a -> Proofs.C04.off_ok off ->
  (returns (Model.DateTime.ndt_checked_add_offset a off) /\
   forall b, Model.DateTime.ndt_checked_add_offset a off = Val (Some b) -> Proofs.C04.ndt_ok b) /\
  (returns (Model.DateTime.ndt_checked_sub_offset a off) /\
   forall b, Model.DateTime.ndt_checked_sub_offset a off = Val (Some b) -> Proofs.C04.ndt_ok b).
Proof. exact ndt_offset_total. Qed.
Print Assumptions C15_ndt_offset_total.
(* with_year / with_month(0) / with_day(0) / with_ordinal(0) of DateTime: EVERY well-formed date-time, wall clock in the one-day headroom included (C04_replace_date_field) *)
Theorem C15_dtz_with_date_field_total : forall field a x, 
  Proofs.C04.dtz_ok a ->
  0 <= field <= 6 -> (if field =? 0 then in_i32 x else in_u32 x) = true ->
  returns (Model.DateTime.dz_with field a x) /\ forall z, Model.DateTime.dz_with field a x = Val (Some z) -> Proofs.C04.dtz_ok z.
Proof. exact dtz_with_date_field_total. Qed.
Print Assumptions C15_dtz_with_date_field_total.
(* checked_add_days / checked_sub_days of DateTime: every well-formed date-time, headroom included (C04_add_days, C04_sub_days); Days::new(u64::MAX) included *)
Theorem C15_dtz_days_total : forall a n, 
  Proofs.C04.dtz_ok a -> in_u64 n = true ->
  (returns (Model.DateTime.dz_checked_add_days a n) /\ forall z, Model.DateTime.dz_checked_add_days a n = Val (Some z) -> Proofs.C04.dtz_ok z) /\
  (returns (Model.DateTime.dz_checked_sub_days a n) /\ forall z, Model.DateTime.dz_checked_sub_days a n = Val (Some z) -> Proofs.C04.dtz_ok z).
Proof. exact dtz_days_total. Qed.
Print Assumptions C15_dtz_days_total.
(* checked_add_months / checked_sub_months of DateTime: every well-formed date-time, headroom included (C04_months); Months::new(u32::MAX) included *)
Theorem C15_dtz_months_total : forall (add : bool) a m, 
  Proofs.C04.dtz_ok a -> in_u32 m = true ->
  let step := if add then Model.DateTime.dz_checked_add_months a m else Model.DateTime.dz_checked_sub_months a m in
  returns step /\ forall z, step = Val (Some z) -> Proofs.C04.dtz_ok z.
Proof. exact dtz_months_total. Qed.
Print Assumptions C15_dtz_months_total.
(* older form: wall clock inside the NaiveDateTime range *)
Theorem C15_dtz_with_date_field_partial : forall field a x, 
  Proofs.C04.dtz_ok a -> Proofs.C04.in_rng (Proofs.C04.wall a) = true ->
  0 <= field <= 6 -> (if field =? 0 then in_i32 x else in_u32 x) = true ->
  returns (Model.DateTime.dz_with field a x) /\ forall z, Model.DateTime.dz_with field a x = Val (Some z) -> Proofs.C04.dtz_ok z.
Proof. exact dtz_with_date_field_partial. Qed.
Print Assumptions C15_dtz_with_date_field_partial.
(* older form: as above *)
Theorem C15_dtz_days_partial : forall a n, 
  Proofs.C04.dtz_ok a -> Proofs.C04.in_rng (Proofs.C04.wall a) = true -> in_u64 n = true ->
  (returns (Model.DateTime.dz_checked_add_days a n) /\ forall z, Model.DateTime.dz_checked_add_days a n = Val (Some z) -> Proofs.C04.dtz_ok z) /\
  (returns (Model.DateTime.dz_checked_sub_days a n) /\ forall z, Model.DateTime.dz_checked_sub_days a n = Val (Some z) -> Proofs.C04.dtz_ok z).
Proof. exact dtz_days_partial. Qed.
Print Assumptions C15_dtz_days_partial.
(* older form: as above *)
Theorem C15_dtz_months_partial : forall (add : bool) a m, 
  Proofs.C04.dtz_ok a -> Proofs.C04.in_rng (Proofs.C04.wall a) = true -> in_u32 m = true ->
  let step := if add then Model.DateTime.dz_checked_add_months a m else Model.DateTime.dz_checked_sub_months a m in
  returns step /\ forall z, step = Val (Some z) -> Proofs.C04.dtz_ok z.
Proof. exact dtz_months_partial. Qed.
Print Assumptions C15_dtz_months_partial.
(* MappedLocalTime::single / earliest / latest are pattern matches in the model (no trapping step); what they return *)
Theorem C15_mlt_selectors : forall A (m : Model.DateTime.mlt A), 
  (forall x, Model.DateTime.mlt_single m = Some x <-> m = Model.DateTime.MSingle x) /\
  (Model.DateTime.mlt_earliest m = None <-> m = Model.DateTime.MNone) /\
  (Model.DateTime.mlt_latest m = None <-> m = Model.DateTime.MNone) /\
  (forall x, Model.DateTime.mlt_single m = Some x -> Model.DateTime.mlt_earliest m = Some x /\ Model.DateTime.mlt_latest m = Some x) /\
  (forall x y, m = Model.DateTime.MAmbiguous x y -> Model.DateTime.mlt_earliest m = Some x /\ Model.DateTime.mlt_latest m = Some y).
Proof. exact mlt_selectors. Qed.
Print Assumptions C15_mlt_selectors.
(* TimeZone::offset_from_local_date / offset_from_local_datetime of FixedOffset and Utc (op c15.offlocal): the constant answer Single(self), twice *)
Theorem C15_offset_from_local_total : forall off, 
  Model.C15.offset_from_local off = VTup [VTup [VInt off]; VTup [VInt off]].
Proof. exact offset_from_local_total. Qed.
Print Assumptions C15_offset_from_local_total.

(** ** Month stepping, date-field replacement, week helpers (C08): every date, every u32 / i32 argument *)
Theorem C15_date_months_total : forall d n, 
  date_valid d -> in_u32 n = true ->
  returns (Model.Date.checked_add_months d n) /\ returns (Model.Date.checked_sub_months d n).
Proof. exact date_months_total. Qed.
Print Assumptions C15_date_months_total.
(* with_month0 / day0 / ordinal0 (u32::MAX + 1 does not fit: checked_add) included *)
Theorem C15_date_with_total : forall d x, 
  date_valid d ->
  (in_i32 x = true -> returns (Model.Date.with_year d x)) /\
  (in_u32 x = true -> returns (Model.Date.with_month d x) /\ returns (Model.Date.with_month0 d x) /\
                      returns (Model.Date.with_day d x) /\ returns (Model.Date.with_day0 d x) /\
                      returns (Model.Date.with_ordinal d x) /\ returns (Model.Date.with_ordinal0 d x)).
Proof. exact date_with_total. Qed.
Print Assumptions C15_date_with_total.
Theorem C15_week_total : forall d w, 
  date_valid d -> 0 <= w <= 6 ->
  returns (Model.DateExtra.week_checked_first_day (Model.DateExtra.d_week d w)) /\
  returns (Model.DateExtra.week_checked_last_day (Model.DateExtra.d_week d w)) /\
  returns (Model.DateExtra.week_checked_days (Model.DateExtra.d_week d w)).
Proof. exact week_total. Qed.
Print Assumptions C15_week_total.
Theorem C15_from_weekday_of_month_opt_total : forall y m w n, 
  in_i32 y = true -> in_u32 m = true -> 0 <= w <= 6 -> in_u8 n = true ->
  returns (Model.DateExtra.from_weekday_of_month_opt y m w n).
Proof. exact from_weekday_of_month_opt_total. Qed.
Print Assumptions C15_from_weekday_of_month_opt_total.
Theorem C15_years_since_total : forall d1 d0, 
  date_valid d1 -> date_valid d0 -> returns (Model.Date.years_since d1 d0).
Proof. exact years_since_total. Qed.
Print Assumptions C15_years_since_total.
Theorem C15_month_num_days_total : forall m y, 
  1 <= m <= 12 -> in_i32 y = true -> returns (Model.DateExtra.month_num_days m y).
Proof. exact month_num_days_total. Qed.
Print Assumptions C15_month_num_days_total.
Theorem C15_ndt_months_total : forall a n, 
  date_valid (Model.DateTime.nd_date a) -> in_u32 n = true ->
  returns (Model.DateTime.ndt_checked_add_months a n) /\ returns (Model.DateTime.ndt_checked_sub_months a n).
Proof. exact ndt_months_total. Qed.
Print Assumptions C15_ndt_months_total.

(** ** Field resolution (C14).  C14 states its absence-of-traps theorems modulo three ISO-week facts about Model/Date.v; they are discharged here from C01's theorems (C01_iso_week, C01_from_isoywd_opt, C01_iso_form), so the statements below are unconditional *)
Theorem C15_fact_iso_week_total : 
  Proofs.C14Date.Fact_iso_week_total.
Proof. exact fact_iso_week_total. Qed.
Print Assumptions C15_fact_iso_week_total.
Theorem C15_fact_isoywd_total : 
  Proofs.C14Date.Fact_isoywd_total.
Proof. exact fact_isoywd_total. Qed.
Print Assumptions C15_fact_isoywd_total.
Theorem C15_fact_isoywd_roundtrip : 
  Proofs.C14Date.Fact_isoywd_roundtrip.
Proof. exact fact_isoywd_roundtrip. Qed.
Print Assumptions C15_fact_isoywd_roundtrip.
(* all 22 set_* methods, every i64 argument *)
Theorem C15_parsed_setters_total : forall k p v r, 
  Model.Parsed.apply_setter k p v = Some r -> r <> Panic /\ r <> OutOfFuel.
Proof. exact parsed_setters_total. Qed.
Print Assumptions C15_parsed_setters_total.
(* every field state the setters can produce (typed); a returned date is valid *)
Theorem C15_to_naive_date_total : forall p, 
  Proofs.C14.typed p ->
  returns (Model.Parsed.to_naive_date p) /\ forall d, Model.Parsed.to_naive_date p = Val (Model.Parsed.Ok d) -> date_valid d.
Proof. exact to_naive_date_total. Qed.
Print Assumptions C15_to_naive_date_total.
Theorem C15_to_naive_time_total : forall p, 
  Proofs.C14.u32v (Model.Parsed.p_hour_div_12 p) -> Proofs.C14.u32v (Model.Parsed.p_hour_mod_12 p) -> Proofs.C14.u32v (Model.Parsed.p_minute p) ->
  Proofs.C14.u32v (Model.Parsed.p_second p) -> Proofs.C14.u32v (Model.Parsed.p_nanosecond p) ->
  returns (Model.Parsed.to_naive_time p).
Proof. exact to_naive_time_total. Qed.
Print Assumptions C15_to_naive_time_total.
(* every i32 offset; includes the minimum timestamp with second 60 (dd0e5ce) *)
Theorem C15_to_naive_datetime_with_offset_total : forall p off, 
  Proofs.C14.typed p -> in_i32 off = true ->
  returns (Model.Parsed.to_naive_datetime_with_offset p off).
Proof. exact to_naive_datetime_with_offset_total. Qed.
Print Assumptions C15_to_naive_datetime_with_offset_total.
(* Parsed::to_datetime on every typed field state, the last step (offset range check, from_local_datetime) included (C14_to_datetime_never_panics); a returned date-time is well formed *)
Theorem C15_to_datetime_total : forall p, 
  Proofs.C14.typed p ->
  returns (Model.Parsed.to_datetime p) /\ forall z, Model.Parsed.to_datetime p = Val (Model.Parsed.Ok z) -> Proofs.C04.dtz_ok z.
Proof. exact to_datetime_total. Qed.
Print Assumptions C15_to_datetime_total.
(* Parsed::to_datetime_with_timezone for every FixedOffset / Utc zone (C14_to_datetime_with_timezone_never_panics); the result carries the zone's offset *)
Theorem C15_to_datetime_with_timezone_total : forall p tz, 
  Proofs.C14.typed p -> Proofs.C04.off_ok tz ->
  returns (Model.Parsed.to_datetime_with_timezone p tz) /\
  forall z, Model.Parsed.to_datetime_with_timezone p tz = Val (Model.Parsed.Ok z) -> Proofs.C04.dtz_ok z /\ Model.DateTime.dz_off z = tz.
Proof. exact to_datetime_with_timezone_total. Qed.
Print Assumptions C15_to_datetime_with_timezone_total.
(* the 21 getters (year .. offset) are plain projections in the model (no trapping step): on every typed state -- every state the setters (C14_setters_keep_typed) and the readers (C15_parse_items_total) produce -- a returned value is a value of the getter's Rust type *)
Theorem C15_parsed_getters_valid : forall p f, 
  Proofs.C14.typed p ->
  match Model.Parsed.pget f p with Some v => Proofs.C14.ftype f v | None => True end.
Proof. exact parsed_getters_valid. Qed.
Print Assumptions C15_parsed_getters_valid.

(** ** Weekday / Month conversions and FromStr (C19) *)
(* all thirteen FromPrimitive / TryFrom conversions are plain functions in the model: a returned value is a Weekday / Month *)
Theorem C15_weekday_month_conversions : forall n, 
  (forall r, In r (Proofs.C19.wd_from_all n) -> match r with Some w => Proofs.C19.wd w | None => True end) /\
  (forall r, In r (Proofs.C19.mo_from_all n) -> match r with Some m => Proofs.C19.mo m | None => True end).
Proof. exact weekday_month_conversions. Qed.
Print Assumptions C15_weekday_month_conversions.
Theorem C15_weekday_month_from_str_total : forall s, 
  Forall Proofs.C19.byte s -> Model.ScanNames.utf8_valid s = true ->
  returns (Model.C19.wd_from_str s) /\ returns (Model.C19.mo_from_str s).
Proof. exact weekday_month_from_str_total. Qed.
Print Assumptions C15_weekday_month_from_str_total.

(** ** Rounding (C17): DurationRound for NaiveDateTime and for DateTime<Tz> ([Proofs.C17.ndt_op m] / [dz_op m] are duration_trunc / duration_round_up / duration_round of Model/Round.v; DateTime as repaired by f2640c4: the wall clock is read with overflowing_naive_local).  EVERY well-formed value, leap-second fractions included, every span (TimeDelta::MIN / MAX / zero included): the call returns -- an error value or a well-formed value.  C17's value theorems (C17_naive_value, C17_zoned_value ...) are over non-leap inputs, whose stamp moves exactly; for a leap-second input the helpers still return (Proofs/C15Wide.v: an i64 stamp pins the input within 106 753 days of the epoch, the amount added or subtracted is a positive span below 2^63 ns, and C07's timeline arithmetic succeeds there); a headroom wall clock has no i64 stamp: Err(TimestampExceedsLimit) *)
Theorem C15_ndt_round_total : forall a d, 
  Proofs.C04.ndt_ok a -> Proofs.C06.valid d ->
  forall m, returns (Proofs.C17.ndt_op m a d) /\ forall r, Proofs.C17.ndt_op m a d = Val (inl r) -> Proofs.C04.ndt_ok r.
Proof. exact ndt_round_full. Qed.
Print Assumptions C15_ndt_round_total.
(* DateTime<Tz>: duration_round / duration_trunc / duration_round_up *)
Theorem C15_dtz_round_total : forall a d, 
  Proofs.C04.dtz_ok a -> Proofs.C06.valid d ->
  forall m, returns (Proofs.C17.dz_op m a d) /\ forall r, Proofs.C17.dz_op m a d = Val (inl r) -> Proofs.C04.dtz_ok r.
Proof. exact dtz_round_total. Qed.
Print Assumptions C15_dtz_round_total.
(* the older route: C17 premise discharged from C02 and C03 for non-leap date-times *)
Theorem C15_ndt_links_nonleap : 
  Proofs.C17.ndt_links Proofs.C03.inst Proofs.C03.nvalid.
Proof. exact ndt_links_nonleap. Qed.
Print Assumptions C15_ndt_links_nonleap.
(* older form: non-leap date-times *)
Theorem C15_ndt_round_total_partial : forall a d, 
  Proofs.C03.nvalid a -> Proofs.C06.valid d ->
  forall m, returns (Proofs.C17.ndt_op m a d) /\ forall r, Proofs.C17.ndt_op m a d = Val (inl r) -> Proofs.C03.nvalid r.
Proof. exact ndt_round_total_partial. Qed.
Print Assumptions C15_ndt_round_total_partial.

(** ** Parsers.  [str_ok s]: s is well-formed UTF-8 (Base/Utf8.v; the same strings as Model/Strftime.v's predicate: C15_utf8_predicates_agree) of a length a Rust string can have (at most u64::MAX bytes; the RFC 2822 reader and the format-string iterator do usize arithmetic on lengths).  The premise SF_ERROR_CONSUMES = true is the translator's reading of the repaired error() of src/format/strftime.rs (d664290), as in the StrftimeItems theorems below *)
(* every well-formed UTF-8 string (C10) *)
Theorem C15_parse_from_rfc3339_total : forall s, 
  Base.Utf8.utf8_valid s = true -> returns (Model.Rfc3339.parse_from_rfc3339 s).
Proof. exact parse_from_rfc3339_total. Qed.
Print Assumptions C15_parse_from_rfc3339_total.
(* DateTime::parse_from_rfc2822: EVERY string (C11_parse_never_panics + C14_to_datetime_never_panics); a returned date-time is well formed *)
Theorem C15_parse_from_rfc2822_total : forall s, 
  str_ok s ->
  returns (Model.Rfc2822.parse_from_rfc2822 s) /\ forall z, Model.Rfc2822.parse_from_rfc2822 s = Val (POk z) -> Proofs.C04.dtz_ok z.
Proof. exact parse_from_rfc2822_total. Qed.
Print Assumptions C15_parse_from_rfc2822_total.
(* format::parse / parse_and_remainder over EVERY item list whose literals are strings, the Fixed::RFC2822 item included (C13_parse_never_panics), every input: never a trap; an accepted input leaves a typed field state (Proofs/C15Parse.v) and a well-formed remainder.  Supersedes C15_parse_items_total_partial *)
Theorem C15_parse_items_total : forall items p s, 
  Proofs.C14.typed p -> forallb Proofs.C13Total.item_wf items = true ->
  Base.Utf8.utf8_valid s = true -> Base.Utf8.blen s <= u64_max ->
  (returns (Model.Parse.parse p s items) /\ forall q, Model.Parse.parse p s items = Val (POk q) -> Proofs.C14.typed q) /\
  (returns (Model.Parse.parse_and_remainder p s items) /\
   forall q r, Model.Parse.parse_and_remainder p s items = Val (POk (q, r)) -> Proofs.C14.typed q /\ Base.Utf8.utf8_valid r = true).
Proof. exact parse_items_full. Qed.
Print Assumptions C15_parse_items_total.
(* the older form (kept under its name; superseded by C15_parse_items_total): item lists without Fixed::RFC2822 *)
Theorem C15_parse_items_total_partial : forall items p s, 
  forallb Proofs.C13Safe.item_ok items = true -> Base.Utf8.utf8_valid s = true ->
  returns (Model.Parse.parse p s items) /\ returns (Model.Parse.parse_and_remainder p s items).
Proof. exact parse_items_total. Qed.
Print Assumptions C15_parse_items_total_partial.
(* the two executable statements of UTF-8 well-formedness in the models accept the same strings *)
Theorem C15_utf8_predicates_agree : forall s, 
  Model.Strftime.utf8_valid s = Base.Utf8.utf8_valid s.
Proof. exact utf8_valid_eq. Qed.
Print Assumptions C15_utf8_predicates_agree.
(* every item the strict format-string iterator yields is well formed: a Literal carries a well-formed string ([st_ok]: strict mode, well-formed remainder of at most u64::MAX bytes, well-formed queued items; [st_ok_new]: StrftimeItems::new(fmt) is such a state) *)
Theorem C15_strftime_items_wellformed : 
  forall items st, st_ok st -> Proofs.C13Time.yields st items -> forallb Proofs.C13Total.item_wf items = true.
Proof. exact yields_wf. Qed.
Print Assumptions C15_strftime_items_wellformed.
(* NaiveDate::parse_from_str(s, fmt): EVERY format string, EVERY input -- iterator, lazily driven reader (C13_parse_sf_loop_is_parse_items), to_naive_date; a returned date is valid *)
Theorem C15_date_parse_from_str_total : forall s fmt, 
  str_ok s -> str_ok fmt -> Gen.Strftime.SF_ERROR_CONSUMES = true ->
  returns (Model.Parse.date_parse_from_str s fmt) /\ forall d, Model.Parse.date_parse_from_str s fmt = Val (POk d) -> date_valid d.
Proof. exact date_parse_from_str_total. Qed.
Print Assumptions C15_date_parse_from_str_total.
(* NaiveTime::parse_from_str *)
Theorem C15_time_parse_from_str_total : forall s fmt, 
  str_ok s -> str_ok fmt -> Gen.Strftime.SF_ERROR_CONSUMES = true ->
  returns (Model.Parse.time_parse_from_str s fmt) /\ forall t, Model.Parse.time_parse_from_str s fmt = Val (POk t) -> time_valid t.
Proof. exact time_parse_from_str_total. Qed.
Print Assumptions C15_time_parse_from_str_total.
(* NaiveDateTime::parse_from_str *)
Theorem C15_ndt_parse_from_str_total : forall s fmt, 
  str_ok s -> str_ok fmt -> Gen.Strftime.SF_ERROR_CONSUMES = true ->
  returns (Model.Parse.ndt_parse_from_str s fmt) /\ forall a, Model.Parse.ndt_parse_from_str s fmt = Val (POk a) -> Proofs.C04.ndt_ok a.
Proof. exact ndt_parse_from_str_total. Qed.
Print Assumptions C15_ndt_parse_from_str_total.
(* DateTime::<FixedOffset>::parse_from_str *)
Theorem C15_dt_parse_from_str_total : forall s fmt, 
  str_ok s -> str_ok fmt -> Gen.Strftime.SF_ERROR_CONSUMES = true ->
  returns (Model.Parse.dt_parse_from_str s fmt) /\ forall z, Model.Parse.dt_parse_from_str s fmt = Val (POk z) -> Proofs.C04.dtz_ok z.
Proof. exact dt_parse_from_str_total. Qed.
Print Assumptions C15_dt_parse_from_str_total.
(* T::parse_and_remainder(s, fmt): the value is valid and the remainder handed back is a string again *)
Theorem C15_date_parse_and_remainder_total : forall s fmt, 
  str_ok s -> str_ok fmt -> Gen.Strftime.SF_ERROR_CONSUMES = true ->
  returns (Model.Parse.date_parse_and_remainder s fmt) /\
  forall d r, Model.Parse.date_parse_and_remainder s fmt = Val (POk (d, r)) -> date_valid d /\ Base.Utf8.utf8_valid r = true.
Proof. exact date_parse_and_remainder_total. Qed.
Print Assumptions C15_date_parse_and_remainder_total.
Theorem C15_time_parse_and_remainder_total : forall s fmt, 
  str_ok s -> str_ok fmt -> Gen.Strftime.SF_ERROR_CONSUMES = true ->
  returns (Model.Parse.time_parse_and_remainder s fmt) /\
  forall t r, Model.Parse.time_parse_and_remainder s fmt = Val (POk (t, r)) -> time_valid t /\ Base.Utf8.utf8_valid r = true.
Proof. exact time_parse_and_remainder_total. Qed.
Print Assumptions C15_time_parse_and_remainder_total.
Theorem C15_ndt_parse_and_remainder_total : forall s fmt, 
  str_ok s -> str_ok fmt -> Gen.Strftime.SF_ERROR_CONSUMES = true ->
  returns (Model.Parse.ndt_parse_and_remainder s fmt) /\
  forall a r, Model.Parse.ndt_parse_and_remainder s fmt = Val (POk (a, r)) -> Proofs.C04.ndt_ok a /\ Base.Utf8.utf8_valid r = true.
Proof. exact ndt_parse_and_remainder_total. Qed.
Print Assumptions C15_ndt_parse_and_remainder_total.
Theorem C15_dt_parse_and_remainder_total : forall s fmt, 
  str_ok s -> str_ok fmt -> Gen.Strftime.SF_ERROR_CONSUMES = true ->
  returns (Model.Parse.dt_parse_and_remainder s fmt) /\
  forall z r, Model.Parse.dt_parse_and_remainder s fmt = Val (POk (z, r)) -> Proofs.C04.dtz_ok z /\ Base.Utf8.utf8_valid r = true.
Proof. exact dt_parse_and_remainder_total. Qed.
Print Assumptions C15_dt_parse_and_remainder_total.
(* the FromStr impls built on the item reader with the fixed item lists of Gen/TextForms.v (Model/FromStr.v): EVERY input *)
Theorem C15_naive_date_from_str_total : forall s, 
  str_ok s ->
  returns (Model.FromStr.naive_date_from_str s) /\ forall d, Model.FromStr.naive_date_from_str s = Val (POk d) -> date_valid d.
Proof. exact naive_date_from_str_total. Qed.
Print Assumptions C15_naive_date_from_str_total.
(* three reader calls (the second may fail and is then ignored) and to_naive_time *)
Theorem C15_naive_time_from_str_total : forall s, 
  str_ok s ->
  returns (Model.FromStr.naive_time_from_str s) /\ forall t, Model.FromStr.naive_time_from_str s = Val (POk t) -> time_valid t.
Proof. exact naive_time_from_str_total. Qed.
Print Assumptions C15_naive_time_from_str_total.
Theorem C15_naive_datetime_from_str_total : forall s, 
  str_ok s ->
  returns (Model.FromStr.naive_datetime_from_str s) /\ forall a, Model.FromStr.naive_datetime_from_str s = Val (POk a) -> Proofs.C04.ndt_ok a.
Proof. exact naive_datetime_from_str_total. Qed.
Print Assumptions C15_naive_datetime_from_str_total.
(* the relaxed RFC 3339 reader (C13_rfc3339_relaxed_never_panics), trailing white space, to_datetime *)
Theorem C15_datetime_fixed_from_str_total : forall s, 
  str_ok s ->
  returns (Model.FromStr.datetime_fixed_from_str s) /\ forall z, Model.FromStr.datetime_fixed_from_str s = Val (POk z) -> Proofs.C04.dtz_ok z.
Proof. exact datetime_fixed_from_str_total. Qed.
Print Assumptions C15_datetime_fixed_from_str_total.
(* the same, then with_timezone(&Utc) *)
Theorem C15_datetime_utc_from_str_total : forall s, 
  str_ok s ->
  returns (Model.FromStr.datetime_utc_from_str s) /\
  forall z, Model.FromStr.datetime_utc_from_str s = Val (POk z) -> Proofs.C04.dtz_ok z /\ Model.DateTime.dz_off z = 0.
Proof. exact datetime_utc_from_str_total. Qed.
Print Assumptions C15_datetime_utc_from_str_total.
(* the offset scanner (C13_timezone_offset_never_panics), then east_opt *)
Theorem C15_fixed_offset_from_str_total : forall s, 
  str_ok s ->
  returns (Model.FromStr.fixed_offset_from_str s) /\ forall off, Model.FromStr.fixed_offset_from_str s = Val (POk off) -> Proofs.C04.off_ok off.
Proof. exact fixed_offset_from_str_total. Qed.
Print Assumptions C15_fixed_offset_from_str_total.

(** ** The RFC 3339 renderers never trap: EVERY well-formed date-time -- any year (the one-day headroom seen through an offset included: the repaired defect of to_rfc3339_opts), any offset (seconds included), leap-second fraction on any second -- and every SecondsFormat (0 Secs .. 4 AutoSi).  The writer is total (Proofs/C15Text.v on the writer lemmas of C09 / C10 / C20); what the text IS is C10's theorem on its writer domain (C10_writer_in_grammar) *)
Theorem C15_to_rfc3339_total : forall a, 
  Proofs.C04.dtz_ok a -> returns (Model.Rfc3339.to_rfc3339 a).
Proof. exact to_rfc3339_total. Qed.
Print Assumptions C15_to_rfc3339_total.
Theorem C15_to_rfc3339_opts_total : forall a sf uz, 
  Proofs.C04.dtz_ok a -> 0 <= sf <= 4 ->
  returns (Model.Rfc3339.to_rfc3339_opts a sf uz).
Proof. exact to_rfc3339_opts_total. Qed.
Print Assumptions C15_to_rfc3339_opts_total.
(* older form: C10 writer domain (whole-minute offsets, wall-clock year 0..9999, leap-second field only on second 59) *)
Theorem C15_to_rfc3339_opts_total_partial : forall y o secs frac off sf uz a, 
  Model.DateTime.dec_dtz (Proofs.C10Main.value y o secs frac off) = Some a -> Proofs.C10Main.writer_domain y o secs frac off sf ->
  returns (Model.Rfc3339.to_rfc3339_opts a sf uz).
Proof. exact to_rfc3339_opts_total_partial. Qed.
Print Assumptions C15_to_rfc3339_opts_total_partial.

(** ** DelayedFormat never traps (Proofs/C15Format.v): EVERY item -- every Numeric with every Pad, every Fixed incl. the internal ones and the RFC 2822 / RFC 3339 items, literals, the Error item -- on EVERY value of the five kinds (NaiveDate, NaiveTime, NaiveDateTime, DateTime<FixedOffset> with any offset and the wall-clock day one day outside the date range, DateTime<Utc>): the text, or fmt::Error by value (an item the value has no field for; a year outside 0..=9999 under the RFC 2822 item; the Error item).  Hence write_to / Display over arbitrary item lists and over StrftimeItems (strict or lenient) of every format string.  What the text IS on the documented family: C12_format_spec_family *)
(* one item; [Proofs.C12.args_view a sv]: the formatter arguments denote a value (C12_args_view_date .. C12_args_view_dtz_all: every value has such a view) *)
Theorem C15_format_item_never_traps : forall a sv it, 
  Proofs.C12.args_view a sv -> returns (Model.Format.format_item a it).
Proof. exact format_item_never_traps. Qed.
Print Assumptions C15_format_item_never_traps.
(* DelayedFormat::write_to / Display over an arbitrary item list (format_with_items), the five kinds of value *)
Theorem C15_delayed_format_items_total : forall items, 
  (forall d, date_valid d -> returns (Model.Format.write_items (Model.Format.fa_of_date d) items [])) /\
  (forall t, time_valid t -> returns (Model.Format.write_items (Model.Format.fa_of_time t) items [])) /\
  (forall n, Proofs.C04.ndt_ok n -> returns (Model.Format.write_items (Model.Format.fa_of_ndt n) items [])) /\
  (forall z, Proofs.C04.dtz_ok z -> exists a, Model.Format.fa_of_dtz z = Val a /\ returns (Model.Format.write_items a items [])) /\
  (forall n, Proofs.C04.ndt_ok n -> exists a, Model.Format.fa_of_utc n = Val a /\ returns (Model.Format.write_items a items [])).
Proof. exact delayed_format_items_total. Qed.
Print Assumptions C15_delayed_format_items_total.
(* DelayedFormat<StrftimeItems>: every format string, strict (repaired error()) or lenient (op c15.writeto, sf.fmt, sf.fmtl) *)
Theorem C15_delayed_format_strftime_total : forall fmt lenient, 
  Base.Utf8.utf8_valid fmt = true -> Base.Utf8.blen fmt <= u64_max -> Gen.Strftime.SF_ERROR_CONSUMES = true \/ lenient = true ->
  (forall d, date_valid d -> returns (Model.Format.delayed_display (Model.Format.fa_of_date d) (Model.Strftime.mk_sfi fmt [] lenient))) /\
  (forall t, time_valid t -> returns (Model.Format.delayed_display (Model.Format.fa_of_time t) (Model.Strftime.mk_sfi fmt [] lenient))) /\
  (forall n, Proofs.C04.ndt_ok n -> returns (Model.Format.delayed_display (Model.Format.fa_of_ndt n) (Model.Strftime.mk_sfi fmt [] lenient))) /\
  (forall z, Proofs.C04.dtz_ok z -> exists a, Model.Format.fa_of_dtz z = Val a /\ returns (Model.Format.delayed_display a (Model.Strftime.mk_sfi fmt [] lenient))) /\
  (forall n, Proofs.C04.ndt_ok n -> exists a, Model.Format.fa_of_utc n = Val a /\ returns (Model.Format.delayed_display a (Model.Strftime.mk_sfi fmt [] lenient))).
Proof. exact delayed_format_strftime_total. Qed.
Print Assumptions C15_delayed_format_strftime_total.

(** ** Debug / Display of values never trap (to_string() / format!("{:?}") panic on a writer error: there is none): every valid NaiveDate, NaiveTime, NaiveDateTime (leap-second fractions included), every FixedOffset (seconds included), Utc, and every well-formed DateTime<Tz> ([utc] = true: Tz = Utc) -- wall clock in the one-day headroom included.  What the text IS: C09's shape theorems (C09_shape_date ...) on their domain *)
Theorem C15_show_date_total : forall d, 
  date_valid d -> returns (Model.Show.to_text (Model.Show.date_debug [] d)) /\ returns (Model.Show.to_text (Model.Show.date_display [] d)).
Proof. exact show_date_total. Qed.
Print Assumptions C15_show_date_total.
Theorem C15_show_time_total : forall t, 
  time_valid t -> returns (Model.Show.to_text (Model.Show.time_debug [] t)) /\ returns (Model.Show.to_text (Model.Show.time_display [] t)).
Proof. exact show_time_total. Qed.
Print Assumptions C15_show_time_total.
Theorem C15_show_ndt_total : forall a, 
  Proofs.C04.ndt_ok a -> returns (Model.Show.to_text (Model.Show.ndt_debug [] a)) /\ returns (Model.Show.to_text (Model.Show.ndt_display [] a)).
Proof. exact show_ndt_total. Qed.
Print Assumptions C15_show_ndt_total.
Theorem C15_show_fixed_offset_total : forall off, 
  Proofs.C04.off_ok off ->
  returns (Model.Show.to_text (Model.Show.fixed_debug [] off)) /\ returns (Model.Show.to_text (Model.Show.fixed_display [] off)).
Proof. exact show_fixed_offset_total. Qed.
Print Assumptions C15_show_fixed_offset_total.
Theorem C15_show_utc_total : 
  returns (Model.Show.to_text (Model.Show.utc_debug [])) /\ returns (Model.Show.to_text (Model.Show.utc_display [])).
Proof. exact show_utc_total. Qed.
Print Assumptions C15_show_utc_total.
Theorem C15_show_dtz_total : forall utc a, 
  Proofs.C04.dtz_ok a ->
  returns (Model.Show.to_text (Model.Show.dtz_debug utc [] a)) /\ returns (Model.Show.to_text (Model.Show.dtz_display utc [] a)).
Proof. exact show_dtz_total. Qed.
Print Assumptions C15_show_dtz_total.

(** ** Display / Debug of the error types, Debug of IsoWeek and of WeekdaySet (ops c15.errtext, c15.isoweek.dbg, c15.wdset.dbg; Proofs/C15Errors.v).  The impls write a literal (read from the sources by the translator: Gen/ErrText.v) or format two integers; there is no failing step in the model, so to_string() / format!("{:?}") of these values cannot panic on a writer error.  [err_dom which variant]: the selector names a value of an error type -- which 0 ParseError (variant = ParseErrorKind 0..6), 1 / 2 OutOfRange Display / Debug, 3 / 4 ParseMonthError, 5 / 6 ParseWeekdayError, 7 RoundingError (variant 0..2), 8 OutOfRangeError *)
(* every value of every error type has a text: a non-empty well-formed string *)
Theorem C15_error_texts_total : forall which variant, 
  err_dom which variant = true ->
  exists t, Model.C15.err_text which variant = Some t /\ Base.Utf8.utf8_valid t = true /\ t <> [].
Proof. exact error_texts_total. Qed.
Print Assumptions C15_error_texts_total.
(* and no other selector has one *)
Theorem C15_error_texts_domain : forall which variant, 
  err_dom which variant = false -> Model.C15.err_text which variant = None.
Proof. exact error_texts_domain. Qed.
Print Assumptions C15_error_texts_domain.
(* format!("{:?}", date.iso_week()) for every date (the ISO week exists: C15_fact_iso_week_total) *)
Theorem C15_isoweek_debug_total : forall d, 
  date_valid d -> returns (Model.C15.isoweek_debug d).
Proof. exact isoweek_debug_total. Qed.
Print Assumptions C15_isoweek_debug_total.
(* Debug of WeekdaySet: the prefix, exactly seven binary digits, the suffix *)
Theorem C15_wdset_debug_total : forall bits, 
  exists ds, Model.C15.wdset_debug bits = Gen.ErrText.ET_WDSET_PRE ++ ds ++ Gen.ErrText.ET_WDSET_POST /\
             List.length ds = 7%nat /\ Forall (fun c => c = 48 \/ c = 49) ds.
Proof. exact wdset_debug_total. Qed.
Print Assumptions C15_wdset_debug_total.

(** ** The serde carriers (Model/Serde.v; stream, data formats and round trips are C20's) never trap, at full strength (Proofs/C15Serde.v): the string deserializers are the FromStr impls (visit_str = value.parse()) -- every string; a visitor method an impl does not define is serde's invalid-type error, by value; [sval_ok v]: a string handed to visit_str is a string of a length a Rust string can have.  The string serializers of NaiveTime / NaiveDateTime: every value, leap-second fractions on any second included.  The sixteen timestamp helper modules ([Proofs.C20Ts.plain_mods] / [option_mods]: the module numbers of Gen/SerdeConsts.v): serialize of EVERY well-formed date-time (C20_ts_serialize_spec states the written number for non-leap values) *)
Theorem C15_serde_de_date_total : forall v, 
  sval_ok v ->
  returns (Model.Serde.de_date v) /\ forall d, Model.Serde.de_date v = Val (SOk d) -> date_valid d.
Proof. exact de_date_total. Qed.
Print Assumptions C15_serde_de_date_total.
Theorem C15_serde_de_time_total : forall v, 
  sval_ok v ->
  returns (Model.Serde.de_time v) /\ forall t, Model.Serde.de_time v = Val (SOk t) -> time_valid t.
Proof. exact de_time_total. Qed.
Print Assumptions C15_serde_de_time_total.
Theorem C15_serde_de_ndt_total : forall v, 
  sval_ok v ->
  returns (Model.Serde.de_ndt v) /\ forall a, Model.Serde.de_ndt v = Val (SOk a) -> Proofs.C04.ndt_ok a.
Proof. exact de_ndt_total. Qed.
Print Assumptions C15_serde_de_ndt_total.
Theorem C15_serde_de_dt_fixed_total : forall v, 
  sval_ok v ->
  returns (Model.Serde.de_dt_fixed v) /\ forall z, Model.Serde.de_dt_fixed v = Val (SOk z) -> Proofs.C04.dtz_ok z.
Proof. exact de_dt_fixed_total. Qed.
Print Assumptions C15_serde_de_dt_fixed_total.
Theorem C15_serde_de_dt_utc_total : forall v, 
  sval_ok v ->
  returns (Model.Serde.de_dt_utc v) /\
  forall z, Model.Serde.de_dt_utc v = Val (SOk z) -> Proofs.C04.dtz_ok z /\ Model.DateTime.dz_off z = 0.
Proof. exact de_dt_utc_total. Qed.
Print Assumptions C15_serde_de_dt_utc_total.
(* Weekday / Month: the premises of C15_weekday_month_from_str_total on the string *)
Theorem C15_serde_de_names_total : forall v, 
  (forall s, v = Model.Serde.SStr s -> Forall Proofs.C19.byte s /\ Model.ScanNames.utf8_valid s = true) ->
  returns (Model.Serde.de_wd v) /\ returns (Model.Serde.de_mo v).
Proof. exact de_names_total. Qed.
Print Assumptions C15_serde_de_names_total.
Theorem C15_serde_ser_time_total : forall t, 
  time_valid t -> returns (Model.Serde.ser_time t).
Proof. exact ser_time_total. Qed.
Print Assumptions C15_serde_ser_time_total.
Theorem C15_serde_ser_ndt_total : forall a, 
  Proofs.C04.ndt_ok a -> returns (Model.Serde.ser_ndt a).
Proof. exact ser_ndt_total. Qed.
Print Assumptions C15_serde_ser_ndt_total.
(* timestamp() / _millis() / _micros() do not overflow anywhere in the range (C02_timestamp*_no_overflow), timestamp_nanos_opt() = None is the custom error *)
Theorem C15_serde_ts_serialize_total : forall m a, 
  In m Proofs.C20Ts.plain_mods -> Proofs.C04.ndt_ok a -> returns (Model.Serde.ts_serialize m a).
Proof. exact ts_serialize_total. Qed.
Print Assumptions C15_serde_ts_serialize_total.
Theorem C15_serde_ts_serialize_option_total : forall m o, 
  In m Proofs.C20Ts.option_mods -> (forall a, o = Some a -> Proofs.C04.ndt_ok a) ->
  returns (Model.Serde.ts_serialize_option m o).
Proof. exact ts_serialize_option_total. Qed.
Print Assumptions C15_serde_ts_serialize_option_total.

(** ** The format-string iterator NEVER TRAPS (dedicated proof, Proofs/C15Strftime.v: every slice of strftime.rs is taken at a character boundary of the well-formed input, the index arithmetic stays in usize, assert!(nextspec > 0) holds), strict or lenient, with or without the repair of error(); with C12's termination theorem: it yields a finite item list of at most 13 items per byte, and StrftimeItems::parse / parse_to_owned / count return *)
Theorem C15_strftime_never_panics : forall s lenient fuel, 
  valid s = true -> blen s <= u64_max ->
  sf_take fuel (mk_sfi s [] lenient) [] <> Panic.
Proof. exact strftime_never_panics. Qed.
Print Assumptions C15_strftime_never_panics.
Theorem C15_strftime_items_total : forall s lenient, 
  Model.Strftime.utf8_valid s = true -> Z.of_nat (List.length s) <= u64_max ->
  Gen.Strftime.SF_ERROR_CONSUMES = true \/ lenient = true ->
  exists l, Model.C15.sf_items s lenient = Val (Some l) /\ Z.of_nat (List.length l) <= 13 * Z.of_nat (List.length s).
Proof. exact strftime_items_total. Qed.
Print Assumptions C15_strftime_items_total.
Theorem C15_strftime_parse_total : forall s lenient, 
  Model.Strftime.utf8_valid s = true -> Z.of_nat (List.length s) <= u64_max ->
  Gen.Strftime.SF_ERROR_CONSUMES = true \/ lenient = true ->
  Model.C15.sf_parse s lenient <> VPanic /\ Model.C15.sf_parse s lenient <> VFuel /\
  exists n, Model.C15.item_count s lenient = VInt n /\ 0 <= n <= 13 * Z.of_nat (List.length s).
Proof. exact strftime_parse_total. Qed.
Print Assumptions C15_strftime_parse_total.

(** ** Format-string items: iteration ends (the fuel of the drain, 16*len+32 calls, is never exhausted) after at most 13 items per input byte; strict mode on the repaired code (SF_ERROR_CONSUMES is read from src/format/strftime.rs by the translator: d664290), lenient mode always *)
Theorem C15_strftime_items_bounded : forall s lenient, 
  Gen.Strftime.SF_ERROR_CONSUMES = true \/ lenient = true ->
  Model.C15.sf_items s lenient <> OutOfFuel /\ Model.C15.sf_items s lenient <> Val None /\
  forall l, Model.C15.sf_items s lenient = Val (Some l) -> Z.of_nat (List.length l) <= 13 * Z.of_nat (List.length s).
Proof. exact strftime_items_bounded. Qed.
Print Assumptions C15_strftime_items_bounded.
Theorem C15_item_count_bounded : forall s lenient, 
  Gen.Strftime.SF_ERROR_CONSUMES = true \/ lenient = true ->
  Model.C15.item_count s lenient <> VFuel /\
  forall n, Model.C15.item_count s lenient = VInt n -> n <= 13 * Z.of_nat (List.length s).
Proof. exact item_count_bounded. Qed.
Print Assumptions C15_item_count_bounded.
(* StrftimeItems::parse / parse_to_owned *)
Theorem C15_strftime_parse_ends : forall s lenient, 
  Gen.Strftime.SF_ERROR_CONSUMES = true \/ lenient = true ->
  Model.C15.sf_parse s lenient <> VFuel.
Proof. exact sf_parse_no_fuel. Qed.
Print Assumptions C15_strftime_parse_ends.

(** ** the hypotheses are inhabited *)
Example C15_hypotheses_inhabited :
  date_valid (Model.Date.D_MAX) /\ Gen.Strftime.SF_ERROR_CONSUMES = true /\
  Model.C15.item_count (B"%c%c") false = VInt 26 /\ Model.C15.sf_parse (B"%Q") false = VErr B"BadFormat".
Proof. exact hypotheses_inhabited. Qed.
Print Assumptions C15_hypotheses_inhabited.

(* ... and those of the full forms: [z_wide] = MAX_UTC's last second with a leap-second fraction seen from +02:00 (wall clock
   one day outside the date range), [l_wide] = 2016-12-31T23:59:60.5 (Proofs/C15Text.v) *)
Example C15_wide_hypotheses_inhabited :
  Proofs.C04.dtz_ok z_wide /\ Proofs.C04.in_rng (Proofs.C04.wall z_wide) = false /\
  Model.Rfc3339.to_rfc3339 z_wide = Val (B"+262143-01-01T01:59:60.999999999+02:00") /\
  Model.Rfc3339.to_rfc3339_opts z_wide 1 true = Val (B"+262143-01-01T01:59:60.999+02:00") /\
  Model.Show.to_text (Model.Show.dtz_display false [] z_wide) = Val (B"+262143-01-01 01:59:60.999999999 +02:00") /\
  Proofs.C17.dz_op Proofs.C17.MRound z_wide (Model.TimeDelta.mk_td 3600 0) = Val (inr Model.Round.TimestampExceedsLimit) /\
  Proofs.C04.ndt_ok l_wide /\
  Model.DateTime.dt_timestamp_nanos_opt l_wide = Val (Some 1483228800500000000) /\
  Proofs.C17.ndt_op Proofs.C17.MTrunc l_wide (Model.TimeDelta.mk_td 3600 0)
    = Val (inl (Model.DateTime.mk_ndt Proofs.C07Ndt.leap_date (Model.Time.mk_time 86399 1000000000))).
Proof. exact wide_hypotheses_inhabited. Qed.
Print Assumptions C15_wide_hypotheses_inhabited.

Example C15_serde_hypotheses_inhabited :
  sval_ok (Model.Serde.SStr ex_text) /\ sval_ok Model.Serde.SUnit /\ In 6 Proofs.C20Ts.plain_mods /\ In 7 Proofs.C20Ts.option_mods /\
  Proofs.C04.ndt_ok l_wide.
Proof. exact serde_hypotheses_inhabited. Qed.
Print Assumptions C15_serde_hypotheses_inhabited.

Example C15_errors_hypotheses_inhabited :
  err_dom 0 6 = true /\ err_dom 8 1 = false /\ date_valid Model.Date.D_MAX /\
  Model.C15.wdset_debug 5 = B"WeekdaySet(0000101)".
Proof. exact errors_hypotheses_inhabited. Qed.
Print Assumptions C15_errors_hypotheses_inhabited.

(* ... and those of the text entry points (Proofs/C15Deep.v): [ex_fmt] = "%a, %d %b %Y %T %z \u00e9", [ex_text] = "Tue, 01 Jul 2003 10:52:37 +0200 \u00e9" *)
Example C15_deep_hypotheses_inhabited :
  str_ok ex_fmt /\ str_ok ex_text /\ Gen.Strftime.SF_ERROR_CONSUMES = true /\
  (exists z, Model.Parse.dt_parse_from_str ex_text ex_fmt = Val (POk z)) /\
  Model.Parse.date_parse_from_str ex_text (bytes_of_string "%Q"%string) = Val (PErr Model.Scan.BadFormat) /\
  Model.Parse.date_parse_from_str ex_text ex_fmt = Val (POk (Proofs.C08Sweeps.mkdate 2003 182)) /\
  Model.FromStr.naive_time_from_str (bytes_of_string "23:59:60.5"%string) = Val (POk (Model.Time.mk_time 86399 1500000000)).
Proof. exact deep_hypotheses_inhabited. Qed.
Print Assumptions C15_deep_hypotheses_inhabited.

(** ** Inventory of the public fallible entry points (gen/C15_inventory.json) by kind of no-panic evidence

   THEOREM of this file:
     C15_and_hms_total
       NaiveDate::and_hms_opt; NaiveDate::and_hms_milli_opt; NaiveDate::and_hms_micro_opt;
       NaiveDate::and_hms_nano_opt;
     C15_date_days_total
       NaiveDate::checked_add_days; NaiveDate::checked_sub_days;
     C15_date_months_total
       NaiveDate::checked_add_months; NaiveDate::checked_sub_months;
     C15_date_parse_and_remainder_total
       NaiveDate::parse_and_remainder;
     C15_date_parse_from_str_total
       NaiveDate::parse_from_str;
     C15_date_signed_total
       NaiveDate::checked_add_signed; NaiveDate::checked_sub_signed;
     C15_date_with_total
       <NaiveDate as Datelike>::with_year; <NaiveDate as Datelike>::with_month;
       <NaiveDate as Datelike>::with_month0; <NaiveDate as Datelike>::with_day;
       <NaiveDate as Datelike>::with_day0; <NaiveDate as Datelike>::with_ordinal;
       <NaiveDate as Datelike>::with_ordinal0;
     C15_datetime_fixed_from_str_total
       <DateTime<FixedOffset> as str::FromStr>::from_str;
     C15_datetime_utc_from_str_total
       <DateTime<Utc> as str::FromStr>::from_str;
     C15_delayed_format_items_total
       DelayedFormat<I>::write_to;
     C15_delayed_format_strftime_total
       <DelayedFormat<I> as Display>::fmt;
     C15_dt_parse_and_remainder_total
       DateTime<FixedOffset>::parse_and_remainder;
     C15_dt_parse_from_str_total
       DateTime<FixedOffset>::parse_from_str;
     C15_dtz_days_total
       DateTime<Tz>::checked_add_days; DateTime<Tz>::checked_sub_days;
     C15_dtz_months_total
       DateTime<Tz>::checked_add_months; DateTime<Tz>::checked_sub_months;
     C15_dtz_round_total
       <DateTime<Tz> as DurationRound>::duration_round; <DateTime<Tz> as DurationRound>::duration_trunc;
       <DateTime<Tz> as DurationRound>::duration_round_up;
     C15_dtz_signed_total
       DateTime<Tz>::checked_add_signed; DateTime<Tz>::checked_sub_signed;
     C15_dtz_with_date_field_total
       <DateTime<Tz> as Datelike>::with_year; <DateTime<Tz> as Datelike>::with_month;
       <DateTime<Tz> as Datelike>::with_month0; <DateTime<Tz> as Datelike>::with_day;
       <DateTime<Tz> as Datelike>::with_day0; <DateTime<Tz> as Datelike>::with_ordinal;
       <DateTime<Tz> as Datelike>::with_ordinal0;
     C15_dtz_with_time_field_total
       <DateTime<Tz> as Timelike>::with_hour; <DateTime<Tz> as Timelike>::with_minute;
       <DateTime<Tz> as Timelike>::with_second; <DateTime<Tz> as Timelike>::with_nanosecond;
     C15_error_texts_total
       <ParseError as fmt::Display>::fmt; <OutOfRange as fmt::Display>::fmt; <OutOfRange as fmt::Debug>::fmt;
       <ParseMonthError as fmt::Display>::fmt; <ParseMonthError as fmt::Debug>::fmt;
       <RoundingError as fmt::Display>::fmt; <OutOfRangeError as fmt::Display>::fmt;
       <ParseWeekdayError as fmt::Display>::fmt; <ParseWeekdayError as fmt::Debug>::fmt;
     C15_fixed_offset_ctor_total
       FixedOffset::east_opt; FixedOffset::west_opt;
     C15_fixed_offset_from_str_total
       <FixedOffset as FromStr>::from_str;
     C15_from_isoywd_opt_total
       NaiveDate::from_isoywd_opt;
     C15_from_local_datetime_total
       NaiveDateTime::and_local_timezone; TimeZone::from_local_datetime;
     C15_from_num_days_from_ce_opt_total
       NaiveDate::from_num_days_from_ce_opt;
     C15_from_timestamp_micros_total
       DateTime<Utc>::from_timestamp_micros;
     C15_from_timestamp_millis_total
       DateTime<Utc>::from_timestamp_millis;
     C15_from_timestamp_total
       DateTime<Utc>::from_timestamp;
     C15_from_weekday_of_month_opt_total
       NaiveDate::from_weekday_of_month_opt;
     C15_from_ymd_opt_total
       NaiveDate::from_ymd_opt;
     C15_from_yo_opt_total
       NaiveDate::from_yo_opt;
     C15_isoweek_debug_total
       <IsoWeek as fmt::Debug>::fmt;
     C15_mlt_selectors
       MappedLocalTime<T>::single; MappedLocalTime<T>::earliest; MappedLocalTime<T>::latest;
     C15_month_num_days_total
       Month::num_days;
     C15_naive_date_from_str_total
       <NaiveDate as str::FromStr>::from_str;
     C15_naive_datetime_from_str_total
       <NaiveDateTime as str::FromStr>::from_str;
     C15_naive_time_from_str_total
       <NaiveTime as str::FromStr>::from_str;
     C15_ndt_days_total
       NaiveDateTime::checked_add_days; NaiveDateTime::checked_sub_days;
     C15_ndt_months_total
       NaiveDateTime::checked_add_months; NaiveDateTime::checked_sub_months;
     C15_ndt_offset_total
       NaiveDateTime::checked_add_offset; NaiveDateTime::checked_sub_offset;
     C15_ndt_parse_and_remainder_total
       NaiveDateTime::parse_and_remainder;
     C15_ndt_parse_from_str_total
       NaiveDateTime::parse_from_str;
     C15_ndt_round_total
       <NaiveDateTime as DurationRound>::duration_round; <NaiveDateTime as DurationRound>::duration_trunc;
       <NaiveDateTime as DurationRound>::duration_round_up;
     C15_ndt_signed_total
       NaiveDateTime::checked_add_signed; NaiveDateTime::checked_sub_signed;
     C15_ndt_with_time_total
       <NaiveDateTime as Timelike>::with_hour; <NaiveDateTime as Timelike>::with_minute;
       <NaiveDateTime as Timelike>::with_second; <NaiveDateTime as Timelike>::with_nanosecond;
     C15_offset_from_local_total
       <FixedOffset as TimeZone>::offset_from_local_date; <FixedOffset as TimeZone>::offset_from_local_datetime;
       <Utc as TimeZone>::offset_from_local_date; <Utc as TimeZone>::offset_from_local_datetime;
     C15_parse_from_rfc2822_total
       DateTime<FixedOffset>::parse_from_rfc2822;
     C15_parse_from_rfc3339_total
       DateTime<FixedOffset>::parse_from_rfc3339;
     C15_parse_items_total
       parse::parse; parse::parse_and_remainder;
     C15_parsed_getters_valid
       Parsed::year; Parsed::year_div_100; Parsed::year_mod_100; Parsed::isoyear; Parsed::isoyear_div_100;
       Parsed::isoyear_mod_100; Parsed::quarter; Parsed::month; Parsed::week_from_sun; Parsed::week_from_mon;
       Parsed::isoweek; Parsed::weekday; Parsed::ordinal; Parsed::day; Parsed::hour_div_12; Parsed::hour_mod_12;
       Parsed::minute; Parsed::second; Parsed::nanosecond; Parsed::timestamp; Parsed::offset;
     C15_parsed_setters_total
       Parsed::set_year; Parsed::set_year_div_100; Parsed::set_year_mod_100; Parsed::set_isoyear;
       Parsed::set_isoyear_div_100; Parsed::set_isoyear_mod_100; Parsed::set_quarter; Parsed::set_month;
       Parsed::set_week_from_sun; Parsed::set_week_from_mon; Parsed::set_isoweek; Parsed::set_weekday;
       Parsed::set_ordinal; Parsed::set_day; Parsed::set_ampm; Parsed::set_hour12; Parsed::set_hour;
       Parsed::set_minute; Parsed::set_second; Parsed::set_nanosecond; Parsed::set_timestamp; Parsed::set_offset;
     C15_serde_de_date_total
       <NaiveDate as de::Deserialize<'de>>::deserialize;
     C15_serde_de_dt_fixed_total
       <DateTime<FixedOffset> as de::Deserialize<'de>>::deserialize;
     C15_serde_de_dt_utc_total
       <DateTime<Utc> as de::Deserialize<'de>>::deserialize;
     C15_serde_de_names_total
       <Month as de::Deserialize<'de>>::deserialize; <Weekday as de::Deserialize<'de>>::deserialize;
     C15_serde_de_ndt_total
       <NaiveDateTime as de::Deserialize<'de>>::deserialize;
     C15_serde_de_time_total
       <NaiveTime as de::Deserialize<'de>>::deserialize;
     C15_serde_ser_ndt_total
       <NaiveDateTime as ser::Serialize>::serialize;
     C15_serde_ser_time_total
       <NaiveTime as ser::Serialize>::serialize;
     C15_serde_ts_serialize_option_total
       serde::ts_nanoseconds_option::serialize#1; serde::ts_microseconds_option::serialize#1;
       serde::ts_milliseconds_option::serialize#1; serde::ts_seconds_option::serialize#1;
       serde::ts_nanoseconds_option::serialize#2; serde::ts_microseconds_option::serialize#2;
       serde::ts_milliseconds_option::serialize#2; serde::ts_seconds_option::serialize#2;
     C15_serde_ts_serialize_total
       serde::ts_nanoseconds::serialize#1; serde::ts_microseconds::serialize#1;
       serde::ts_milliseconds::serialize#1; serde::ts_seconds::serialize#1; serde::ts_nanoseconds::serialize#2;
       serde::ts_microseconds::serialize#2; serde::ts_milliseconds::serialize#2; serde::ts_seconds::serialize#2;
     C15_show_date_total
       <NaiveDate as fmt::Debug>::fmt; <NaiveDate as fmt::Display>::fmt;
     C15_show_dtz_total
       <DateTime<Tz> as fmt::Debug>::fmt; <DateTime<Tz> as fmt::Display>::fmt;
     C15_show_fixed_offset_total
       <FixedOffset as fmt::Debug>::fmt; <FixedOffset as fmt::Display>::fmt;
     C15_show_ndt_total
       <NaiveDateTime as fmt::Debug>::fmt; <NaiveDateTime as fmt::Display>::fmt;
     C15_show_time_total
       <NaiveTime as fmt::Debug>::fmt; <NaiveTime as fmt::Display>::fmt;
     C15_show_utc_total
       <Utc as fmt::Debug>::fmt; <Utc as fmt::Display>::fmt;
     C15_strftime_parse_total
       StrftimeItems<'a>::parse; StrftimeItems<'a>::parse_to_owned;
     C15_succ_pred_total
       NaiveDate::succ_opt; NaiveDate::pred_opt;
     C15_td_add_total
       TimeDelta::checked_add;
     C15_td_ctor_valid
       TimeDelta::new; TimeDelta::try_weeks; TimeDelta::try_days; TimeDelta::try_hours; TimeDelta::try_minutes;
       TimeDelta::try_seconds;
     C15_td_display_total
       <TimeDelta as fmt::Display>::fmt;
     C15_td_div_total
       TimeDelta::checked_div;
     C15_td_millis_total
       TimeDelta::try_milliseconds;
     C15_td_mul_total
       TimeDelta::checked_mul;
     C15_td_sub_total
       TimeDelta::checked_sub;
     C15_time_ctor_total
       NaiveTime::from_hms_opt; NaiveTime::from_hms_milli_opt; NaiveTime::from_hms_micro_opt;
       NaiveTime::from_hms_nano_opt;
     C15_time_parse_and_remainder_total
       NaiveTime::parse_and_remainder;
     C15_time_parse_from_str_total
       NaiveTime::parse_from_str;
     C15_timestamp_nanos_opt_total
       DateTime<Tz>::timestamp_nanos_opt;
     C15_to_datetime_total
       Parsed::to_datetime;
     C15_to_datetime_with_timezone_total
       Parsed::to_datetime_with_timezone;
     C15_to_naive_date_total
       Parsed::to_naive_date;
     C15_to_naive_datetime_with_offset_total
       Parsed::to_naive_datetime_with_offset;
     C15_to_naive_time_total
       Parsed::to_naive_time;
     C15_to_rfc3339_opts_total
       DateTime<Tz>::to_rfc3339_opts;
     C15_to_rfc3339_total
       DateTime<Tz>::to_rfc3339;
     C15_tz_timestamp_total
       TimeZone::timestamp_opt; TimeZone::timestamp_millis_opt; TimeZone::timestamp_micros;
     C15_wdset_debug_total
       <WeekdaySet as Debug>::fmt;
     C15_week_total
       NaiveWeek::checked_first_day; NaiveWeek::checked_last_day; NaiveWeek::checked_days;
     C15_weekday_month_conversions
       <Month as TryFrom<u8>>::try_from; <Month as num_traits::FromPrimitive>::from_u64;
       <Month as num_traits::FromPrimitive>::from_i64; <Month as num_traits::FromPrimitive>::from_u32;
       <Weekday as TryFrom<u8>>::try_from; <Weekday as num_traits::FromPrimitive>::from_i64;
       <Weekday as num_traits::FromPrimitive>::from_u64;
     C15_weekday_month_from_str_total
       <Weekday as FromStr>::from_str; <Month as FromStr>::from_str;
     C15_with_time_total
       DateTime<Tz>::with_time;
     C15_with_ymd_and_hms_total
       TimeZone::with_ymd_and_hms;
     C15_years_since_total
       NaiveDate::years_since;

   PARTIAL theorem of this file (sub-domain stated at the theorem):

   OWNER's theorem states [= Val ...] for all typed arguments (not restated here):
     owner: C06_from_std
       TimeDelta::from_std; TimeDelta::to_std;
     owner: C06_num_microseconds
       TimeDelta::num_microseconds; TimeDelta::num_nanoseconds;
     owner: C07_ctor_accept_iff_secs
       NaiveTime::from_num_seconds_from_midnight_opt;
     owner: C07_replace_exact_hour
       <NaiveTime as Timelike>::with_hour; <NaiveTime as Timelike>::with_minute;
       <NaiveTime as Timelike>::with_second; <NaiveTime as Timelike>::with_nanosecond;
     owner: C08_dt_years_since
       DateTime<Tz>::years_since;
     owner: C08_ndt_with
       <NaiveDateTime as Datelike>::with_year; <NaiveDateTime as Datelike>::with_month;
       <NaiveDateTime as Datelike>::with_month0; <NaiveDateTime as Datelike>::with_day;
       <NaiveDateTime as Datelike>::with_day0; <NaiveDateTime as Datelike>::with_ordinal;
       <NaiveDateTime as Datelike>::with_ordinal0;
     owner: C14_to_fixed_offset_spec
       Parsed::to_fixed_offset;
     owner: C19_members
       WeekdaySet::single_day; WeekdaySet::first; WeekdaySet::last;
     owner: C19_set_display
       <WeekdaySet as fmt::Display>::fmt;
     owner: C19_wd_display
       <Weekday as fmt::Display>::fmt;
     owner: C20_delta_read_spec
       <TimeDelta as Deserialize<'de>>::deserialize;
     owner: C20_delta_roundtrip
       <TimeDelta as Serialize>::serialize;
     owner: C20_serde_roundtrip_date
       <NaiveDate as ser::Serialize>::serialize;
     owner: C20_serde_roundtrip_month
       <Month as ser::Serialize>::serialize;
     owner: C20_serde_roundtrip_weekday
       <Weekday as ser::Serialize>::serialize;
     owner: C20_serialize_dt_never_traps
       <DateTime<Tz> as ser::Serialize>::serialize;
     owner: C20_ts_deserialize_option_spec
       serde::ts_nanoseconds_option::deserialize#1; serde::ts_microseconds_option::deserialize#1;
       serde::ts_milliseconds_option::deserialize#1; serde::ts_seconds_option::deserialize#1;
       serde::ts_nanoseconds_option::deserialize#2; serde::ts_microseconds_option::deserialize#2;
       serde::ts_milliseconds_option::deserialize#2; serde::ts_seconds_option::deserialize#2;
     owner: C20_ts_deserialize_spec
       serde::ts_nanoseconds::deserialize#1; serde::ts_microseconds::deserialize#1;
       serde::ts_milliseconds::deserialize#1; serde::ts_seconds::deserialize#1;
       serde::ts_nanoseconds::deserialize#2; serde::ts_microseconds::deserialize#2;
       serde::ts_milliseconds::deserialize#2; serde::ts_seconds::deserialize#2;

   OWNER's theorem on a stated sub-domain (partial; elsewhere correspondence + judge):

   correspondence + judge ONLY:

   What the theorems above do NOT state, and why (covered by the correspondence run + judge only):
     - premises kept: [str_ok] / the length bounds (a Rust string has at most isize::MAX bytes, so the premise
       excludes nothing real); Gen.Strftime.SF_ERROR_CONSUMES = true (the repaired error() of strftime.rs: on an
       unrepaired tree the strict iterator yields Error items for ever and the theorems do not apply -- the
       check then reports the hang through c15.itemcount / sf.items); [Proofs.C14.typed] (the Rust types of the
       Parsed fields); [Proofs.C12.args_view] (discharged for every value by the *_has_view lemmas of
       Proofs/C15Format.v, stated inside C15_delayed_format_items_total / _strftime_total);
     - the 45 entries under OWNER: the owner's theorem already has the form [f args = Val ...] for all typed
       arguments; they are not restated here (a restatement would add no proof);
     - not modelled at all, hence outside every theorem: the Local zone and its tz_info reader (C05 / C16 / C18,
       environment dependent; excluded from the inventory by the property text), the locale-aware formatting
       of the unstable-locales feature, serde's own dispatch and the data formats (C20 trusted base), rkyv /
       arbitrary glue, and everything core::fmt does below a write! with arguments (padding of integers:
       modelled by Model.Format.fmt_int, compared with the code by the correspondence run);
     - the link between model and code itself: every theorem is about the Gallina model; that the model IS the
       code is the correspondence run (same cases through implrun and modelrun) -- see trusted_base.json.

*)
