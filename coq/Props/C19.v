(** C19 — Weekday, Month and weekday-set algebra is consistent.
    Property theorems only: each is closed by [exact] of a lemma from Proofs/C19.v and followed by
    [Print Assumptions].  Model functions are the transcription of src/weekday.rs, src/month.rs,
    src/weekday_set.rs, the FromStr impls of src/format/mod.rs and the name scanners of
    src/format/scan.rs (Model/C19.v, Model/ScanNames.v) over tables regenerated from the source.
    A weekday / month is its enum discriminant: [wd w] is 0 <= w < 7 (Mon = 0), [mo m] is
    0 <= m < 12 (January = 0, number_from_month = m + 1); trapping operations live in [R]
    ([Val] / [Panic]), so every equation [f x = Val y] below also says that f does not panic. *)
From Coq Require Import ZArith List Bool.
From V Require Import Base.Int Base.IO Model.ScanNames Model.C19 Proofs.C19.
Import ListNotations.
Open Scope Z_scope.

(** ** 7- and 12-cycles *)
Theorem C19_wd_succ_pred : forall w, wd w ->
  wd_succ w = Val ((w + 1) mod 7) /\ wd_pred w = Val ((w - 1) mod 7).
Proof. exact (fun w H => conj (wd_succ_spec w H) (wd_pred_spec w H)). Qed.
Print Assumptions C19_wd_succ_pred.

(* succ and pred are mutually inverse, have order exactly 7, and k steps are +-k modulo 7 *)
Theorem C19_wd_cycle7 : forall w, wd w ->
  iterR 7 wd_succ w = Val w /\ iterR 7 wd_pred w = Val w /\
  (forall k, (0 < k < 7)%nat -> iterR k wd_succ w <> Val w /\ iterR k wd_pred w <> Val w) /\
  (let* s := wd_succ w in wd_pred s) = Val w /\ (let* p := wd_pred w in wd_succ p) = Val w.
Proof. exact wd_cycle7. Qed.
Print Assumptions C19_wd_cycle7.
Theorem C19_wd_succ_iter : forall k w, wd w -> iterR k wd_succ w = Val ((w + Z.of_nat k) mod 7).
Proof. exact wd_succ_iter. Qed.
Print Assumptions C19_wd_succ_iter.
Theorem C19_wd_pred_iter : forall k w, wd w -> iterR k wd_pred w = Val ((w - Z.of_nat k) mod 7).
Proof. exact wd_pred_iter. Qed.
Print Assumptions C19_wd_pred_iter.

Theorem C19_mo_succ_pred : forall m, mo m ->
  mo_succ m = Val ((m + 1) mod 12) /\ mo_pred m = Val ((m - 1) mod 12).
Proof. exact (fun m H => conj (mo_succ_spec m H) (mo_pred_spec m H)). Qed.
Print Assumptions C19_mo_succ_pred.
Theorem C19_mo_cycle12 : forall m, mo m ->
  iterR 12 mo_succ m = Val m /\ iterR 12 mo_pred m = Val m /\
  (forall k, (0 < k < 12)%nat -> iterR k mo_succ m <> Val m /\ iterR k mo_pred m <> Val m) /\
  (let* s := mo_succ m in mo_pred s) = Val m /\ (let* p := mo_pred m in mo_succ p) = Val m.
Proof. exact mo_cycle12. Qed.
Print Assumptions C19_mo_cycle12.
Theorem C19_mo_succ_iter : forall k m, mo m -> iterR k mo_succ m = Val ((m + Z.of_nat k) mod 12).
Proof. exact mo_succ_iter. Qed.
Print Assumptions C19_mo_succ_iter.

(** ** numbering and distance *)
Theorem C19_wd_numbering : forall w, wd w ->
  wd_number_from_monday w = Val (w + 1) /\ wd_num_days_from_monday w = Val w /\
  wd_number_from_sunday w = Val ((w + 1) mod 7 + 1) /\ wd_num_days_from_sunday w = Val ((w + 1) mod 7).
Proof. exact wd_numbering_spec. Qed.
Print Assumptions C19_wd_numbering.
Theorem C19_wd_days_since : forall a b, wd a -> wd b -> wd_days_since a b = Val ((a - b) mod 7).
Proof. exact wd_days_since_spec. Qed.
Print Assumptions C19_wd_days_since.
(* days_since inverts stepping: a is reached from b by exactly (a since b) < 7 successor steps,
   and k < 7 successor steps from b are at distance k *)
Theorem C19_wd_since_inverts_succ : forall a b, wd a -> wd b ->
  exists d, wd_days_since a b = Val d /\ 0 <= d < 7 /\ iterR (Z.to_nat d) wd_succ b = Val a.
Proof. exact wd_since_succ. Qed.
Print Assumptions C19_wd_since_inverts_succ.
Theorem C19_wd_succ_inverts_since : forall b k, wd b -> (k < 7)%nat ->
  (let* a := iterR k wd_succ b in wd_days_since a b) = Val (Z.of_nat k).
Proof. exact wd_succ_since. Qed.
Print Assumptions C19_wd_succ_inverts_since.
Theorem C19_mo_number : forall m, mo m -> mo_number_from_month m = Val (m + 1).
Proof. exact mo_number_spec. Qed.
Print Assumptions C19_mo_number.

(** ** numeric conversions: every integer entry point (TryFrom<u8>, the provided FromPrimitive
    methods and the num-traits defaults for i8..i128, u8..u128, isize, usize), at EVERY integer n:
    the conversion succeeds iff n is a valid number, and the value it returns has that number.
    [wd_from_all n] / [mo_from_all n] list the results of the thirteen functions at n. *)
Theorem C19_wd_from_int_exact : forall n r, In r (wd_from_all n) ->
  match r with
  | Some w => 0 <= n <= 6 /\ wd w /\ wd_num_days_from_monday w = Val n
  | None => ~ (0 <= n <= 6)
  end.
Proof. exact wd_from_int_exact. Qed.
Print Assumptions C19_wd_from_int_exact.
Theorem C19_mo_from_int_exact : forall n r, In r (mo_from_all n) ->
  match r with
  | Some m => 1 <= n <= 12 /\ mo m /\ mo_number_from_month m = Val n
  | None => ~ (1 <= n <= 12)
  end.
Proof. exact mo_from_int_exact. Qed.
Print Assumptions C19_mo_from_int_exact.
Theorem C19_wd_from_number : forall w, wd w ->
  exists n, wd_num_days_from_monday w = Val n /\ forall r, In r (wd_from_all n) -> r = Some w.
Proof. exact wd_from_number. Qed.
Print Assumptions C19_wd_from_number.
Theorem C19_mo_from_number : forall m, mo m ->
  exists n, mo_number_from_month m = Val n /\ forall r, In r (mo_from_all n) -> r = Some m.
Proof. exact mo_from_number. Qed.
Print Assumptions C19_mo_from_number.
(* chrono 0.4.40 as found: Month::from_u64 / from_i64 narrow with `as u32`; the statement above is
   false for that code (2^32 + 1 and 1 - 2^32 become January).  The model follows the repaired
   code (fixes/C19-month-fromprimitive.diff). *)
Theorem C19_mo_from_int_exact_refuted :
  in_u64 4294967297 = true /\ ~ mo_conv_exact (mo_from_u64_unrepaired 4294967297) 4294967297 /\
  in_i64 (-4294967295) = true /\ ~ mo_conv_exact (mo_from_i64_unrepaired (-4294967295)) (-4294967295).
Proof. exact mo_from_int_exact_refuted. Qed.
Print Assumptions C19_mo_from_int_exact_refuted.
