(** C19 — Weekday, Month and weekday-set algebra is consistent.
    Property theorems only: each is closed by [exact] of a lemma from Proofs/C19.v and followed by
    [Print Assumptions].  Model functions are the transcription of src/weekday.rs, src/month.rs,
    src/weekday_set.rs, the FromStr impls of src/format/mod.rs and the name scanners of
    src/format/scan.rs (Model/C19.v, Model/ScanNames.v) over tables regenerated from the source.
    A weekday / month is its enum discriminant: [wd w] is 0 <= w < 7 (Mon = 0), [mo m] is
    0 <= m < 12 (January = 0, number_from_month = m + 1); trapping operations live in [R]
    ([Val] / [Panic]), so every equation [f x = Val y] below also says that f does not panic. *)
From Coq Require Import ZArith List Bool String.
From V Require Import Base.Int Base.IO Gen.WdMo Model.ScanNames Model.C19 Proofs.C19 Proofs.C19Ops Proofs.C19Holds.
From V Require Judge.C19.
Import ListNotations.
Open Scope Z_scope.

(** ** 7- and 12-cycles *)
Theorem C19_wd_succ_pred : forall w, wd w ->
  wd_succ w = Val ((w + 1) mod 7) /\ wd_pred w = Val ((w - 1) mod 7).
Proof. exact (fun w H => conj (wd_succ_spec w H) (wd_pred_spec w H)). Qed.
Print Assumptions C19_wd_succ_pred.

(* succ and pred are mutually inverse, have order exactly 7, and k steps are +-k modulo 7 *)
Theorem C19_wd_cycle7 : forall w, wd w ->
  iterR 7 wd_succ w = Val w /\ iterR 7 wd_pred w = Val w /\
  (forall k, (0 < k < 7)%nat -> iterR k wd_succ w <> Val w /\ iterR k wd_pred w <> Val w) /\
  (let* s := wd_succ w in wd_pred s) = Val w /\ (let* p := wd_pred w in wd_succ p) = Val w.
Proof. exact wd_cycle7. Qed.
Print Assumptions C19_wd_cycle7.
Theorem C19_wd_succ_iter : forall k w, wd w -> iterR k wd_succ w = Val ((w + Z.of_nat k) mod 7).
Proof. exact wd_succ_iter. Qed.
Print Assumptions C19_wd_succ_iter.
Theorem C19_wd_pred_iter : forall k w, wd w -> iterR k wd_pred w = Val ((w - Z.of_nat k) mod 7).
Proof. exact wd_pred_iter. Qed.
Print Assumptions C19_wd_pred_iter.

Theorem C19_mo_succ_pred : forall m, mo m ->
  mo_succ m = Val ((m + 1) mod 12) /\ mo_pred m = Val ((m - 1) mod 12).
Proof. exact (fun m H => conj (mo_succ_spec m H) (mo_pred_spec m H)). Qed.
Print Assumptions C19_mo_succ_pred.
Theorem C19_mo_cycle12 : forall m, mo m ->
  iterR 12 mo_succ m = Val m /\ iterR 12 mo_pred m = Val m /\
  (forall k, (0 < k < 12)%nat -> iterR k mo_succ m <> Val m /\ iterR k mo_pred m <> Val m) /\
  (let* s := mo_succ m in mo_pred s) = Val m /\ (let* p := mo_pred m in mo_succ p) = Val m.
Proof. exact mo_cycle12. Qed.
Print Assumptions C19_mo_cycle12.
Theorem C19_mo_succ_iter : forall k m, mo m -> iterR k mo_succ m = Val ((m + Z.of_nat k) mod 12).
Proof. exact mo_succ_iter. Qed.
Print Assumptions C19_mo_succ_iter.

(** ** numbering and distance *)
Theorem C19_wd_numbering : forall w, wd w ->
  wd_number_from_monday w = Val (w + 1) /\ wd_num_days_from_monday w = Val w /\
  wd_number_from_sunday w = Val ((w + 1) mod 7 + 1) /\ wd_num_days_from_sunday w = Val ((w + 1) mod 7).
Proof. exact wd_numbering_spec. Qed.
Print Assumptions C19_wd_numbering.
Theorem C19_wd_days_since : forall a b, wd a -> wd b -> wd_days_since a b = Val ((a - b) mod 7).
Proof. exact wd_days_since_spec. Qed.
Print Assumptions C19_wd_days_since.
(* days_since inverts stepping: a is reached from b by exactly (a since b) < 7 successor steps,
   and k < 7 successor steps from b are at distance k *)
Theorem C19_wd_since_inverts_succ : forall a b, wd a -> wd b ->
  exists d, wd_days_since a b = Val d /\ 0 <= d < 7 /\ iterR (Z.to_nat d) wd_succ b = Val a.
Proof. exact wd_since_succ. Qed.
Print Assumptions C19_wd_since_inverts_succ.
Theorem C19_wd_succ_inverts_since : forall b k, wd b -> (k < 7)%nat ->
  (let* a := iterR k wd_succ b in wd_days_since a b) = Val (Z.of_nat k).
Proof. exact wd_succ_since. Qed.
Print Assumptions C19_wd_succ_inverts_since.
Theorem C19_mo_number : forall m, mo m -> mo_number_from_month m = Val (m + 1).
Proof. exact mo_number_spec. Qed.
Print Assumptions C19_mo_number.

(** ** numeric conversions: every integer entry point (TryFrom<u8>, the provided FromPrimitive
    methods and the num-traits defaults for i8..i128, u8..u128, isize, usize), at EVERY integer n:
    the conversion succeeds iff n is a valid number, and the value it returns has that number.
    [wd_from_all n] / [mo_from_all n] list the results of the thirteen functions at n. *)
Theorem C19_wd_from_int_exact : forall n r, In r (wd_from_all n) ->
  match r with
  | Some w => 0 <= n <= 6 /\ wd w /\ wd_num_days_from_monday w = Val n
  | None => ~ (0 <= n <= 6)
  end.
Proof. exact wd_from_int_exact. Qed.
Print Assumptions C19_wd_from_int_exact.
Theorem C19_mo_from_int_exact : forall n r, In r (mo_from_all n) ->
  match r with
  | Some m => 1 <= n <= 12 /\ mo m /\ mo_number_from_month m = Val n
  | None => ~ (1 <= n <= 12)
  end.
Proof. exact mo_from_int_exact. Qed.
Print Assumptions C19_mo_from_int_exact.
Theorem C19_wd_from_number : forall w, wd w ->
  exists n, wd_num_days_from_monday w = Val n /\ forall r, In r (wd_from_all n) -> r = Some w.
Proof. exact wd_from_number. Qed.
Print Assumptions C19_wd_from_number.
Theorem C19_mo_from_number : forall m, mo m ->
  exists n, mo_number_from_month m = Val n /\ forall r, In r (mo_from_all n) -> r = Some m.
Proof. exact mo_from_number. Qed.
Print Assumptions C19_mo_from_number.
(* chrono 0.4.40 as found: Month::from_u64 / from_i64 narrow with `as u32`; the statement above is
   false for that code (2^32 + 1 and 1 - 2^32 become January).  The model follows the repaired
   code (fixes/C19-month-fromprimitive.diff). *)
Theorem C19_mo_from_int_exact_refuted :
  in_u64 4294967297 = true /\ ~ mo_conv_exact (mo_from_u64_unrepaired 4294967297) 4294967297 /\
  in_i64 (-4294967295) = true /\ ~ mo_conv_exact (mo_from_i64_unrepaired (-4294967295)) (-4294967295).
Proof. exact mo_from_int_exact_refuted. Qed.
Print Assumptions C19_mo_from_int_exact_refuted.

(** ** names and text parsing
    [lowerb] is ASCII lower-casing, so [map lowerb s = n] says "s is n up to ASCII case";
    [wd_name_list] / [mo_name_list] are the English short (3 letter) and full names in lowercase
    with the value they denote; [byte]: 0 <= c < 256; [utf8_valid]: what str::from_utf8 accepts
    (the argument type of from_str is &str). *)
(* parse_exact, all strings: from_str never panics; it returns Ok x exactly when the string is a
   short or full name of x up to ASCII case, and Err for every other string *)
Theorem C19_wd_parse_exact : forall s, Forall byte s -> utf8_valid s = true ->
  exists r, wd_from_str s = Val r /\ forall w, r = Some w <-> In (map lowerb s, w) wd_name_list.
Proof. exact wd_parse_exact. Qed.
Print Assumptions C19_wd_parse_exact.
Theorem C19_mo_parse_exact : forall s, Forall byte s -> utf8_valid s = true ->
  exists r, mo_from_str s = Val r /\ forall m, r = Some m <-> In (map lowerb s, m) mo_name_list.
Proof. exact mo_parse_exact. Qed.
Print Assumptions C19_mo_parse_exact.
(* completeness spelled out: every case pattern of every listed name parses to its value *)
Theorem C19_wd_parse_complete : forall s n w, Forall byte s -> In (n, w) wd_name_list -> map lowerb s = n ->
  wd_from_str s = Val (Some w).
Proof. exact wd_parse_complete. Qed.
Print Assumptions C19_wd_parse_complete.
Theorem C19_mo_parse_complete : forall s n m, Forall byte s -> In (n, m) mo_name_list -> map lowerb s = n ->
  mo_from_str s = Val (Some m).
Proof. exact mo_parse_complete. Qed.
Print Assumptions C19_mo_parse_complete.
(* no string is a name of two values *)
Theorem C19_names_unambiguous :
  (forall n v v', In (n, v) wd_name_list -> In (n, v') wd_name_list -> v = v') /\
  (forall n v v', In (n, v) mo_name_list -> In (n, v') mo_name_list -> v = v').
Proof. exact (conj wd_names_functional mo_names_functional). Qed.
Print Assumptions C19_names_unambiguous.
(* printing then parsing is the identity (Display for Weekday; Month::name and its 3-letter prefix) *)
Theorem C19_wd_name_roundtrip : forall w, wd w ->
  exists nm, wd_display w = Val nm /\ wd_from_str nm = Val (Some w).
Proof. exact wd_name_roundtrip. Qed.
Print Assumptions C19_wd_name_roundtrip.
Theorem C19_mo_name_roundtrip : forall m, mo m ->
  exists nm, mo_name m = Val nm /\ mo_from_str nm = Val (Some m) /\ mo_from_str (firstn 3 nm) = Val (Some m).
Proof. exact mo_name_roundtrip. Qed.
Print Assumptions C19_mo_name_roundtrip.
Theorem C19_wd_display : forall w, wd w -> wd_display w = Val (nth (Z.to_nat w) short_names []).
Proof. exact wd_display_spec. Qed.
Print Assumptions C19_wd_display.

(** ** weekday sets: the 128 values are exactly the subsets of the seven weekdays
    [wset s]: 0 <= s < 128; [mem s i]: weekday i is a member of s; [repr r f]: r is a valid set
    value whose members are exactly the weekdays i with f i = true. *)
Theorem C19_set_binary : forall a b, wset a -> wset b ->
  repr (ws_union a b) (fun i => mem a i || mem b i) /\
  repr (ws_intersection a b) (fun i => mem a i && mem b i) /\
  repr (ws_difference a b) (fun i => mem a i && negb (mem b i)) /\
  repr (ws_symmetric_difference a b) (fun i => xorb (mem a i) (mem b i)) /\
  (ws_is_subset a b = true <-> forall i, wd i -> mem a i = true -> mem b i = true) /\
  (a = b <-> forall i, wd i -> mem a i = mem b i).
Proof. exact set_binary. Qed.
Print Assumptions C19_set_binary.
(* the correspondence is onto: every subset is carried by a value (and, above, by only one) *)
Theorem C19_set_surjective : forall f : Z -> bool, repr (code f) f.
Proof. exact set_surjective. Qed.
Print Assumptions C19_set_surjective.
Theorem C19_set_with_day : forall s w, wset s -> wd w ->
  ws_contains s w = Val (mem s w) /\
  (exists r, ws_insert s w = Val (r, negb (mem s w)) /\ repr r (fun i => mem s i || (i =? w))) /\
  (exists r, ws_remove s w = Val (r, mem s w) /\ repr r (fun i => mem s i && negb (i =? w))).
Proof. exact set_with_day. Qed.
Print Assumptions C19_set_with_day.
(* first / last / len / is_empty / single_day in terms of the increasing list of members *)
Theorem C19_set_unary : forall s, wset s ->
  ws_first s = Val (hd_error (members s)) /\
  ws_last s = Val (hd_error (rev (members s))) /\
  ws_len s = Z.of_nat (List.length (members s)) /\
  (ws_is_empty s = true <-> members s = []) /\
  ws_single_day s = match members s with [w] => Some w | _ => None end.
Proof. exact set_unary. Qed.
Print Assumptions C19_set_unary.
Theorem C19_members : forall s, wset s ->
  (forall i, In i (members s) <-> wd i /\ mem s i = true) /\ increasing (members s).
Proof. exact (fun s H => conj (members_spec s) (members_sorted s H)). Qed.
Print Assumptions C19_members.
Theorem C19_set_single : forall w, wd w -> exists r, ws_single w = Val r /\ repr r (Z.eqb w).
Proof. exact ws_single_spec. Qed.
Print Assumptions C19_set_single.
Theorem C19_set_consts : repr WS_EMPTY (fun _ => false) /\ repr WS_ALL (fun _ => true).
Proof. exact ws_consts_spec. Qed.
Print Assumptions C19_set_consts.
(* FromIterator / from_array on ANY list of weekdays (any length, repetitions, any order) *)
Theorem C19_set_from_iter : forall l, Forall wd l ->
  exists r, ws_from_iter l = Val r /\ repr r (fun i => existsb (Z.eqb i) l).
Proof. exact ws_from_iter_spec. Qed.
Print Assumptions C19_set_from_iter.
Theorem C19_set_from_array : forall l, Forall wd l ->
  exists r, ws_from_array l = Val r /\ repr r (fun i => existsb (Z.eqb i) l).
Proof. exact ws_from_array_spec. Qed.
Print Assumptions C19_set_from_array.
Theorem C19_set_display : forall s, wset s -> ws_display s = Val (ws_text s).
Proof. exact ws_display_spec. Qed.
Print Assumptions C19_set_display.

(** ** iteration from a start day
    [cyc_members s start]: the members of s in cyclic weekday order beginning at [start];
    [it_run sched s start]: the results (item, len() afterwards) of the calls in [sched]
    (true = next, false = next_back) on [s.iter(start)]; [deque_run]: the same walk over a plain
    list, taking from the front / from the back. *)
Theorem C19_cyc_members : forall s start, wset s -> wd start ->
  (forall i, In i (cyc_members s start) <-> wd i /\ mem s i = true) /\
  increasing_by (cyc_pos start) (cyc_members s start).
Proof. exact (fun s st Hs Hst => conj (fun i => cyc_members_spec s st i Hst) (cyc_members_order s st Hs Hst)). Qed.
Print Assumptions C19_cyc_members.
(* every schedule of next / next_back calls, of any length *)
Theorem C19_iter_any_schedule : forall sched s start, wset s -> wd start ->
  it_run sched s start = Val (deque_run sched (cyc_members s start)).
Proof. exact it_run_spec. Qed.
Print Assumptions C19_iter_any_schedule.
Theorem C19_iter_forward : forall s start, wset s -> wd start ->
  exists res, it_run (repeat true (List.length (cyc_members s start))) s start = Val res /\
              map fst res = map Some (cyc_members s start).
Proof. exact iter_forward. Qed.
Print Assumptions C19_iter_forward.
Theorem C19_iter_backward : forall s start, wset s -> wd start ->
  exists res, it_run (repeat false (List.length (cyc_members s start))) s start = Val res /\
              map fst res = map Some (rev (cyc_members s start)).
Proof. exact iter_backward. Qed.
Print Assumptions C19_iter_backward.
(* any interleaving partitions the set: the items returned by next, then what is left, then the
   items returned by next_back reversed, is the cyclic member list; nothing is left once the
   schedule is at least as long as the set *)
Theorem C19_iter_partition : forall sched s start, wset s -> wd start ->
  exists res, it_run sched s start = Val res /\
  exists rest, cyc_members s start = sel true sched res ++ rest ++ rev (sel false sched res) /\
               ((List.length (cyc_members s start) <= List.length sched)%nat -> rest = []).
Proof. exact iter_partition. Qed.
Print Assumptions C19_iter_partition.
(* after exhaustion every further call, at either end, returns None with len() = 0 *)
Theorem C19_iter_fused : forall sched1 sched2 s start, wset s -> wd start ->
  (List.length (cyc_members s start) <= List.length sched1)%nat ->
  exists res1, it_run (sched1 ++ sched2) s start = Val (res1 ++ map (fun _ => (None, 0)) sched2) /\
               List.length res1 = List.length sched1.
Proof. exact iter_fused. Qed.
Print Assumptions C19_iter_fused.

(** ** Month: pred cycle, names, order *)
Theorem C19_mo_pred_iter : forall k m, mo m -> iterR k mo_pred m = Val ((m - Z.of_nat k) mod 12).
Proof. exact mo_pred_iter. Qed.
Print Assumptions C19_mo_pred_iter.
(* Month::name is the English full name (the independent list of Judge/C19.v) *)
Theorem C19_mo_name : forall m, mo m -> mo_name m = Val (nth (Z.to_nat m) Judge.C19.month_names []).
Proof. exact mo_name_spec. Qed.
Print Assumptions C19_mo_name.
(* derived Ord of Month is the order of the month numbers *)
Theorem C19_mo_cmp : forall a b, mo a -> mo b ->
  exists na nb, mo_number_from_month a = Val na /\ mo_number_from_month b = Val nb /\ mo_cmp a b = cmpZ na nb.
Proof. exact mo_cmp_numbers. Qed.
Print Assumptions C19_mo_cmp.

(** ** the property as the independent judge states it (Judge/C19.v: Z/7, Z/12, the English names,
    subsets of {0..6}; imports nothing of the model) holds of the model on EVERY case line of all 61
    ops (Weekday, Month, WeekdaySet, the iterator with any schedule, the provided adaptors of op
    ws.adapt): whenever the judge has an opinion it accepts the model's output.  [str_args_ok]: the
    string arguments are byte strings (0 <= c < 256), which is what the case protocol carries; it is
    used by the two parsers only.  Finite domains are swept by the kernel on judge-of-run itself; the
    24 numeric conversions (all integers of the type), the parsers (all strings), the collectors (all
    lists) and the iterator (all schedules) are proved from the theorems above. *)
Theorem C19_holds : forall op args, str_args_ok args ->
  Judge.C19.judge op args (run op args) <> JSkip -> Judge.C19.judge op args (run op args) = JOk.
Proof. exact C19_holds. Qed.
Print Assumptions C19_holds.
Example C19_str_args_ok_inhabited : str_args_ok [VStr (B"wEdNeSdAy")] /\
  Judge.C19.judge (B"wd.parse") [VStr (B"wEdNeSdAy")] (run (B"wd.parse") [VStr (B"wEdNeSdAy")]) = JOk.
Proof. exact str_args_example. Qed.
Print Assumptions C19_str_args_ok_inhabited.

(** ** the hypotheses are inhabited by non-trivial values *)
Example C19_ex_values : wd 6 /\ mo 11 /\ wset 85 /\ members 85 = [0; 2; 4; 6] /\ cyc_members 85 3 = [4; 6; 0; 2] /\
  Forall byte (B"wEdNeSdAy") /\ utf8_valid (B"wEdNeSdAy") = true /\ wd_from_str (B"wEdNeSdAy") = Val (Some 2) /\
  mo_from_str (B"sept") = Val None /\
  it_run [true; false; true] 85 3 = Val [(Some 4, 3); (Some 2, 2); (Some 6, 1)].
Proof. exact ex_values. Qed.
Print Assumptions C19_ex_values.
