(** C12 — every strftime specifier renders the documented field.  Theorem-only file: each theorem
    is closed by [exact] of a lemma of Proofs/C12*.v and followed by
    [Print Assumptions].

    Vocabulary.  The documentation table is Spec/StrftimeDoc.v ([doc_table], [tokens],
    [render_num], [render_fix], [doc_format]) over the calendar of Spec/Gregorian.v; the model is
    Model/Strftime.v (the [StrftimeItems] iterator) and Model/Format.v ([DelayedFormat]).
    [strict_items fmt] = the items [StrftimeItems::new(fmt)] yields up to and including the first
    [Error] (what the formatter consumes); [doc_items fmt] = the documented item list;
    [norm_items] forgets the Literal/Space distinction and the chunking of text.
    [args_view a sv]: the formatter's arguments [a] (optional packed date, time, offset with its
    name) denote the specification-level value [sv] (day number, second of day, nanosecond, leap
    flag, offset); its date part [date_view d dn] is the calendar reading of a packed [NaiveDate]
    (C01's theorems discharge it for every date).
    [claim r out]: r = ROk s -> out = Ok with text s; r = RFail -> out = Err(fmt::Error);
    r = RSkip (outside the property's domain) -> no claim. *)
From Coq Require Import ZArith List Bool String.
From V Require Import Base.Int Base.IO Spec.StrftimeDoc Model.Items Gen.Strftime Model.Strftime Model.Format
  Proofs.C12 Proofs.C12Str Proofs.C12Tok Proofs.C12Fam Proofs.C12View Proofs.C12All Proofs.C12Judge Proofs.C12Lenient
  Proofs.C12Exact Proofs.C12Exact2 Proofs.C12Exact3 Proofs.C12Exact4 Proofs.C12Pieces.
From V Require Import Spec.Gregorian Model.C12 Judge.C12 Proofs.C08Sweeps.
From V Require Model.DateTime Model.Time Proofs.C12Deprecated.
Import ListNotations.
Open Scope Z_scope.

(** spec_item_table: every documented specifier x padding modifier parses to the documented item
    list; composites to their documented expansion; a modifier on a non-numeric or composite
    specifier to [Error] *)
Theorem C12_spec_item_table : forall name e m,
  In (name, e) doc_table -> In m modifiers ->
  rmap norm_items (strict_items (37 :: m ++ name)) = Val (norm_items (doc_items (37 :: m ++ name))).
Proof. exact spec_item_table. Qed.
Print Assumptions C12_spec_item_table.

(* an isolated ASCII specifier only; superseded by C12_unknown_specifier_error_in_context (any
   undocumented specifier, anywhere in any format string) *)
Theorem C12_unknown_specifier_is_error : forall c, 0 <= c < 128 ->
  lookup doc_table [c] = None -> modifier c = None -> ~ In c [35; 58; 46; 51; 54; 57] ->
  strict_items [37; c] = Val [IError].
Proof. exact unknown_specifier_is_error. Qed.
Print Assumptions C12_unknown_specifier_is_error.

(** render_item_spec, numeric items: for ALL values (any year of the i32 range incl. negative and
    5-6 digit years, leap seconds, any offset) the model output is the documented text, and
    formatting fails exactly when the value lacks the field *)
Theorem C12_render_numeric_spec : forall a sv f p, args_view a sv ->
  claim (render_num sv f p) (format_numeric a (numeric_of f) (pad_of p)).
Proof. exact render_numeric_spec. Qed.
Print Assumptions C12_render_numeric_spec.

(** render_item_spec, fixed items (names, am/pm, fractions, zone name, the four offset forms) *)
Theorem C12_render_fixed_spec : forall a sv f, args_view a sv -> tfield_documented f ->
  claim (render_fix sv f) (format_fixed a (fixed_of f)).
Proof. exact render_fixed_spec. Qed.
Print Assumptions C12_render_fixed_spec.

(** the four offset items for every offset a FixedOffset can carry: rounding to the minute for
    %z %:z, exact seconds for %::z, truncation to hours for %:::z *)
Theorem C12_offset_items_spec : forall off, -86400 < off < 86400 ->
  offset_format (mk_of OP_Minutes C_Maybe false PadZero) off = fok (offset_text off false 0) /\
  offset_format (mk_of OP_Minutes C_Colon false PadZero) off = fok (offset_text off true 0) /\
  offset_format (mk_of OP_Seconds C_Colon false PadZero) off = fok (offset_text off true 1) /\
  offset_format (mk_of OP_Hours C_None false PadZero) off = fok (offset_text off false 2).
Proof. exact offset_items_spec. Qed.
Print Assumptions C12_offset_items_spec.

(** %+ renders as its documented expansion %Y-%m-%dT%H:%M:%S%.f%:z *)
Theorem C12_render_iso_spec : forall a sv, args_view a sv ->
  claim (render_all sv (tokens iso_expansion) []) (format_fixed a F_RFC3339).
Proof. exact render_iso_spec. Qed.
Print Assumptions C12_render_iso_spec.

(** the century item on every i32 year (the repaired %C): floor(year/100), "-" and no padding when
    negative *)
Theorem C12_write_n_is_pad_num : forall n v p always, 0 <= n < 1000 ->
  write_n n v (pad_of p) always = fok (pad_num p n always v).
Proof. exact write_n_spec. Qed.
Print Assumptions C12_write_n_is_pad_num.

(** format_concat: the formatter's output is the concatenation of the item renderings, stopping at
    the first item that fails *)
Theorem C12_format_concat : forall fuel a st items,
  sf_until_err fuel st [] = Val items ->
  forall acc, write_to fuel a st acc = write_items a items acc.
Proof. exact format_concat. Qed.
Print Assumptions C12_format_concat.

(** format_spec: whenever the item list of a format string agrees with the table (decidable by
    computation for a given string), formatting ANY value gives the documented text / failure *)
Theorem C12_format_spec : forall a sv fmt, args_view a sv -> tokenization_agrees fmt ->
  claim (doc_format sv fmt) (delayed_display a (sf_new fmt)).
Proof. exact format_spec. Qed.
Print Assumptions C12_format_spec.

(** strftime_terminates (shared with C15): every parse step consumes at least one input byte —
    on the repaired code also when it yields [Error] — and queues at most 12 items *)
Theorem C12_parse_next_item_consumes : forall lenient q r rm it q',
  SF_ERROR_CONSUMES = true \/ lenient = true ->
  parse_next_item lenient q r = Val (Some (rm, it), q') ->
  blen rm < blen r /\ queue_ok q q'.
Proof. exact parse_next_item_consumes. Qed.
Print Assumptions C12_parse_next_item_consumes.

(** ... hence iteration ends within the bound used as fuel everywhere, after at most
    13 * (bytes of input) items, for every byte string, strict and lenient.
    The bound 13 * bytes is superseded, on valid UTF-8 strings, by the tight 13 * bytes / 2 of
    C12_items_density / C12_strftime_density below. *)
Theorem C12_strftime_terminates : forall s lenient,
  SF_ERROR_CONSUMES = true \/ lenient = true ->
  match sf_take (S (sf_bound s)) (mk_sfi s [] lenient) [] with
  | Val (Some l) => Z.of_nat (List.length l) <= 13 * blen s
  | Val None => False
  | Panic => True
  | OutOfFuel => False
  end.
Proof. exact strftime_terminates. Qed.
Print Assumptions C12_strftime_terminates.

(** literal_copied: a format string without '%' (any valid UTF-8, including multi-byte text and
    Unicode white space) is written out unchanged, whatever the value *)
Theorem C12_literal_copied : forall a fmt, utf8_valid fmt = true -> ~ In 37 fmt ->
  delayed_display a (sf_new fmt) = fok fmt.
Proof. exact literal_copied. Qed.
Print Assumptions C12_literal_copied.

(** the documented family: valid UTF-8 in which every '%' starts a documented specifier, optionally
    preceded by a padding modifier ([wf_scan] decides it).  Its item lists agree with the table:
    arbitrary text in between, composites in place, and the [Error] item for a modifier on a
    non-numeric or composite specifier.  Superseded by C12_tokenization_all (no side condition
    other than valid UTF-8). *)
Theorem C12_tokenization_documented_family : forall fmt,
  documented_family fmt -> tokenization_agrees fmt.
Proof. exact tokenization_documented_family. Qed.
Print Assumptions C12_tokenization_documented_family.

(** C12 for the formatter on the documented family: given arguments that denote the value
    ([args_view], discharged for every value by the five theorems below), every format string
    built from the documented specifiers and modifiers renders as documented, or fails exactly
    where the documentation says *)
Theorem C12_format_spec_family : forall a sv fmt, args_view a sv -> documented_family fmt ->
  claim (doc_format sv fmt) (delayed_display a (sf_new fmt)).
Proof. exact format_spec_family. Qed.
Print Assumptions C12_format_spec_family.

(** the calendar view of every valid NaiveDate (from C01/C08's theorems over [repr]) *)
Theorem C12_date_view_of_repr : forall y o d, repr y o d -> date_view d (dn_of_yo y o).
Proof. exact date_view_of_repr. Qed.
Print Assumptions C12_date_view_of_repr.

(** the arguments `format_with_items` hands to the formatter denote the value, for every value of
    each kind; for DateTime<FixedOffset> whenever the local calendar day is a valid NaiveDate *)
Theorem C12_args_view_date : forall y o sv, sval_of 0 (VTup [VInt y; VInt o]) = Some sv ->
  exists d, DateTime.dec_date (VTup [VInt y; VInt o]) = Some d /\ args_view (fa_of_date d) sv.
Proof. exact args_view_date. Qed.
Print Assumptions C12_args_view_date.
Theorem C12_args_view_time : forall s f sv, sval_of 1 (VTup [VInt s; VInt f]) = Some sv ->
  exists t, Time.dec_time (VTup [VInt s; VInt f]) = Some t /\ args_view (fa_of_time t) sv.
Proof. exact args_view_time. Qed.
Print Assumptions C12_args_view_time.
Theorem C12_args_view_ndt : forall y o s f sv, sval_of 2 (VTup [VInt y; VInt o; VInt s; VInt f]) = Some sv ->
  exists n, DateTime.dec_ndt (VTup [VInt y; VInt o; VInt s; VInt f]) = Some n /\ args_view (fa_of_ndt n) sv.
Proof. exact args_view_ndt. Qed.
Print Assumptions C12_args_view_ndt.
Theorem C12_args_view_dtz : forall y o s f off sv,
  sval_of 3 (VTup [VInt y; VInt o; VInt s; VInt f; VInt off]) = Some sv ->
  (forall n, sv_dn sv = Some n -> dn_in_range n = true) ->
  exists z a, DateTime.dec_dtz (VTup [VInt y; VInt o; VInt s; VInt f; VInt off]) = Some z /\
              fa_of_dtz z = Val a /\ args_view a sv.
Proof. exact args_view_dtz. Qed.
Print Assumptions C12_args_view_dtz.
Theorem C12_args_view_utc : forall y o s f sv, sval_of 4 (VTup [VInt y; VInt o; VInt s; VInt f]) = Some sv ->
  exists n a, DateTime.dec_ndt (VTup [VInt y; VInt o; VInt s; VInt f]) = Some n /\
              fa_of_utc n = Val a /\ args_view a sv.
Proof. exact args_view_utc. Qed.
Print Assumptions C12_args_view_utc.

(** C12 holds of the model, over cases: for every kind of value and every format string of the
    documented family the judge (the executable statement of the property) accepts the model's
    output of `sf.fmt` — the documented text, or err:fmt exactly when a field is missing or a
    modifier is put on a non-numeric specifier.
    Partial in three respects: (1) a DateTime<FixedOffset> whose local calendar day falls outside
    the NaiveDate range (the BEFORE_MIN / AFTER_MAX sentinels of overflowing_naive_local) is
    excluded by the second hypothesis; (2) format strings with an undocumented specifier are
    outside [documented_family] (Error proved for an isolated ASCII specifier only); (3) the
    `sf.items` / `sf.fmtl` ops are covered by the item-level theorems above, not at judge level.
    All three restrictions are lifted below: (1) by C12_holds_fmt, (2) by C12_holds_fmt_any
    (every format string), (3) by C12_holds_fmtl_any and C12_holds_items_any. *)
Theorem C12_holds_fmt_partial : forall kind v fmt,
  documented_family fmt ->
  (forall sv n, sval_of kind v = Some sv -> sv_dn sv = Some n -> dn_in_range n = true) ->
  accepted (judge (bytes_of_string "sf.fmt") [VInt kind; v; VStr fmt]
                  (run (bytes_of_string "sf.fmt") [VInt kind; v; VStr fmt])).
Proof. exact C12View.C12_holds_fmt. Qed.
Print Assumptions C12_holds_fmt_partial.

(** ... and without restriction (1): the calendar reading of the two sentinel dates is computed
    on the closed words (C12_sentinel_date_views), so the statement holds for EVERY decodable value
    of the five kinds, including a DateTime<FixedOffset> whose local day is one day outside the
    NaiveDate range.  Restrictions (2) and (3) are lifted by C12_holds_fmt_any /
    C12_holds_fmtl_any / C12_holds_items_any at the end of this file. *)
Theorem C12_sentinel_date_views :
  date_view Model.Date.D_BEFORE_MIN (DN_MIN - 1) /\ date_view Model.Date.D_AFTER_MAX (DN_MAX + 1).
Proof. exact (conj date_view_BEFORE_MIN date_view_AFTER_MAX). Qed.
Print Assumptions C12_sentinel_date_views.
Theorem C12_args_view_dtz_all : forall y o s f off sv,
  sval_of 3 (VTup [VInt y; VInt o; VInt s; VInt f; VInt off]) = Some sv ->
  exists z a, DateTime.dec_dtz (VTup [VInt y; VInt o; VInt s; VInt f; VInt off]) = Some z /\
              fa_of_dtz z = Val a /\ args_view a sv.
Proof. exact args_view_dtz_all. Qed.
Print Assumptions C12_args_view_dtz_all.
Theorem C12_holds_fmt : forall kind v fmt,
  documented_family fmt ->
  accepted (judge (bytes_of_string "sf.fmt") [VInt kind; v; VStr fmt]
                  (run (bytes_of_string "sf.fmt") [VInt kind; v; VStr fmt])).
Proof. exact holds_fmt_all. Qed.
Print Assumptions C12_holds_fmt.

(** the hypotheses are inhabited: 2001-07-08T00:34:54 (leap second) +09:30, and a format string
    with composites, modifiers, multi-byte text, %+ and %% *)
Example C12_args_view_inhabited : args_view ex_args ex_sval.
Proof. exact ex_args_view. Qed.
Print Assumptions C12_args_view_inhabited.
Example C12_family_inhabited : documented_family ex_fmt.
Proof. exact ex_family. Qed.
Print Assumptions C12_family_inhabited.
Example C12_format_example : delayed_display ex_args (sf_new ex_fmt) =
  match doc_format ex_sval ex_fmt with ROk s => fok s | _ => ferr end.
Proof. exact ex_format. Qed.
Print Assumptions C12_format_example.

(** * Every format string (closes restrictions (2) and (3) of C12_holds_fmt_partial)

    unknown_specifier: a '%' that starts no row of the documented table — unknown character,
    multi-byte character, premature end of the string, an incomplete `%.` `%:` `%3` `%#` sequence,
    with or without a padding modifier — after '%'-free text [pre], followed by anything: the
    strict item list is the text and then [Error] *)
Theorem C12_unknown_specifier_error_in_context : forall pre r pad r1,
  utf8_valid (pre ++ 37 :: r) = true -> ~ In 37 pre ->
  split_mod r = (pad, r1) -> lookup doc_table r1 = None ->
  exists items, strict_items (pre ++ 37 :: r) = Val items /\
    norm_items items = norm_items ((if pre then [] else [Literal pre]) ++ [IError]).
Proof. exact unknown_specifier_error_in_context. Qed.
Print Assumptions C12_unknown_specifier_error_in_context.
Example C12_unknown_inhabited : utf8_valid ([97; 98] ++ 37 :: [45; 81; 33]) = true /\ ~ In 37 [97; 98] /\
  split_mod [45; 81; 33] = (Some DNone, [81; 33]) /\ lookup doc_table [81; 33] = None.
Proof. exact ex_unknown. Qed.
Print Assumptions C12_unknown_inhabited.

(** tokenization_all: for EVERY valid UTF-8 format string the items `StrftimeItems::new` yields up
    to the first [Error] are the documented decomposition (up to the Literal/Space distinction and
    the chunking of text): text covers the text, every documented specifier its table row,
    composites their expansion, every undocumented specifier [Error] *)
Theorem C12_tokenization_all : forall fmt, utf8_valid fmt = true -> tokenization_agrees fmt.
Proof. exact tokenization_all. Qed.
Print Assumptions C12_tokenization_all.

(** format_spec without side condition: ANY value x ANY format string renders as documented, or
    fails exactly where the documentation says (missing field, undocumented specifier, modifier
    on a non-numeric specifier) *)
Theorem C12_format_spec_all : forall a sv fmt, args_view a sv -> utf8_valid fmt = true ->
  claim (doc_format sv fmt) (delayed_display a (sf_new fmt)).
Proof. exact format_spec_all. Qed.
Print Assumptions C12_format_spec_all.

(** strict iteration is total: on every valid UTF-8 string the iterator ends without a trap within
    the bound of the `sf.items` op, and the items up to the first [Error] are the documented ones *)
Theorem C12_strict_items_total : forall fmt, utf8_valid fmt = true ->
  exists l, sf_take (S (sf_bound fmt)) (sf_new fmt) [] = Val (Some l) /\
            norm_items (until_first_err l) = norm_items (doc_items fmt).
Proof. exact strict_items_total. Qed.
Print Assumptions C12_strict_items_total.

(** lenient mode (`StrftimeItems::new_lenient`, `parse_to_owned` of it) on a format string without
    error by the table: the same items, hence the same text, as strict mode *)
Theorem C12_tokenization_lenient : forall fmt, utf8_valid fmt = true -> has_err (tokens fmt) = false ->
  exists items, sf_until_err (S (sf_bound fmt)) (sf_new_lenient fmt) [] = Val items /\
                norm_items items = norm_items (doc_items fmt).
Proof. exact tokenization_lenient. Qed.
Print Assumptions C12_tokenization_lenient.
Theorem C12_lenient_display_eq_strict : forall a fmt, utf8_valid fmt = true -> has_err (tokens fmt) = false ->
  delayed_display a (sf_new_lenient fmt) = delayed_display a (sf_new fmt).
Proof. exact lenient_display_eq_strict. Qed.
Print Assumptions C12_lenient_display_eq_strict.
Theorem C12_format_spec_lenient : forall a sv fmt, args_view a sv -> utf8_valid fmt = true ->
  has_err (tokens fmt) = false ->
  claim (doc_format sv fmt) (delayed_display a (sf_new_lenient fmt)).
Proof. exact format_spec_lenient. Qed.
Print Assumptions C12_format_spec_lenient.
Example C12_noerr_inhabited : utf8_valid ex_fmt = true /\ has_err (tokens ex_fmt) = false.
Proof. exact ex_fmt_noerr. Qed.
Print Assumptions C12_noerr_inhabited.
Example C12_err_inhabited : utf8_valid ex_fmt_bad = true /\ has_err (tokens ex_fmt_bad) = true.
Proof. exact ex_fmt_bad_valid. Qed.
Print Assumptions C12_err_inhabited.

(** C12 holds of the model, over cases, for ALL ops and ALL arguments: the judge (the executable
    statement of the property) accepts the model's output of
    - `sf.fmt` for every kind, every value and every format string (supersedes C12_holds_fmt);
    - `sf.fmtl` likewise (the judge claims the documented text on format strings without error and
      makes no claim on the lenient recovery from an invalid specifier);
    - `sf.items` for every format string, strict and lenient: the canonical item list up to the
      first [Error] is the documented one, and draining the iterator neither traps nor exceeds the
      bound of the op.
    Arguments that do not decode (or a format that is not UTF-8) are `err:BADARGS` on the model
    side and outside the judge's domain. *)
Theorem C12_holds_fmt_any : forall kind v fmt,
  accepted (judge (bytes_of_string "sf.fmt") [VInt kind; v; VStr fmt]
                  (run (bytes_of_string "sf.fmt") [VInt kind; v; VStr fmt])).
Proof. exact holds_fmt_any. Qed.
Print Assumptions C12_holds_fmt_any.
Theorem C12_holds_fmtl_any : forall kind v fmt,
  accepted (judge (bytes_of_string "sf.fmtl") [VInt kind; v; VStr fmt]
                  (run (bytes_of_string "sf.fmtl") [VInt kind; v; VStr fmt])).
Proof. exact holds_fmtl_any. Qed.
Print Assumptions C12_holds_fmtl_any.
Theorem C12_holds_items_any : forall fmt l,
  accepted (judge (bytes_of_string "sf.items") [VStr fmt; VInt l]
                  (run (bytes_of_string "sf.items") [VStr fmt; VInt l])).
Proof. exact holds_items_any. Qed.
Print Assumptions C12_holds_items_any.

(** * The deprecated free functions `chrono::format::format` and `chrono::format::format_item` (ops sf.dfmt /
      sf.dfmti, called through a `Display` wrapper).  Both are `DelayedFormat { .. }.fmt(w)`: `format` on the
      given items is the Display of `format_with_items` on the same items, `format_item` writes exactly what the
      formatter writes for that one item, and one `format_item` call per item of the iterator, concatenated,
      is the text (or the error) of a single pass.  At the level of cases: for every kind, every value and every
      format string the judge accepts the model's output of both ops (a DateTime<FixedOffset> whose wall clock
      is outside the date range cannot be handed over by the harness and is `err:BADARGS` on both sides). *)
Theorem C12_deprecated_format_item : forall a it, format_item_fn a it = format_item a it.
Proof. exact Proofs.C12Deprecated.format_item_fn_eq. Qed.
Print Assumptions C12_deprecated_format_item.
Theorem C12_deprecated_format : forall a st, format_fn a st = delayed_display a st.
Proof. exact Proofs.C12Deprecated.format_fn_eq. Qed.
Print Assumptions C12_deprecated_format.
Theorem C12_deprecated_per_item_display : forall a st, per_item_display a st = delayed_display a st.
Proof. exact Proofs.C12Deprecated.per_item_display_eq. Qed.
Print Assumptions C12_deprecated_per_item_display.
Theorem C12_deprecated_ops_eq_fmt : forall kind v f,
  run_dfmt true kind v f = run_dfmt false kind v f /\
  run_dfmt false kind v f = (if wall_ok kind v then run_fmt false kind v f else VBad).
Proof. exact (fun kind v f => conj (Proofs.C12Deprecated.run_dfmti_eq kind v f) (Proofs.C12Deprecated.run_dfmt_eq kind v f)). Qed.
Print Assumptions C12_deprecated_ops_eq_fmt.
Theorem C12_holds_dfmt_any : forall kind v fmt,
  accepted (judge (bytes_of_string "sf.dfmt") [VInt kind; v; VStr fmt]
                  (run (bytes_of_string "sf.dfmt") [VInt kind; v; VStr fmt])).
Proof. exact Proofs.C12Deprecated.holds_dfmt_any. Qed.
Print Assumptions C12_holds_dfmt_any.
Theorem C12_holds_dfmti_any : forall kind v fmt,
  accepted (judge (bytes_of_string "sf.dfmti") [VInt kind; v; VStr fmt]
                  (run (bytes_of_string "sf.dfmti") [VInt kind; v; VStr fmt])).
Proof. exact Proofs.C12Deprecated.holds_dfmti_any. Qed.
Print Assumptions C12_holds_dfmti_any.
Example C12_deprecated_example :
  run (bytes_of_string "sf.dfmt") [VInt 3; VTup [VInt 2001; VInt 189; VInt 2094; VInt 26490000; VInt 34200]; VStr (bytes_of_string "%Y-%m-%dT%H:%M:%S%.3f%:z")]
    = VStr (bytes_of_string "2001-07-08T10:04:54.026+09:30") /\
  run (bytes_of_string "sf.dfmti") [VInt 3; VTup [VInt 2001; VInt 189; VInt 2094; VInt 26490000; VInt 34200]; VStr (bytes_of_string "%Y-%m-%dT%H:%M:%S%.3f%:z")]
    = VStr (bytes_of_string "2001-07-08T10:04:54.026+09:30") /\
  run (bytes_of_string "sf.dfmt") [VInt 3; VTup [VInt 262142; VInt 365; VInt 86399; VInt 0; VInt 1]; VStr (bytes_of_string "%Y")] = VBad.
Proof. exact Proofs.C12Deprecated.dfmt_example. Qed.
Print Assumptions C12_deprecated_example.

(** * The lenient iterator on every string, and the internal items

    lenient_never_errors: `StrftimeItems::new_lenient` on EVERY valid UTF-8 string (of a length a
    Rust string can have) ends within the bound without a trap, and none of its items is
    [Item::Error]: every invalid specifier comes out as a [Literal] (trap-freedom: C15's slice-safety
    invariant, Proofs/C15Strftime.v) *)
Theorem C12_lenient_never_errors : forall s, utf8_valid s = true -> blen s <= u64_max ->
  exists l, sf_take (S (sf_bound s)) (sf_new_lenient s) [] = Val (Some l) /\ forallb not_err l = true.
Proof. exact lenient_never_errors. Qed.
Print Assumptions C12_lenient_never_errors.
Example C12_lenient_example :
  sf_take 100 (sf_new_lenient [37; 81]) [] = Val (Some [Literal [37]; Literal [81]]) /\
  sf_take 100 (sf_new [37; 81]) [] = Val (Some [IError]).
Proof. exact (conj lenient_example strict_errors_example). Qed.
Print Assumptions C12_lenient_example.

(** "lenient mode = strict mode with each invalid specifier as ONE literal" does NOT hold of the
    code: after a padding modifier on a composite specifier ("%-D") the composite's queued items
    are still yielded — after the literal "%-D" in lenient mode (2001-07-08 prints "%-D/08/01"),
    after [Error] in strict mode (harmless there: the formatter stops at [Error]).  Reproduced on
    the real crate through `sf.items` / `sf.fmtl`. *)
Theorem C12_lenient_recovery_one_literal_refuted :
  sf_take 100 (sf_new_lenient [37; 45; 68]) [] =
    Val (Some [Literal [37; 45; 68]; Literal [47]; num0 N_Day; Literal [47]; num0 N_YearMod100]) /\
  sf_take 100 (sf_new [37; 45; 68]) [] =
    Val (Some [IError; Literal [47]; num0 N_Day; Literal [47]; num0 N_YearMod100]).
Proof. exact lenient_pad_on_composite_leaks. Qed.
Print Assumptions C12_lenient_recovery_one_literal_refuted.

(** the internal items: `%3f` `%6f` `%9f` (Nanosecond3NoDot/6/9) render the documented fraction
    digits; the parsing-only TimezoneOffsetPermissive behind `%#z` cannot be rendered: formatting
    fails for every value (the documentation table makes no claim for it) *)
Theorem C12_render_internal_nodot : forall a sv k, args_view a sv -> k = 3 \/ k = 6 \/ k = 9 ->
  claim (render_fix sv (TFrac k false))
        (format_fixed a (F_Internal (if k =? 3 then I_Nanosecond3NoDot else if k =? 6 then I_Nanosecond6NoDot
                                     else I_Nanosecond9NoDot))).
Proof. exact render_nodot. Qed.
Print Assumptions C12_render_internal_nodot.
Theorem C12_permissive_offset_never_renders : forall a,
  format_fixed a (F_Internal I_TimezoneOffsetPermissive) = ferr /\
  delayed_display a (sf_new [37; 35; 122]) = ferr.
Proof. exact (fun a => conj (permissive_offset_fails a) (permissive_format_fails a)). Qed.
Print Assumptions C12_permissive_offset_never_renders.

(** * The EXACT item list, strict and lenient (no [norm_items])

    [exact_items lenient fmt] (Proofs/C12Exact.v) is a closed description of the drained iterator:
    text is cut into maximal runs ([Space] = longest run of white-space characters, [Literal] =
    longest run of characters that are neither white space nor '%'); `%%` `%n` `%t` are items of
    their own ([Literal "%"], [Space "\n"], [Space "\t"]), never merged with neighbouring text;
    a documented specifier is the item of its table row with the padding of the modifier; a
    composite is the exact item list of its documented expansion ([exact_simple]), not merged with
    adjacent literals; an invalid specifier is [Error] in strict mode (rest of the input dropped,
    except that after an incomplete "%:" the code keeps parsing) and, in lenient mode, ONE [Literal]
    holding the '%' and the [bad_len] bytes of its source text that were accepted (a character that
    cannot start a specifier is parsed again as text), followed by the leaked tail of the composite
    when the invalid specifier is a padding modifier on a composite.

    parse_step: one call of parse_next_item on "%" ++ r, for every valid r and both modes *)
Theorem C12_parse_step : forall l r, utf8_valid r = true ->
  parse_next_item l [] (37 :: r) = Val (pct_spec l r).
Proof. exact parse_step. Qed.
Print Assumptions C12_parse_step.

(** items_exact: draining `StrftimeItems::new(fmt)` (l = false) / `new_lenient(fmt)` (l = true) on
    EVERY valid UTF-8 string (of a length a Rust string can have) gives exactly [exact_items l fmt]:
    no trap, within the bound, the Literal/Space distinction and the chunking included.
    Supersedes, for the item list, C12_tokenization_all / C12_strict_items_total /
    C12_tokenization_lenient (which are up to [norm_items]) and C12_lenient_never_errors;
    characterises lenient mode on formats WITH invalid specifiers. *)
Theorem C12_items_exact : forall l s, utf8_valid s = true -> blen s <= u64_max ->
  sf_take (S (sf_bound s)) (mk_sfi s [] l) [] = Val (Some (exact_items l s)).
Proof. exact items_exact. Qed.
Print Assumptions C12_items_exact.
Theorem C12_strict_items_exact : forall fmt, utf8_valid fmt = true -> blen fmt <= u64_max ->
  strict_items fmt = Val (until_first_err (exact_items false fmt)).
Proof. exact strict_items_exact. Qed.
Print Assumptions C12_strict_items_exact.

(** the runs are maximal: the character right after a run (if any) does not satisfy the predicate
    of the run; by definition of [run_len] every character inside does *)
Theorem C12_run_maximal : forall p s, utf8_valid s = true ->
  (C12Exact.run p s <= List.length s)%nat /\
  match next_char (skipn (C12Exact.run p s) s) with Some c => p c = false | None => True end.
Proof. exact run_maximal. Qed.
Print Assumptions C12_run_maximal.

(** the description at work: `%%` `%n` `%t`, literals adjacent to a composite, alternating runs,
    and the four composite tables of the code = the exact items of the documented expansions *)
Example C12_exact_examples :
  exact_items false (Bs "a%%b") = [Literal (Bs "a"); Literal (Bs "%"); Literal (Bs "b")] /\
  exact_items false [32; 37; 110; 32; 9; 37; 116] = [Space [32]; Space [10]; Space [32; 9]; Space [9]] /\
  exact_items false (Bs "/%D/") = [Literal [47]; num0 N_Month; Literal [47]; num0 N_Day; Literal [47];
                                   num0 N_YearMod100; Literal [47]] /\
  exact_items false (Bs "ab  cd%Y") = [Literal (Bs "ab"); Space (Bs "  "); Literal (Bs "cd"); num0 N_Year] /\
  exact_simple (Bs "%m/%d/%y") = SF_D_FMT /\ exact_simple (Bs "%H:%M:%S") = SF_T_FMT /\
  exact_simple (Bs "%a %b %e %H:%M:%S %Y") = SF_D_T_FMT /\ exact_simple (Bs "%I:%M:%S %p") = SF_T_FMT_AMPM.
Proof. exact exact_examples. Qed.
Print Assumptions C12_exact_examples.
Example C12_lenient_invalid_examples :
  exact_items true (Bs "%Qx %.3y%-a%-Dz") =
    [Literal (Bs "%"); Literal (Bs "Qx"); Space (Bs " "); Literal (Bs "%.3"); Literal (Bs "y"); Literal (Bs "%-a");
     Literal (Bs "%-D"); Literal [47]; num0 N_Day; Literal [47]; num0 N_YearMod100; Literal (Bs "z")] /\
  exact_items true (Bs "%-:zq%") = [Literal (Bs "%-:"); Literal (Bs "zq"); Literal (Bs "%")] /\
  exact_items false (Bs "%Qx%Y") = [IError] /\
  exact_items false (Bs "%:x%Y") = [IError; Literal (Bs "x"); num0 N_Year] /\
  exact_items false (Bs "%-Dx") = [IError; Literal [47]; num0 N_Day; Literal [47]; num0 N_YearMod100].
Proof. exact lenient_examples. Qed.
Print Assumptions C12_lenient_invalid_examples.
Example C12_exact_inhabited : utf8_valid (Bs "%Qx %.3y%-a%-Dz") = true /\ blen (Bs "%Qx %.3y%-a%-Dz") <= u64_max.
Proof. exact exact_inhabited. Qed.
Print Assumptions C12_exact_inhabited.

(** tightness of C12_strftime_terminates: the bound 13 * (bytes) is NOT reached; the densest
    input is "%c" repeated, 13 items per 2 bytes *)
Example C12_density_example :
  List.length (exact_items false (Bs "%c%c%c%c")) = 52%nat /\ List.length (Bs "%c%c%c%c") = 8%nat.
Proof. exact density_example. Qed.
Print Assumptions C12_density_example.

(** the rendered text, both modes: the formatter writes exactly the items of the description up to
    the first [Error]; lenient mode has no [Error], so every invalid specifier is written as the
    accepted part of its source text followed by the re-parsed rest (and by the leaked items of the
    composite after `%-D`-like specifiers: "%-D" prints "%-D/08/01" for 2001-07-08) *)
Theorem C12_display_exact : forall a l s, utf8_valid s = true -> blen s <= u64_max ->
  delayed_display a (mk_sfi s [] l) = write_items a (until_first_err (exact_items l s)) [].
Proof. exact display_exact. Qed.
Print Assumptions C12_display_exact.
Theorem C12_lenient_display_exact : forall a s, utf8_valid s = true -> blen s <= u64_max ->
  delayed_display a (sf_new_lenient s) = write_items a (exact_items true s) [].
Proof. exact lenient_display_exact. Qed.
Print Assumptions C12_lenient_display_exact.

(** * Source-span coverage of the exact item list, and the tight density bound (Proofs/C12Pieces.v)

    [pieces l s : list (bytes * list Item)]: one piece per call of parse_next_item = (the source
    bytes it consumed, the items it produced).  A run of text is (run, [Space run] / [Literal run]);
    a valid specifier is ("%" ++ modifier ++ name, the items of its row) - a composite is ONE piece
    carrying its expanded items; an invalid specifier is ("%" ++ its [bad_len] accepted bytes,
    Literal of exactly these bytes (lenient) / Error (strict), followed by the leaked tail of the
    composite after a `%-D`-like specifier).

    pieces_items: the items of the pieces, concatenated, are the exact item list - for EVERY byte
    string, both modes *)
Theorem C12_pieces_items : forall l s, List.concat (map snd (pieces l s)) = exact_items l s.
Proof. exact pieces_items. Qed.
Print Assumptions C12_pieces_items.

(** coverage, lenient mode: the source spans of the pieces, concatenated, are the whole input - no
    byte of a valid UTF-8 format string is skipped or read twice, and (previous theorem) every item
    comes from exactly one span *)
Theorem C12_pieces_cover_lenient : forall s, utf8_valid s = true ->
  List.concat (map fst (pieces true s)) = s.
Proof. exact pieces_cover_lenient. Qed.
Print Assumptions C12_pieces_cover_lenient.
Theorem C12_pieces_lenient_no_stop : forall s, utf8_valid s = true ->
  existsb stop_piece (pieces true s) = false.
Proof. exact pieces_lenient_no_stop. Qed.
Print Assumptions C12_pieces_lenient_no_stop.

(** coverage, strict mode: the spans are a prefix of the input, [s = spans ++ tail]; the dropped
    [tail] is empty unless there is a stopping piece ([stop_piece]: items start with [Error] and the
    source text does not start with "%:"), and only the LAST piece can be a stopping piece - i.e.
    the input is covered up to and including the first invalid specifier whose source is not "%:",
    everything after it is dropped; an [Error] piece with source "%:" (incomplete colon specifier)
    does NOT stop: parsing resumes right after the ':' (C12_pieces_examples, second line) *)
Theorem C12_pieces_cover_strict : forall s, utf8_valid s = true ->
  exists tail, s = List.concat (map fst (pieces false s)) ++ tail /\
    existsb stop_piece (removelast (pieces false s)) = false /\
    (existsb stop_piece (pieces false s) = false -> tail = []).
Proof. exact pieces_cover_strict. Qed.
Print Assumptions C12_pieces_cover_strict.

(** the per-step count: every piece has a non-empty source span and at most 13 items per 2 bytes *)
Theorem C12_pieces_dense : forall l s, utf8_valid s = true ->
  Forall (fun p => (2 * List.length (snd p) <= 13 * List.length (fst p))%nat /\ fst p <> []) (pieces l s).
Proof. exact pieces_dense. Qed.
Print Assumptions C12_pieces_dense.

(** the tight density bound, both modes: 2 * items <= 13 * bytes; reached by "%c" repeated
    (C12_density_example: 52 items for 8 bytes).  Supersedes the 13 * bytes of
    C12_strftime_terminates on valid UTF-8 strings. *)
Theorem C12_items_density : forall l s, utf8_valid s = true ->
  2 * Z.of_nat (List.length (exact_items l s)) <= 13 * blen s.
Proof. exact items_density. Qed.
Print Assumptions C12_items_density.
(** ... stated on the drained iterator itself (strict and lenient, no trap, within the fuel) *)
Theorem C12_strftime_density : forall l s, utf8_valid s = true -> blen s <= u64_max ->
  exists L, sf_take (S (sf_bound s)) (mk_sfi s [] l) [] = Val (Some L) /\
            2 * Z.of_nat (List.length L) <= 13 * blen s.
Proof. exact take_density. Qed.
Print Assumptions C12_strftime_density.

(** the pieces at work: a composite is one piece; in "%Qx" the invalid specifier is the piece "%"
    alone (the Q is text of the next piece); strict mode resumes after "%:" and stops after "%"
    (tail "Qx%Y" dropped); "%-D" leaks the tail of the composite inside its own piece; "%c" is
    one piece of 13 items *)
Example C12_pieces_examples :
  pieces true (Bs "a %c%-Dz%Qx") =
    [(Bs "a", [Literal (Bs "a")]); (Bs " ", [Space (Bs " ")]); (Bs "%c", exact_simple (Bs "%a %b %e %H:%M:%S %Y"));
     (Bs "%-D", Literal (Bs "%-D") :: tl (exact_simple (Bs "%m/%d/%y"))); (Bs "z", [Literal (Bs "z")]);
     (Bs "%", [Literal (Bs "%")]); (Bs "Qx", [Literal (Bs "Qx")])] /\
  pieces false (Bs "%:x%Y%Qx%Y") =
    [(Bs "%:", [IError]); (Bs "x", [Literal (Bs "x")]); (Bs "%Y", [num0 N_Year]); (Bs "%", [IError])] /\
  pieces false (Bs "%-Dx") = [(Bs "%-D", IError :: tl (exact_simple (Bs "%m/%d/%y")))] /\
  List.length (snd (hd ([], []) (pieces false (Bs "%c")))) = 13%nat.
Proof. exact pieces_examples. Qed.
Print Assumptions C12_pieces_examples.
Example C12_pieces_inhabited : utf8_valid (Bs "a %c%-Dz%Qx") = true /\ utf8_valid (Bs "%:x%Y%Qx%Y") = true.
Proof. exact pieces_inhabited. Qed.
Print Assumptions C12_pieces_inhabited.
