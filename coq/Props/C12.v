(** C12 — every strftime specifier renders the documented field.  Theorem-only file: each theorem
    is closed by [exact] of a lemma of Proofs/C12.v and followed by [Print Assumptions].
    The documentation table is Spec/StrftimeDoc.v; the model is Model/Strftime.v (item iterator)
    and Model/Format.v (formatter); [strict_items fmt] is what the formatter consumes of
    [StrftimeItems::new(fmt)]: the items up to and including the first [Error]. *)
From Coq Require Import ZArith List Bool.
From V Require Import Base.Int Base.IO Spec.StrftimeDoc Model.Items Model.Strftime Model.Format Proofs.C12.
Import ListNotations.
Open Scope Z_scope.

(* every documented specifier x padding modifier parses to the documented item list *)
Theorem C12_spec_item_table : forall name e m,
  In (name, e) doc_table -> In m modifiers ->
  rmap norm_items (strict_items (37 :: m ++ name)) = Val (norm_items (doc_items (37 :: m ++ name))).
Proof. exact spec_item_table. Qed.
Print Assumptions C12_spec_item_table.

Theorem C12_unknown_specifier_is_error : forall c, 0 <= c < 128 ->
  lookup doc_table [c] = None -> modifier c = None -> ~ In c [35; 58; 46; 51; 54; 57] ->
  strict_items [37; c] = Val [IError].
Proof. exact unknown_specifier_is_error. Qed.
Print Assumptions C12_unknown_specifier_is_error.

Theorem C12_two_digits : forall v, 0 <= v < 100 ->
  dec_nonneg v = if v <? 10 then [48 + v] else [48 + v / 10; 48 + v mod 10].
Proof. exact two_digits. Qed.
Print Assumptions C12_two_digits.
