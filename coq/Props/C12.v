(** C12 — every strftime specifier renders the documented field.  Theorem-only file: each theorem
    is closed by [exact] of a lemma of Proofs/C12*.v and followed by
    [Print Assumptions].

    Vocabulary.  The documentation table is Spec/StrftimeDoc.v ([doc_table], [tokens],
    [render_num], [render_fix], [doc_format]) over the calendar of Spec/Gregorian.v; the model is
    Model/Strftime.v (the [StrftimeItems] iterator) and Model/Format.v ([DelayedFormat]).
    [strict_items fmt] = the items [StrftimeItems::new(fmt)] yields up to and including the first
    [Error] (what the formatter consumes); [doc_items fmt] = the documented item list;
    [norm_items] forgets the Literal/Space distinction and the chunking of text.
    [args_view a sv]: the formatter's arguments [a] (optional packed date, time, offset with its
    name) denote the specification-level value [sv] (day number, second of day, nanosecond, leap
    flag, offset); its date part [date_view d dn] is the calendar reading of a packed [NaiveDate]
    (C01's theorems discharge it for every date).
    [claim r out]: r = ROk s -> out = Ok with text s; r = RFail -> out = Err(fmt::Error);
    r = RSkip (outside the property's domain) -> no claim. *)
From Coq Require Import ZArith List Bool.
From V Require Import Base.Int Base.IO Spec.StrftimeDoc Model.Items Gen.Strftime Model.Strftime Model.Format
  Proofs.C12 Proofs.C12Str Proofs.C12Tok Proofs.C12Fam.
Import ListNotations.
Open Scope Z_scope.

(** spec_item_table: every documented specifier x padding modifier parses to the documented item
    list; composites to their documented expansion; a modifier on a non-numeric or composite
    specifier to [Error] *)
Theorem C12_spec_item_table : forall name e m,
  In (name, e) doc_table -> In m modifiers ->
  rmap norm_items (strict_items (37 :: m ++ name)) = Val (norm_items (doc_items (37 :: m ++ name))).
Proof. exact spec_item_table. Qed.
Print Assumptions C12_spec_item_table.

Theorem C12_unknown_specifier_is_error : forall c, 0 <= c < 128 ->
  lookup doc_table [c] = None -> modifier c = None -> ~ In c [35; 58; 46; 51; 54; 57] ->
  strict_items [37; c] = Val [IError].
Proof. exact unknown_specifier_is_error. Qed.
Print Assumptions C12_unknown_specifier_is_error.

(** render_item_spec, numeric items: for ALL values (any year of the i32 range incl. negative and
    5-6 digit years, leap seconds, any offset) the model output is the documented text, and
    formatting fails exactly when the value lacks the field *)
Theorem C12_render_numeric_spec : forall a sv f p, args_view a sv ->
  claim (render_num sv f p) (format_numeric a (numeric_of f) (pad_of p)).
Proof. exact render_numeric_spec. Qed.
Print Assumptions C12_render_numeric_spec.

(** render_item_spec, fixed items (names, am/pm, fractions, zone name, the four offset forms) *)
Theorem C12_render_fixed_spec : forall a sv f, args_view a sv -> tfield_documented f ->
  claim (render_fix sv f) (format_fixed a (fixed_of f)).
Proof. exact render_fixed_spec. Qed.
Print Assumptions C12_render_fixed_spec.

(** the four offset items for every offset a FixedOffset can carry: rounding to the minute for
    %z %:z, exact seconds for %::z, truncation to hours for %:::z *)
Theorem C12_offset_items_spec : forall off, -86400 < off < 86400 ->
  offset_format (mk_of OP_Minutes C_Maybe false PadZero) off = fok (offset_text off false 0) /\
  offset_format (mk_of OP_Minutes C_Colon false PadZero) off = fok (offset_text off true 0) /\
  offset_format (mk_of OP_Seconds C_Colon false PadZero) off = fok (offset_text off true 1) /\
  offset_format (mk_of OP_Hours C_None false PadZero) off = fok (offset_text off false 2).
Proof. exact offset_items_spec. Qed.
Print Assumptions C12_offset_items_spec.

(** %+ renders as its documented expansion %Y-%m-%dT%H:%M:%S%.f%:z *)
Theorem C12_render_iso_spec : forall a sv, args_view a sv ->
  claim (render_all sv (tokens iso_expansion) []) (format_fixed a F_RFC3339).
Proof. exact render_iso_spec. Qed.
Print Assumptions C12_render_iso_spec.

(** the century item on every i32 year (the repaired %C): floor(year/100), "-" and no padding when
    negative *)
Theorem C12_write_n_is_pad_num : forall n v p always, 0 <= n < 1000 ->
  write_n n v (pad_of p) always = fok (pad_num p n always v).
Proof. exact write_n_spec. Qed.
Print Assumptions C12_write_n_is_pad_num.

(** format_concat: the formatter's output is the concatenation of the item renderings, stopping at
    the first item that fails *)
Theorem C12_format_concat : forall fuel a st items,
  sf_until_err fuel st [] = Val items ->
  forall acc, write_to fuel a st acc = write_items a items acc.
Proof. exact format_concat. Qed.
Print Assumptions C12_format_concat.

(** format_spec: whenever the item list of a format string agrees with the table (decidable by
    computation for a given string), formatting ANY value gives the documented text / failure *)
Theorem C12_format_spec : forall a sv fmt, args_view a sv -> tokenization_agrees fmt ->
  claim (doc_format sv fmt) (delayed_display a (sf_new fmt)).
Proof. exact format_spec. Qed.
Print Assumptions C12_format_spec.

(** strftime_terminates (shared with C15): every parse step consumes at least one input byte —
    on the repaired code also when it yields [Error] — and queues at most 12 items *)
Theorem C12_parse_next_item_consumes : forall lenient q r rm it q',
  SF_ERROR_CONSUMES = true \/ lenient = true ->
  parse_next_item lenient q r = Val (Some (rm, it), q') ->
  blen rm < blen r /\ queue_ok q q'.
Proof. exact parse_next_item_consumes. Qed.
Print Assumptions C12_parse_next_item_consumes.

(** ... hence iteration ends within the bound used as fuel everywhere, after at most
    13 * (bytes of input) items, for every byte string, strict and lenient *)
Theorem C12_strftime_terminates : forall s lenient,
  SF_ERROR_CONSUMES = true \/ lenient = true ->
  match sf_take (S (sf_bound s)) (mk_sfi s [] lenient) [] with
  | Val (Some l) => Z.of_nat (List.length l) <= 13 * blen s
  | Val None => False
  | Panic => True
  | OutOfFuel => False
  end.
Proof. exact strftime_terminates. Qed.
Print Assumptions C12_strftime_terminates.

(** literal_copied: a format string without '%' (any valid UTF-8, including multi-byte text and
    Unicode white space) is written out unchanged, whatever the value *)
Theorem C12_literal_copied : forall a fmt, utf8_valid fmt = true -> ~ In 37 fmt ->
  delayed_display a (sf_new fmt) = fok fmt.
Proof. exact literal_copied. Qed.
Print Assumptions C12_literal_copied.

(** the documented family: valid UTF-8 in which every '%' starts a documented specifier, optionally
    preceded by a padding modifier ([wf_scan] decides it).  Its item lists agree with the table:
    arbitrary text in between, composites in place, and the [Error] item for a modifier on a
    non-numeric or composite specifier *)
Theorem C12_tokenization_documented_family : forall fmt,
  documented_family fmt -> tokenization_agrees fmt.
Proof. exact tokenization_documented_family. Qed.
Print Assumptions C12_tokenization_documented_family.

(** C12 on the documented family: every value x every format string built from the documented
    specifiers and modifiers renders as documented, or fails exactly where the documentation says.
    Partial only in its hypothesis [args_view]: that the packed date handed to the formatter reads
    as the calendar date of its day number is C01's theorem (and, for DateTime values, that
    [overflowing_naive_local] is the wall-clock reading is C04's); the gap between the op-level
    value decoding and [args_view] is covered by the correspondence run, not by this theorem. *)
Theorem C12_format_spec_family_partial : forall a sv fmt, args_view a sv -> documented_family fmt ->
  claim (doc_format sv fmt) (delayed_display a (sf_new fmt)).
Proof. exact format_spec_family. Qed.
Print Assumptions C12_format_spec_family_partial.

(** the hypotheses are inhabited: 2001-07-08T00:34:54 (leap second) +09:30, and a format string
    with composites, modifiers, multi-byte text, %+ and %% *)
Example C12_args_view_inhabited : args_view ex_args ex_sval.
Proof. exact ex_args_view. Qed.
Print Assumptions C12_args_view_inhabited.
Example C12_family_inhabited : documented_family ex_fmt.
Proof. exact ex_family. Qed.
Print Assumptions C12_family_inhabited.
Example C12_format_example : delayed_display ex_args (sf_new ex_fmt) =
  match doc_format ex_sval ex_fmt with ROk s => fok s | _ => ferr end.
Proof. exact ex_format. Qed.
Print Assumptions C12_format_example.
