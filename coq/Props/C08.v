(** C08 — Month stepping, field replacement and week helpers follow calendar rules.
    Property theorems only: each is closed by [exact] of a lemma from Proofs/C08*.v and followed by
    [Print Assumptions].

    Vocabulary.  [repr y o d]: the date word [d] of the model is the date with year [y] (in
    MIN_YEAR..MAX_YEAR) and day-of-year [o] (1..length of the year) — the pair the case protocol uses
    as the canonical encoding of a date; [mkdate y o] is that word; [mk_ymd y m dd] the word of the
    date (y, m, dd); [month_of y o], [day_of y o] the calendar's month and day of month;
    [date_of_dn n] the word of the date with day number [n]; [dn_of_yo], [yo_of_dn], [days_in_month],
    [is_leap], [weekday_of_dn] (Monday = 0), [valid_ymd], [valid_yo], [year_in_range], [dn_in_range]
    are the proleptic Gregorian calendar of Spec/Gregorian.v.  Model functions are the line-by-line
    transcriptions of the Rust (Model/Date.v, Model/DateExtra.v) with trapping integer arithmetic:
    [Val v] = returns v, [Panic] = traps.  Every equation [f args = Val ...] therefore also says that
    [f] does not trap on those arguments. *)
From Coq Require Import ZArith List Bool String.
Import ListNotations.
From V Require Import Base.Int Base.IO Spec.Gregorian Model.Date Model.DateExtra
  Proofs.C08Sweeps Proofs.C08Date Proofs.C08Days Proofs.C08AddDays Proofs.C08 Proofs.C08Dt Proofs.C08Holds Proofs.C08Ops.
From V Require Model.Time Model.DateTime Model.C08 Judge.C08.
From V Require Import Model.TimeDelta.
Import V.Model.C08.
Open Scope Z_scope.

(* ---- the canonical encoding: (year, ordinal) decodes to the represented date, or to nothing *)
Theorem C08_from_yo : forall y o, in_i32 y = true -> in_u32 o = true ->
  from_yo_opt y o = Val (if year_in_range y && valid_yo y o then Some (mkdate y o) else None).
Proof. exact from_yo_opt_spec. Qed.
Print Assumptions C08_from_yo.

Theorem C08_from_ymd : forall y m dd, in_i32 y = true -> in_u32 m = true -> in_u32 dd = true ->
  from_ymd_opt y m dd = Val (if year_in_range y && valid_ymd y m dd then Some (mk_ymd y m dd) else None).
Proof. exact from_ymd_opt_spec. Qed.
Print Assumptions C08_from_ymd.

Theorem C08_repr_unique : forall y o d y' o', repr y o d -> repr y' o' d -> y = y' /\ o = o'.
Proof. exact repr_unique. Qed.
Print Assumptions C08_repr_unique.

(* the accessors of a date agree with the calendar *)
Theorem C08_accessors : forall y o d, repr y o d ->
  d_year d = y /\ d_ordinal d = o /\ d_month d = Val (month_of y o) /\ d_day d = Val (day_of y o) /\
  d_weekday d = Val (weekday_of_dn (dn_of_yo y o)) /\ d_leap_year d = is_leap y /\
  1 <= month_of y o <= 12 /\ 1 <= day_of y o <= days_in_month (is_leap y) (month_of y o) /\
  ordinal_of_md (is_leap y) (month_of y o) (day_of y o) = o.
Proof. exact repr_md. Qed.
Print Assumptions C08_accessors.

(* the word of an existing (y, m, dd) is a represented date with exactly those fields *)
Theorem C08_mk_ymd : forall y m dd, year_in_range y = true -> valid_ymd y m dd = true ->
  let o := ordinal_of_md (is_leap y) m dd in
  repr y o (mk_ymd y m dd) /\ month_of y o = m /\ day_of y o = dd.
Proof. exact mk_ymd_fields. Qed.
Print Assumptions C08_mk_ymd.

(* ---- month stepping: all dates x all u32 month counts.  The year-month moves by exactly N, the
   day of month is kept, clamped to the length of the target month; nothing exactly when the target
   year is outside the range (this covers N > i32::MAX and the i32 overflow of the sum). *)
Theorem C08_add_months : forall y o d n, repr y o d -> in_u32 n = true ->
  checked_add_months d n = Val (
    let t := 12 * y + (month_of y o - 1) + n in
    let y' := t / 12 in let m' := t mod 12 + 1 in
    let dd' := Z.min (day_of y o) (days_in_month (is_leap y') m') in
    if year_in_range y' then Some (mk_ymd y' m' dd') else None).
Proof. exact checked_add_months_spec. Qed.
Print Assumptions C08_add_months.

Theorem C08_sub_months : forall y o d n, repr y o d -> in_u32 n = true ->
  checked_sub_months d n = Val (
    let t := 12 * y + (month_of y o - 1) + - n in
    let y' := t / 12 in let m' := t mod 12 + 1 in
    let dd' := Z.min (day_of y o) (days_in_month (is_leap y') m') in
    if year_in_range y' then Some (mk_ymd y' m' dd') else None).
Proof. exact checked_sub_months_spec. Qed.
Print Assumptions C08_sub_months.

(* a produced date has the target year and month and the clamped day *)
Theorem C08_month_step_fields : forall y o k d', valid_yo y o = true -> shift_months y o k = Some d' ->
  let t := 12 * y + (month_of y o - 1) + k in
  let y' := t / 12 in let m' := t mod 12 + 1 in
  let dd' := Z.min (day_of y o) (days_in_month (is_leap y') m') in
  year_in_range y' = true /\ repr y' (ordinal_of_md (is_leap y') m' dd') d' /\
  month_of y' (ordinal_of_md (is_leap y') m' dd') = m' /\ day_of y' (ordinal_of_md (is_leap y') m' dd') = dd'.
Proof. exact shift_months_fields. Qed.
Print Assumptions C08_month_step_fields.

(* NaiveDate + Months / - Months: the same date, a trap exactly when the checked form has nothing *)
Theorem C08_op_add_months : forall y o d n, repr y o d -> in_u32 n = true ->
  d_op_add_months d n = match shift_months y o n with Some d' => Val d' | None => Panic end.
Proof. exact op_add_months_spec. Qed.
Print Assumptions C08_op_add_months.
Theorem C08_op_sub_months : forall y o d n, repr y o d -> in_u32 n = true ->
  d_op_sub_months d n = match shift_months y o (- n) with Some d' => Val d' | None => Panic end.
Proof. exact op_sub_months_spec. Qed.
Print Assumptions C08_op_sub_months.

(* ---- single-field replacement: all dates x the full i32 / u32 argument range (the 0-based forms
   include u32::MAX, where argument + 1 does not fit): the date with that one field replaced and the
   others kept when it exists in range, else nothing. *)
Theorem C08_with_year : forall y o d, repr y o d -> forall x, in_i32 x = true ->
  with_year d x = Val (if year_in_range x && valid_ymd x (month_of y o) (day_of y o)
                       then Some (mk_ymd x (month_of y o) (day_of y o)) else None).
Proof. exact with_year_spec. Qed.
Print Assumptions C08_with_year.
Theorem C08_with_month : forall y o d, repr y o d -> forall x, in_u32 x = true ->
  with_month d x = Val (if valid_ymd y x (day_of y o) then Some (mk_ymd y x (day_of y o)) else None).
Proof. exact with_month_spec. Qed.
Print Assumptions C08_with_month.
Theorem C08_with_month0 : forall y o d, repr y o d -> forall x, in_u32 x = true ->
  with_month0 d x = Val (if valid_ymd y (x + 1) (day_of y o) then Some (mk_ymd y (x + 1) (day_of y o)) else None).
Proof. exact with_month0_spec. Qed.
Print Assumptions C08_with_month0.
Theorem C08_with_day : forall y o d, repr y o d -> forall x, in_u32 x = true ->
  with_day d x = Val (if valid_ymd y (month_of y o) x then Some (mk_ymd y (month_of y o) x) else None).
Proof. exact with_day_spec. Qed.
Print Assumptions C08_with_day.
Theorem C08_with_day0 : forall y o d, repr y o d -> forall x, in_u32 x = true ->
  with_day0 d x = Val (if valid_ymd y (month_of y o) (x + 1) then Some (mk_ymd y (month_of y o) (x + 1)) else None).
Proof. exact with_day0_spec. Qed.
Print Assumptions C08_with_day0.
Theorem C08_with_ordinal : forall y o d, repr y o d -> forall x, in_u32 x = true ->
  with_ordinal d x = Val (if valid_yo y x then Some (mkdate y x) else None).
Proof. exact with_ordinal_spec. Qed.
Print Assumptions C08_with_ordinal.
Theorem C08_with_ordinal0 : forall y o d, repr y o d -> forall x, in_u32 x = true ->
  with_ordinal0 d x = Val (if valid_yo y (x + 1) then Some (mkdate y (x + 1)) else None).
Proof. exact with_ordinal0_spec. Qed.
Print Assumptions C08_with_ordinal0.

(* ---- adding days is addition on day numbers, refused exactly outside the range (all i32 counts) *)
Theorem C08_add_days : forall y o d k, repr y o d -> in_i32 k = true ->
  add_days d k = Val (if dn_in_range (dn_of_yo y o + k) then Some (date_of_dn (dn_of_yo y o + k)) else None).
Proof. exact add_days_spec. Qed.
Print Assumptions C08_add_days.
Theorem C08_date_of_dn : forall n, dn_in_range n = true ->
  repr (fst (yo_of_dn n)) (snd (yo_of_dn n)) (date_of_dn n) /\ dn_of_yo (fst (yo_of_dn n)) (snd (yo_of_dn n)) = n.
Proof. exact date_of_dn_repr. Qed.
Print Assumptions C08_date_of_dn.

(* ---- weeks: all (date, first weekday) pairs.  [week_start n w] is the first day: it falls on the
   chosen weekday, at most six days before the date; the last day is six days later; each bound is
   nothing exactly when it lies outside the range of dates. *)
Theorem C08_week_start : forall n w, 0 <= w <= 6 ->
  weekday_of_dn (week_start n w) = w /\ n - 6 <= week_start n w <= n.
Proof. exact week_start_facts. Qed.
Print Assumptions C08_week_start.
Theorem C08_week_first : forall y o d w, repr y o d -> 0 <= w <= 6 ->
  week_checked_first_day (d_week d w) =
  Val (if dn_in_range (week_start (dn_of_yo y o) w) then Some (date_of_dn (week_start (dn_of_yo y o) w)) else None).
Proof. exact week_first_spec. Qed.
Print Assumptions C08_week_first.
Theorem C08_week_last : forall y o d w, repr y o d -> 0 <= w <= 6 ->
  week_checked_last_day (d_week d w) =
  Val (if dn_in_range (week_start (dn_of_yo y o) w + 6) then Some (date_of_dn (week_start (dn_of_yo y o) w + 6)) else None).
Proof. exact week_last_spec. Qed.
Print Assumptions C08_week_last.
Theorem C08_week_days : forall y o d w, repr y o d -> 0 <= w <= 6 ->
  let f := week_start (dn_of_yo y o) w in
  week_checked_days (d_week d w) =
  Val (if dn_in_range f && dn_in_range (f + 6) then Some (date_of_dn f, date_of_dn (f + 6)) else None).
Proof. exact week_days_spec. Qed.
Print Assumptions C08_week_days.

(* first_day / last_day / days: the same dates, a trap exactly when the checked form has nothing *)
Theorem C08_week_panicking : forall y o d w, repr y o d -> 0 <= w <= 6 ->
  let f := week_start (dn_of_yo y o) w in
  week_first_day (d_week d w) = (if dn_in_range f then Val (date_of_dn f) else Panic) /\
  week_last_day (d_week d w) = (if dn_in_range (f + 6) then Val (date_of_dn (f + 6)) else Panic) /\
  week_days (d_week d w) =
    (if dn_in_range f && dn_in_range (f + 6) then Val (date_of_dn f, date_of_dn (f + 6)) else Panic).
Proof. exact week_panicking_spec. Qed.
Print Assumptions C08_week_panicking.

(* ---- n-th given weekday of a month: all (year : i32, month : u32, weekday, n : u8) *)
Theorem C08_nth_weekday : forall y m w n, in_i32 y = true -> in_u32 m = true -> 0 <= w <= 6 -> in_u8 n = true ->
  from_weekday_of_month_opt y m w n = Val (
    if year_in_range y && (1 <=? m) && (m <=? 12) && (1 <=? n) then
      let day := 1 + (w - weekday_of_dn (dn_of_ymd y m 1)) mod 7 + 7 * (n - 1) in
      if day <=? days_in_month (is_leap y) m then Some (mk_ymd y m day) else None
    else None).
Proof. exact nth_weekday_spec. Qed.
Print Assumptions C08_nth_weekday.

(* ---- whole years elapsed: all date pairs *)
Theorem C08_years_since : forall y1 o1 d1 y0 o0 d0, repr y1 o1 d1 -> repr y0 o0 d0 ->
  years_since d1 d0 = Val (
    let n := y1 - y0 - (if (month_of y1 o1 <? month_of y0 o0)
                           || ((month_of y1 o1 =? month_of y0 o0) && (day_of y1 o1 <? day_of y0 o0)) then 1 else 0) in
    if 0 <=? n then Some n else None).
Proof. exact years_since_spec. Qed.
Print Assumptions C08_years_since.
(* that number is the count of anniversaries reached: the largest k with (y0+k, m0, d0) <= (y1, m1, d1) *)
Theorem C08_years_between_max : forall y1 m1 d1 y0 m0 d0 k,
  years_between y1 m1 d1 y0 m0 d0 = Some k <->
  0 <= k /\ (let le (a b c a' b' c' : Z) := a < a' \/ (a = a' /\ (b < b' \/ (b = b' /\ c <= c'))) in
             le (y0 + k) m0 d0 y1 m1 d1 /\ ~ le (y0 + k + 1) m0 d0 y1 m1 d1).
Proof. exact years_between_max. Qed.
Print Assumptions C08_years_between_max.

(* ---- quarter, common-era year, month lengths *)
Theorem C08_quarter : forall y o d, repr y o d ->
  d_quarter d = Val ((month_of y o - 1) / 3 + 1) /\ 1 <= (month_of y o - 1) / 3 + 1 <= 4.
Proof. exact quarter_spec. Qed.
Print Assumptions C08_quarter.
Theorem C08_year_ce : forall y o d, repr y o d ->
  d_year_ce d = Val (if 1 <=? y then (true, y) else (false, 1 - y)).
Proof. exact year_ce_spec. Qed.
Print Assumptions C08_year_ce.
Theorem C08_num_days_in_month : forall y o d, repr y o d ->
  d_num_days_in_month d = Val (days_in_month (is_leap y) (month_of y o)).
Proof. exact num_days_in_month_spec. Qed.
Print Assumptions C08_num_days_in_month.
(* Month::num_days(year) over all i32 years: the calendar length; nothing only for February of a year
   outside the range *)
Theorem C08_month_num_days : forall m y, 1 <= m <= 12 -> in_i32 y = true ->
  month_num_days m y =
  Val (if (m =? 2) && negb (year_in_range y) then None else Some (days_in_month (is_leap y) m)).
Proof. exact month_num_days_spec. Qed.
Print Assumptions C08_month_num_days.

(* ---- date-times.  [dz_ok a y o s fr off]: the zone-aware value [a] has the UTC date (y, o), UTC second
   of day [s], fraction [fr] and the fixed offset [off]; its wall clock shows the date with day number
   [local_dn y o s off] (possibly one day outside the range of dates) at second [local_secs s off]. *)
Theorem C08_dt_years_since : forall a y1 o1 s1 f1 off1 b y0 o0 s0 f0 off0,
  dz_ok a y1 o1 s1 f1 off1 -> dz_ok b y0 o0 s0 f0 off0 ->
  dz_years_since a b =
  Val (let '(yy1, m1, d1) := ymd_of_dn (local_dn y1 o1 s1 off1) in
       let '(yy0, m0, d0) := ymd_of_dn (local_dn y0 o0 s0 off0) in
       let earlier := (m1 <? m0) || ((m1 =? m0) && ((d1 <? d0) || ((d1 =? d0) &&
                        ((local_secs s1 off1 <? local_secs s0 off0)
                         || ((local_secs s1 off1 =? local_secs s0 off0) && (f1 <? f0)))))) in
       let n := yy1 - yy0 - (if earlier then 1 else 0) in
       if 0 <=? n then Some n else None).
Proof. exact dz_years_since_expanded. Qed.
Print Assumptions C08_dt_years_since.

(* NaiveDateTime: month stepping and date-field replacement act on the date and keep the time of day *)
Theorem C08_ndt_months : forall a y o n, repr y o (DateTime.nd_date a) -> in_u32 n = true ->
  DateTime.ndt_checked_add_months a n = Val (with_time_of a (shift_months y o n)) /\
  DateTime.ndt_checked_sub_months a n = Val (with_time_of a (shift_months y o (- n))).
Proof. exact ndt_add_months_spec. Qed.
Print Assumptions C08_ndt_months.
Theorem C08_ndt_with : forall a y o f x, repr y o (DateTime.nd_date a) -> 0 <= f <= 6 ->
  DateTime.ndt_with f a x = bind (d_with f (DateTime.nd_date a) x) (fun r => Val (with_time_of a r)).
Proof. exact ndt_with_spec. Qed.
Print Assumptions C08_ndt_with.

(* the neighbouring day (used by the wall-clock reading): day number +-1, nothing outside the range *)
Theorem C08_succ_pred : forall y o d, repr y o d ->
  succ_opt d = Val (if dn_in_range (dn_of_yo y o + 1) then Some (date_of_dn (dn_of_yo y o + 1)) else None) /\
  pred_opt d = Val (if dn_in_range (dn_of_yo y o - 1) then Some (date_of_dn (dn_of_yo y o - 1)) else None).
Proof. exact succ_pred_spec. Qed.
Print Assumptions C08_succ_pred.

(* ---- the property's executable statement (Judge/C08.v: written from the property text over
   Spec/Gregorian.v, imports nothing of the model) accepts the model's output on every in-domain case
   of these operations.  [denc y o] = the case encoding (y, o) of a date; [fname f] the field names
   year, month, month0, day, day0, ordinal, ordinal0 (f = 0..6); [field_arg_ok]: i32 for year, u32 else. *)
Theorem C08_holds_addm : forall y o n, year_in_range y = true -> valid_yo y o = true -> in_u32 n = true ->
  V.Judge.C08.judge (B"d8.addm") [denc y o; VInt n] (V.Model.C08.run (B"d8.addm") [denc y o; VInt n]) = JOk.
Proof. exact holds_addm. Qed.
Print Assumptions C08_holds_addm.
Theorem C08_holds_subm : forall y o n, year_in_range y = true -> valid_yo y o = true -> in_u32 n = true ->
  V.Judge.C08.judge (B"d8.subm") [denc y o; VInt n] (V.Model.C08.run (B"d8.subm") [denc y o; VInt n]) = JOk.
Proof. exact holds_subm. Qed.
Print Assumptions C08_holds_subm.
Theorem C08_holds_with : forall f y o x, 0 <= f <= 6 -> year_in_range y = true -> valid_yo y o = true ->
  V.Judge.C08.field_arg_ok f x = true ->
  V.Judge.C08.judge (B"d8.with") [VStr (fname f); denc y o; VInt x]
    (V.Model.C08.run (B"d8.with") [VStr (fname f); denc y o; VInt x]) = JOk.
Proof. exact holds_with. Qed.
Print Assumptions C08_holds_with.
Theorem C08_holds_week_bounds : forall y o w, year_in_range y = true -> valid_yo y o = true -> 0 <= w <= 6 ->
  V.Judge.C08.judge (B"d8.wfirst") [denc y o; VInt w] (V.Model.C08.run (B"d8.wfirst") [denc y o; VInt w]) = JOk /\
  V.Judge.C08.judge (B"d8.wlast") [denc y o; VInt w] (V.Model.C08.run (B"d8.wlast") [denc y o; VInt w]) = JOk.
Proof. exact holds_week_bounds. Qed.
Print Assumptions C08_holds_week_bounds.
Theorem C08_holds_nthwd : forall y m w n, in_i32 y = true -> in_u32 m = true -> 0 <= w <= 6 -> in_u8 n = true ->
  V.Judge.C08.judge (B"d8.nthwd") [VInt y; VInt m; VInt w; VInt n]
    (V.Model.C08.run (B"d8.nthwd") [VInt y; VInt m; VInt w; VInt n]) = JOk.
Proof. exact holds_nthwd. Qed.
Print Assumptions C08_holds_nthwd.
Theorem C08_holds_years : forall y1 o1 y0 o0, year_in_range y1 = true -> valid_yo y1 o1 = true ->
  year_in_range y0 = true -> valid_yo y0 o0 = true ->
  V.Judge.C08.judge (B"d8.years") [denc y1 o1; denc y0 o0] (V.Model.C08.run (B"d8.years") [denc y1 o1; denc y0 o0]) = JOk.
Proof. exact holds_years. Qed.
Print Assumptions C08_holds_years.

(* ---- NaiveWeek == NaiveWeek, != and Hash (op d8.weq: [week_eq_obs] = (==, !=, equality of the hashed
   keys)).  All (date, first weekday) pairs: where both first days are representable dates the three
   observations are equality of the first days (two weeks are equal exactly when they begin on the same
   day, and equal weeks hash equally); everywhere else the code panics (both impls call the panicking
   first_day()). *)
Theorem C08_week_eq : forall y1 o1 d1 w1 y2 o2 d2 w2, repr y1 o1 d1 -> repr y2 o2 d2 -> 0 <= w1 <= 6 -> 0 <= w2 <= 6 ->
  let f1 := week_start (dn_of_yo y1 o1) w1 in let f2 := week_start (dn_of_yo y2 o2) w2 in
  week_eq_obs (d_week d1 w1) (d_week d2 w2) =
    if dn_in_range f1 && dn_in_range f2
    then Val (VTup [val_of_bool (f1 =? f2); val_of_bool (negb (f1 =? f2)); val_of_bool (f1 =? f2)])
    else Panic.
Proof. exact week_eq_spec. Qed.
Print Assumptions C08_week_eq.
(* the exact set of inputs where the real code panics (the model is faithful there; observation of
   coverage/API_COVERAGE.md, no property text covers it): one of the two weeks begins before the first
   representable date DN_MIN = -262143-01-01 (a Thursday), i.e. the date is fewer days after DN_MIN
   than its weekday is after the chosen first weekday — six of the seven weeks containing DN_MIN *)
Theorem C08_week_eq_panics_exactly : forall y1 o1 d1 w1 y2 o2 d2 w2,
  repr y1 o1 d1 -> repr y2 o2 d2 -> 0 <= w1 <= 6 -> 0 <= w2 <= 6 ->
  (week_eq_obs (d_week d1 w1) (d_week d2 w2) = Panic <->
     week_start (dn_of_yo y1 o1) w1 < DN_MIN \/ week_start (dn_of_yo y2 o2) w2 < DN_MIN) /\
  (week_start (dn_of_yo y1 o1) w1 < DN_MIN <->
     dn_of_yo y1 o1 - DN_MIN < (weekday_of_dn (dn_of_yo y1 o1) - w1) mod 7).
Proof. exact week_eq_panics_exactly. Qed.
Print Assumptions C08_week_eq_panics_exactly.
Example C08_week_eq_examples :
  repr (-262143) 1 (mkdate (-262143) 1) /\
  week_eq_obs (d_week (mkdate (-262143) 1) 1) (d_week (mkdate (-262143) 1) 1) = Panic /\
  week_eq_obs (d_week (mkdate (-262143) 1) 3) (d_week (mkdate (-262143) 7) 3) = Val (VTup [VInt 1; VInt 0; VInt 1]) /\
  week_eq_obs (d_week (mkdate 2024 60) 0) (d_week (mkdate 2024 60) 6) = Val (VTup [VInt 0; VInt 1; VInt 0]).
Proof. exact week_eq_examples. Qed.
Print Assumptions C08_week_eq_examples.

(* ---- the deprecated NaiveDate::from_weekday_of_month: the date of the _opt form (C08_nth_weekday), the
   documented panic exactly when that is None; all (i32, u32, weekday, u8) *)
Theorem C08_nth_weekday_panicking : forall y m w n, in_i32 y = true -> in_u32 m = true -> 0 <= w <= 6 -> in_u8 n = true ->
  unwrap_r (from_weekday_of_month_opt y m w n) =
    match (if year_in_range y && (1 <=? m) && (m <=? 12) && (1 <=? n) then
             let day := 1 + (w - weekday_of_dn (dn_of_ymd y m 1)) mod 7 + 7 * (n - 1) in
             if day <=? days_in_month (is_leap y) m then Some (mk_ymd y m day) else None
           else None)
    with Some d => Val d | None => Panic end.
Proof. exact pnth_weekday_spec. Qed.
Print Assumptions C08_nth_weekday_panicking.

(* ---- NaiveDateTime + Months / - Months: the stepped date with the time of day kept, the documented
   panic exactly when the checked form (C08_ndt_months) is None *)
Theorem C08_ndt_op_months : forall a y o n, repr y o (DateTime.nd_date a) -> in_u32 n = true ->
  ndt_op_add_months a n =
    match shift_months y o n with Some d' => Val (DateTime.mk_ndt d' (DateTime.nd_time a)) | None => Panic end /\
  ndt_op_sub_months a n =
    match shift_months y o (- n) with Some d' => Val (DateTime.mk_ndt d' (DateTime.nd_time a)) | None => Panic end.
Proof. exact ndt_op_months_spec. Qed.
Print Assumptions C08_ndt_op_months.
(* ---- Datelike called directly on a NaiveDateTime (op d8.ndt.prov): quarter, year_ce, num_days_in_month,
   year, month, month0, day, day0, ordinal, ordinal0, weekday — those of the date part, no trap *)
Theorem C08_ndt_datelike : forall a y o, repr y o (DateTime.nd_date a) ->
  ndt_prov a = Val (VTup [VInt ((month_of y o - 1) / 3 + 1); val_of_bool (1 <=? y);
    VInt (if 1 <=? y then y else 1 - y); VInt (days_in_month (is_leap y) (month_of y o)); VInt y;
    VInt (month_of y o); VInt (month_of y o - 1); VInt (day_of y o); VInt (day_of y o - 1);
    VInt o; VInt (o - 1); VInt (weekday_of_dn (dn_of_yo y o))]).
Proof. exact ndt_prov_spec. Qed.
Print Assumptions C08_ndt_datelike.

(* ---- every op of the dispatcher: which model function answers it ([sh_*]: the argument decoders of
   Proofs/C08Ops.v).  d8.months_u32: Months::new(n).as_u32() is n itself for every u32. *)
Theorem C08_dispatch : forall args,
  run (B"d8.addm") args = sh_du (fun d n => val_of_R vo_date (checked_add_months d n)) args /\
  run (B"d8.subm") args = sh_du (fun d n => val_of_R vo_date (checked_sub_months d n)) args /\
  run (B"d8.opaddm") args = sh_du (fun d n => val_of_R DateTime.enc_date (d_op_add_months d n)) args /\
  run (B"d8.opsubm") args = sh_du (fun d n => val_of_R DateTime.enc_date (d_op_sub_months d n)) args /\
  run (B"d8.with") args = sh_with DateTime.dec_date (fun f d x => val_of_R vo_date (d_with f d x)) args /\
  run (B"d8.wfirst") args = sh_dw (fun d w => val_of_R vo_date (week_checked_first_day (d_week d w))) args /\
  run (B"d8.wlast") args = sh_dw (fun d w => val_of_R vo_date (week_checked_last_day (d_week d w))) args /\
  run (B"d8.week") args = sh_dw (fun d w => val_of_R (val_of_option pairv) (week_checked_days (d_week d w))) args /\
  run (B"d8.wfirstp") args = sh_dw (fun d w => val_of_R DateTime.enc_date (week_first_day (d_week d w))) args /\
  run (B"d8.wlastp") args = sh_dw (fun d w => val_of_R DateTime.enc_date (week_last_day (d_week d w))) args /\
  run (B"d8.wdaysp") args = sh_dw (fun d w => val_of_R pairv (week_days (d_week d w))) args /\
  run (B"d8.nthwd") args = sh_nth (fun y m w n => val_of_R vo_date (from_weekday_of_month_opt y m w n)) args /\
  run (B"d8.pnthwd") args = sh_nth (fun y m w n => val_of_R DateTime.enc_date (unwrap_r (from_weekday_of_month_opt y m w n))) args /\
  run (B"d8.years") args =
    match args with
    | [a; b] => match DateTime.dec_date a, DateTime.dec_date b with
        | Some d, Some base => val_of_R vo_int (years_since d base) | _, _ => VBad end
    | _ => VBad end /\
  run (B"d8.dtyears") args =
    match args with
    | [a; b] => match DateTime.dec_dtz a, DateTime.dec_dtz b with
        | Some d, Some base => val_of_R vo_int (dz_years_since d base) | _, _ => VBad end
    | _ => VBad end /\
  run (B"d8.quarter") args = sh_d1 (fun d => val_of_R VInt (d_quarter d)) args /\
  run (B"d8.yce") args = sh_d1 (fun d => val_of_R (fun p => VTup [val_of_bool (fst p); VInt (snd p)]) (d_year_ce d)) args /\
  run (B"d8.dim") args = sh_d1 (fun d => val_of_R VInt (d_num_days_in_month d)) args /\
  run (B"d8.mdays") args =
    match args with
    | [a; b] => match arg_month a, arg_i32 b with
        | Some m, Some y => val_of_R vo_int (month_num_days m y) | _, _ => VBad end
    | _ => VBad end /\
  run (B"d8.ndt.addm") args = sh_nu (fun d n => val_of_R vo_ndt (DateTime.ndt_checked_add_months d n)) args /\
  run (B"d8.ndt.subm") args = sh_nu (fun d n => val_of_R vo_ndt (DateTime.ndt_checked_sub_months d n)) args /\
  run (B"d8.ndt.with") args = sh_with DateTime.dec_ndt (fun f d x => val_of_R vo_ndt (DateTime.ndt_with f d x)) args /\
  run (B"d8.ndt.opaddm") args = sh_nu (fun d n => val_of_R DateTime.enc_ndt (ndt_op_add_months d n)) args /\
  run (B"d8.ndt.opsubm") args = sh_nu (fun d n => val_of_R DateTime.enc_ndt (ndt_op_sub_months d n)) args /\
  run (B"d8.ndt.prov") args =
    match args with
    | [a] => match DateTime.dec_ndt a with Some x => val_of_R (fun v => v) (ndt_prov x) | None => VBad end
    | _ => VBad end /\
  run (B"d8.months_u32") args =
    match args with [a] => match arg_u32 a with Some n => VInt n | None => VBad end | _ => VBad end /\
  run (B"d8.weq") args =
    match args with
    | [a; b; c; e] => match DateTime.dec_date a, arg_wd b, DateTime.dec_date c, arg_wd e with
        | Some d1, Some w1, Some d2, Some w2 => val_of_R (fun v => v) (week_eq_obs (d_week d1 w1) (d_week d2 w2))
        | _, _, _, _ => VBad end
    | _ => VBad end.
Proof. exact dispatch. Qed.
Print Assumptions C08_dispatch.

(* ---- the hypotheses are inhabited: 2024-01-31 (+1 month -> leap day), the range ends *)
Example C08_ex_repr : repr 2024 31 (mkdate 2024 31) /\ repr (-262143) 1 (mkdate (-262143) 1)
  /\ repr 262142 365 (mkdate 262142 365).
Proof. exact ex_repr. Qed.
Print Assumptions C08_ex_repr.
Example C08_ex_values :
  checked_add_months (mkdate 2024 31) 1 = Val (Some (mkdate 2024 60)) /\
  checked_add_months (mkdate 262142 365) 1 = Val None /\
  checked_add_months (mkdate 2024 31) 4294967295 = Val None /\
  with_day0 (mkdate 2024 31) 4294967295 = Val None /\
  with_year (mkdate 2024 60) 2023 = Val None /\
  week_checked_first_day (d_week (mkdate (-262143) 1) 6) = Val None /\
  week_checked_last_day (d_week (mkdate (-262143) 1) 6) = Val (Some (mkdate (-262143) 3)) /\
  from_weekday_of_month_opt 2017 3 4 2 = Val (Some (mkdate 2017 69)) /\
  years_since (mkdate 2021 59) (mkdate 2020 60) = Val (Some 0).
Proof. exact ex_values. Qed.
Print Assumptions C08_ex_values.
From V Require Proofs.HoldsLib Proofs.C08HoldsAll.

(* ---- the property's executable statement accepts the model's output on EVERY case line: all 27 ops
   of the dispatcher and arbitrary argument lists (not only canonical encodings).  Whenever the judge
   has an opinion (its verdict is not "skip", i.e. the arguments are in the property's domain) the
   verdict is "ok".  No side premise: every argument list the judge reads is decoded by the
   dispatcher too (the judge's decoders are not lazier than the model's), and an unknown op name is
   skipped. *)
Theorem C08_holds : forall op args,
  V.Judge.C08.judge op args (V.Model.C08.run op args) <> JSkip ->
  V.Judge.C08.judge op args (V.Model.C08.run op args) = JOk.
Proof. exact C08HoldsAll.C08_holds. Qed.
Print Assumptions C08_holds.
Theorem C08_never_bad : forall op args,
  V.Proofs.HoldsLib.not_bad (V.Judge.C08.judge op args (V.Model.C08.run op args)).
Proof. exact C08HoldsAll.C08_never_bad. Qed.
Print Assumptions C08_never_bad.
(* not vacuous: in-domain case lines with a date, nothing and a panic as results, a zone-aware and a
   naive date-time case at the ends of the time-of-day range, a week comparison; and case lines
   outside the domain (ordinal 366 of a common year, a malformed argument, an unknown op) where the
   judge has no opinion.  [dtenc y o s f off] = (y, o, s, f, off), [ndtenc y o s f] = (y, o, s, f). *)
Example C08_holds_examples :
  V.Judge.C08.judge (B"d8.addm") [denc 2024 31; VInt 1] (V.Model.C08.run (B"d8.addm") [denc 2024 31; VInt 1]) = JOk /\
  V.Model.C08.run (B"d8.addm") [denc 2024 31; VInt 1] = VSome (denc 2024 60) /\
  V.Judge.C08.judge (B"d8.opaddm") [denc 262142 365; VInt 1] (V.Model.C08.run (B"d8.opaddm") [denc 262142 365; VInt 1]) = JOk /\
  V.Model.C08.run (B"d8.opaddm") [denc 262142 365; VInt 1] = VPanic /\
  V.Judge.C08.judge (B"d8.dtyears") [C08HoldsAll.dtenc 2021 59 86399 1999999999 3600; C08HoldsAll.dtenc 2020 60 0 0 3600]
    (V.Model.C08.run (B"d8.dtyears") [C08HoldsAll.dtenc 2021 59 86399 1999999999 3600; C08HoldsAll.dtenc 2020 60 0 0 3600]) = JOk /\
  V.Judge.C08.judge (B"d8.ndt.with") [VStr (B"day0"); C08HoldsAll.ndtenc 2024 31 86399 1999999999; VInt 4294967295]
    (V.Model.C08.run (B"d8.ndt.with") [VStr (B"day0"); C08HoldsAll.ndtenc 2024 31 86399 1999999999; VInt 4294967295]) = JOk /\
  V.Judge.C08.judge (B"d8.weq") [denc 2024 60; VInt 0; denc 2024 60; VInt 6]
    (V.Model.C08.run (B"d8.weq") [denc 2024 60; VInt 0; denc 2024 60; VInt 6]) = JOk /\
  V.Judge.C08.judge (B"d8.addm") [denc 2023 366; VInt 1] (V.Model.C08.run (B"d8.addm") [denc 2023 366; VInt 1]) = JSkip /\
  V.Model.C08.run (B"d8.addm") [denc 2023 366; VInt 1] = VBad /\
  V.Judge.C08.judge (B"d8.addm") [VNone] (V.Model.C08.run (B"d8.addm") [VNone]) = JSkip /\
  V.Judge.C08.judge (B"d8.nosuchop") [] (V.Model.C08.run (B"d8.nosuchop") []) = JSkip.
Proof. exact C08HoldsAll.C08_holds_examples. Qed.
Print Assumptions C08_holds_examples.
