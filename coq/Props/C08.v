(** C08 — Month stepping, field replacement and week helpers follow calendar rules.
    Property theorems only: each is closed by [exact] of a lemma from Proofs/C08.v (or
    Proofs/C08Date.v) and followed by [Print Assumptions].
    [repr y o d]: the date word [d] of the model is the date with year [y] (in MIN_YEAR..MAX_YEAR) and
    day-of-year [o] (1..length of the year) — the pair the case protocol uses as the canonical encoding
    of a date.  [month_of y o], [day_of y o] are the calendar's month and day of month of that date
    (Spec/Gregorian.v).  Model functions are the line-by-line transcriptions of the Rust in
    Model/Date.v and Model/DateExtra.v with trapping integer arithmetic ([Val]/[Panic]). *)
From Coq Require Import ZArith List Bool.
From V Require Import Base.Int Base.IO Spec.Gregorian Model.Date Model.DateExtra
  Proofs.C08Sweeps Proofs.C08Date Proofs.C08.
Open Scope Z_scope.

(* the accessors of a date agree with the calendar; none of them traps *)
Theorem C08_accessors : forall y o d, repr y o d ->
  d_year d = y /\ d_ordinal d = o /\ d_month d = Val (month_of y o) /\ d_day d = Val (day_of y o) /\
  d_weekday d = Val (weekday_of_dn (dn_of_yo y o)) /\ d_leap_year d = is_leap y /\
  1 <= month_of y o <= 12 /\ 1 <= day_of y o <= days_in_month (is_leap y) (month_of y o) /\
  ordinal_of_md (is_leap y) (month_of y o) (day_of y o) = o.
Proof. exact repr_md. Qed.
Print Assumptions C08_accessors.

Theorem C08_year_ce : forall y o d, repr y o d ->
  d_year_ce d = Val (if 1 <=? y then (true, y) else (false, 1 - y)).
Proof. exact year_ce_spec. Qed.
Print Assumptions C08_year_ce.

Theorem C08_quarter : forall y o d, repr y o d ->
  d_quarter d = Val ((month_of y o - 1) / 3 + 1) /\ 1 <= (month_of y o - 1) / 3 + 1 <= 4.
Proof. exact quarter_spec. Qed.
Print Assumptions C08_quarter.
