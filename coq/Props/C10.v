(** C10 -- RFC 3339 output is conformant and input acceptance is exact (theorems only).

    Strings are byte lists; [utf8_valid] is well-formedness (what a Rust [&str] guarantees).
    Model functions are the line-by-line transcriptions of chrono in Model/Scan.v and
    Model/Rfc3339.v on top of Model/Date.v, Model/Time.v, Model/DateTime.v ([Val] = returns,
    [Panic] = traps; [POk]/[PErr] = Ok/Err of a ParseResult).
    The grammar is Spec/Rfc3339.v, written from RFC 3339 section 5.6 and the crate documentation:
    [render f] generates the string of fields [f]; [G3339 f s := wf f = true /\ s = render f];
    [recognise]/[accepts] is the executable recogniser with the semantic validity [valid] and the
    denotation [denote] (UTC reading (year, ordinal, second of day, nanosecond field), offset).
    [tuple_of a] reads the same five numbers off a model DateTime<FixedOffset>.
    A value of the case protocol [value y o secs frac off] is decoded by [dec_dtz] exactly as the
    harness decodes it (NaiveDate::from_yo_opt etc.). *)
From Coq Require Import ZArith List Bool String.
From V Require Import Base.Int Base.IO Base.Utf8 Model.Scan Model.DateTime Model.C10 Spec.Gregorian Spec.Rfc3339
  Proofs.Utf8 Proofs.Scan Proofs.C10 Proofs.C10Writer Proofs.C10Main Proofs.C10Holds.
From V Require Judge.C10.
Import ListNotations.
Open Scope Z_scope.

(** ** Reader: exact acceptance over ALL well-formed UTF-8 strings, never a trap.
    The result is [Ok] of exactly the denoted value when the string is in the grammar and its
    fields are valid, and an error value otherwise. *)
Theorem C10_accept_exact : forall s, utf8_valid s = true ->
  exists r, parse_from_rfc3339 s = Val r /\
    match accepts s with
    | Some v => exists a, r = POk a /\ tuple_of a = v
    | None => exists e, r = PErr e
    end.
Proof. exact accept_exact. Qed.
Print Assumptions C10_accept_exact.

Theorem C10_parse_never_traps : forall s, utf8_valid s = true -> exists r, parse_from_rfc3339 s = Val r.
Proof. exact parse_never_traps. Qed.
Print Assumptions C10_parse_never_traps.

(* the scanning phase alone: slice safety (every [&s[i..]] is on a char boundary) *)
Theorem C10_scan_never_traps : forall s, utf8_valid s = true -> parse_rfc3339 parsed_new s = Val (scan_pure s).
Proof. exact parse_rfc3339_ok. Qed.
Print Assumptions C10_scan_never_traps.

(* the recogniser accepts what the grammar generates *)
Theorem C10_recognise_render : forall f, wf f = true -> recognise (render f) = Some f.
Proof. exact recognise_render. Qed.
Print Assumptions C10_recognise_render.

(** ** Writer: for every date-time with wall-clock year 0..9999 and a whole-minute offset, each of the
    five precisions and both use_z: the output is the string of the grammar (strict form) whose
    fields are the wall-clock fields of the value ([fields_of]: sub-seconds truncated to the printed
    precision), 'Z' exactly when requested and the offset is zero, the offset exactly; it denotes
    the value truncated to the printed precision. *)
Theorem C10_writer_in_grammar : forall y o secs frac off sf uz a,
  dec_dtz (value y o secs frac off) = Some a -> writer_domain y o secs frac off sf ->
  let f := fields_of y o secs frac off sf uz in
  to_rfc3339_opts a sf uz = Val (render f) /\ G3339 f (render f) /\ valid f = true /\ strict f = true /\
  (match f_zone f with Zulu _ => uz = true /\ off = 0 | Numeric _ _ _ => ~ (uz = true /\ off = 0) end) /\
  zone_offset (f_zone f) = off /\
  denote f = (y, o, secs, truncated_frac sf frac, off).
Proof. exact writer_in_grammar. Qed.
Print Assumptions C10_writer_in_grammar.

(** ** Round trip: parse (write v) = Ok v, to the printed precision *)
Theorem C10_roundtrip : forall y o secs frac off sf uz a,
  dec_dtz (value y o secs frac off) = Some a -> writer_domain y o secs frac off sf ->
  exists t a', to_rfc3339_opts a sf uz = Val t /\ parse_from_rfc3339 t = Val (POk a') /\
               tuple_of a' = (y, o, secs, truncated_frac sf frac, off).
Proof. exact roundtrip. Qed.
Print Assumptions C10_roundtrip.

(** ** Reusable scanner lemmas (shared with C09, C11, C13, C14, C15) *)
(* slicing a well-formed string after a prefix that ends at a scalar-value boundary never traps *)
Theorem C10_slice_safe : forall a b, starts_ok b = true -> str_from (a ++ b) (blen a) = Val b.
Proof. exact str_from_app. Qed.
Print Assumptions C10_slice_safe.
(* scan::number never traps on well-formed UTF-8 and equals its slicing-free reading *)
Theorem C10_number_total : forall s min max, utf8_valid s = true -> 0 <= min <= max ->
  number s min max = Val (number_pure s min max).
Proof. exact number_ok. Qed.
Print Assumptions C10_number_total.
(* scan::number on printed digits returns the rest and the value *)
Theorem C10_number_on_digits : forall ds rest min max,
  forallb is_ascii_digit ds = true -> utf8_valid rest = true ->
  0 <= min <= blen ds -> blen ds <= max ->
  (blen ds < max -> not_digit_start rest = true) -> digits_value ds 0 <= i64_max ->
  number (ds ++ rest) min max = Val (POk (rest, digits_value ds 0)).
Proof. exact number_on_digits. Qed.
Print Assumptions C10_number_on_digits.
(* scan::nanosecond: at least one digit, first nine scaled to nanoseconds, the rest skipped *)
Theorem C10_nanosecond_total : forall s, utf8_valid s = true -> nanosecond s = Val (nanosecond_pure s).
Proof. exact nanosecond_ok. Qed.
Print Assumptions C10_nanosecond_total.
(* scan::timezone_offset with mandatory colon, Z/z and U+2212 allowed *)
Theorem C10_timezone_offset_total : forall s, utf8_valid s = true ->
  timezone_offset s (fun s => char s 58) true false true = Val (tz_colon_pure s).
Proof. exact timezone_offset_colon_ok. Qed.
Print Assumptions C10_timezone_offset_total.
(* OffsetFormat { Minutes, Colon, Pad::Zero }.format on whole-minute offsets *)
Theorem C10_offset_format : forall w off use_z, -86400 < off < 86400 -> off mod 60 = 0 ->
  offset_format_format (mk_of 1 1 use_z 1) w off = Val (Some (w ++ render_zone (zone_of off use_z))).
Proof. exact offset_format_rfc3339. Qed.
Print Assumptions C10_offset_format.
Theorem C10_write_hundreds : forall w n, 0 <= n < 100 -> write_hundreds w n = Some (w ++ two n).
Proof. exact write_hundreds_spec. Qed.
Print Assumptions C10_write_hundreds.

(** ** Exact acceptance in relational form: Ok v <-> exists fields, G3339 fields s /\ valid /\ v = denote *)
Theorem C10_accept_exact_rel : forall s, utf8_valid s = true ->
  (forall a, parse_from_rfc3339 s = Val (POk a) ->
     exists f, G3339 f s /\ valid f = true /\ tuple_of a = denote f) /\
  (forall f, G3339 f s -> valid f = true ->
     exists a, parse_from_rfc3339 s = Val (POk a) /\ tuple_of a = denote f) /\
  ((forall f, G3339 f s -> valid f = false) -> exists e, parse_from_rfc3339 s = Val (PErr e)).
Proof. exact accept_exact_rel. Qed.
Print Assumptions C10_accept_exact_rel.

(* the executable recogniser decides the generator relation *)
Theorem C10_recognise_iff : forall s f, recognise s = Some f <-> G3339 f s.
Proof. exact recognise_iff. Qed.
Print Assumptions C10_recognise_iff.

(* scan::timezone_offset (mandatory colon, Z allowed) inverts OffsetFormat::format *)
Theorem C10_timezone_offset_inverts_format : forall w off use_z rest,
  -86400 < off < 86400 -> off mod 60 = 0 -> utf8_valid rest = true ->
  exists t, offset_format_format (mk_of 1 1 use_z 1) w off = Val (Some (w ++ t)) /\
            timezone_offset (t ++ rest) (fun s => char s 58) true false true = Val (POk (rest, off)).
Proof. exact timezone_offset_inverts_format. Qed.
Print Assumptions C10_timezone_offset_inverts_format.

(* DateTime::to_rfc3339 (AutoSi, no Z) *)
Theorem C10_to_rfc3339 : forall y o secs frac off a,
  dec_dtz (value y o secs frac off) = Some a -> writer_domain y o secs frac off 4 ->
  to_rfc3339 a = Val (render (fields_of y o secs frac off 4 false)).
Proof. exact to_rfc3339_main. Qed.
Print Assumptions C10_to_rfc3339.

(* hypotheses are inhabited *)
Example C10_roundtrip_example :
  exists a, dec_dtz (value 1996 354 2397 500000000 (-28800)) = Some a /\ writer_domain 1996 354 2397 500000000 (-28800) 4 /\
  render (fields_of 1996 354 2397 500000000 (-28800) 4 true) = B"1996-12-18T16:39:57.500-08:00".
Proof. exact roundtrip_example. Qed.
Print Assumptions C10_roundtrip_example.
Example C10_accept_example : accepts B"1990-12-31T23:59:60Z" = Some (1990, 365, 86399, 1000000000, 0)
  /\ accepts B"2015-02-18T23:16:09+24:00" = None /\ utf8_valid B"1990-12-31T23:59:60Z" = true.
Proof. exact accept_example. Qed.
Print Assumptions C10_accept_example.

(** ** Every dispatcher op (coverage/OPS_THEOREMS_C10.md) *)
(* which model function answers each of the four ops of [Model.C10.run]; an argument list of another
   shape, a value that does not decode, a precision outside 0..4 or a flag outside 0/1 is BADARGS *)
Theorem C10_dispatch : forall args,
  run (B"r3.parse") args =
    match args with [VStr s] => if utf8_valid s then r3_parse s else VBad | _ => VBad end /\
  run (B"r3.write") args =
    match args with
    | [z; VInt sf; VInt uz] =>
        match dec_dtz z with
        | Some a => if (0 <=? sf) && (sf <=? 4) && ((uz =? 0) || (uz =? 1))
                    then val_of_R VStr (to_rfc3339_opts a sf (uz =? 1)) else VBad
        | None => VBad end
    | _ => VBad end /\
  run (B"r3.show") args =
    match args with [z] => match dec_dtz z with Some a => val_of_R VStr (to_rfc3339 a) | None => VBad end | _ => VBad end /\
  run (B"r3.rt") args =
    match args with
    | [z; VInt sf; VInt uz] =>
        match dec_dtz z with
        | Some a => if (0 <=? sf) && (sf <=? 4) && ((uz =? 0) || (uz =? 1))
                    then r3_rt a sf (uz =? 1) else VBad
        | None => VBad end
    | _ => VBad end.
Proof. exact dispatch. Qed.
Print Assumptions C10_dispatch.

(* DateTime::to_rfc3339 is to_rfc3339_opts(SecondsFormat::AutoSi, false), for EVERY value (any year,
   any offset, also where either traps): op r3.show is op r3.write with arguments 4 0 *)
Theorem C10_to_rfc3339_is_opts : forall a, to_rfc3339 a = to_rfc3339_opts a 4 false.
Proof. exact to_rfc3339_is_opts. Qed.
Print Assumptions C10_to_rfc3339_is_opts.
Theorem C10_show_is_write : forall z, run (B"r3.show") [z] = run (B"r3.write") [z; VInt 4; VInt 0].
Proof. exact show_is_write. Qed.
Print Assumptions C10_show_is_write.

(* op r3.rt is the reader applied to the writer's text, wherever the writer returns *)
Theorem C10_rt_is_parse_of_write : forall z sf uz t,
  run (B"r3.write") [z; VInt sf; VInt uz] = VStr t -> utf8_valid t = true ->
  run (B"r3.rt") [z; VInt sf; VInt uz] = run (B"r3.parse") [VStr t].
Proof. exact rt_is_parse_of_write. Qed.
Print Assumptions C10_rt_is_parse_of_write.

(* the reader's target is DateTime<FixedOffset> (the only parse_from_rfc3339 of chrono 0.4.40); the
   DateTime<Utc> reading of a result ([.with_timezone(&Utc)], what `s.parse::<DateTime<Utc>>()` does)
   is the same instant with offset 0 *)
Theorem C10_parse_utc_target : forall a y o s f off, tuple_of a = (y, o, s, f, off) ->
  tuple_of (with_timezone a 0) = (y, o, s, f, 0).
Proof. exact parse_utc_target. Qed.
Print Assumptions C10_parse_utc_target.

(** ** C10_holds: the property as the independent judge states it (Judge/C10.v: the recogniser of
    Spec/Rfc3339.v, Spec/Gregorian.v; imports nothing of the model) holds of the model on EVERY case
    line of all four ops -- every byte string for r3.parse (not UTF-8: outside the domain), every
    value / precision / flag for the writer ops: whenever the judge has an opinion it accepts the
    model's output.  No side condition. *)
Theorem C10_holds : forall op args,
  Judge.C10.judge op args (run op args) <> JSkip -> Judge.C10.judge op args (run op args) = JOk.
Proof. exact C10_holds. Qed.
Print Assumptions C10_holds.
(* the judge does have an opinion on each op (accepted string, refused string, the three writer ops) *)
Example C10_holds_inhabited :
  Judge.C10.judge (B"r3.parse") [VStr (B"1990-12-31T23:59:60Z")] (run (B"r3.parse") [VStr (B"1990-12-31T23:59:60Z")]) = JOk /\
  Judge.C10.judge (B"r3.parse") [VStr (B"2015-02-18T23:16:09+24:00")] (run (B"r3.parse") [VStr (B"2015-02-18T23:16:09+24:00")]) = JOk /\
  (let z := value 1996 354 2397 500000000 (-28800) in
   Judge.C10.judge (B"r3.write") [z; VInt 4; VInt 1] (run (B"r3.write") [z; VInt 4; VInt 1]) = JOk /\
   Judge.C10.judge (B"r3.show") [z] (run (B"r3.show") [z]) = JOk /\
   Judge.C10.judge (B"r3.rt") [z; VInt 1; VInt 0] (run (B"r3.rt") [z; VInt 1; VInt 0]) = JOk).
Proof. exact holds_examples. Qed.
Print Assumptions C10_holds_inhabited.
