(** C10 -- RFC 3339 output is conformant and input acceptance is exact (theorems only).
    Strings are byte lists; [utf8_valid] is well-formedness (what a Rust [&str] guarantees);
    model functions are the line-by-line transcriptions in Model/Scan.v and Model/Rfc3339.v
    ([Val]/[Panic] = returns / traps). *)
From Coq Require Import ZArith List Bool.
From V Require Import Base.Int Base.IO Base.Utf8 Model.Scan Model.C10 Spec.Rfc3339
  Proofs.Utf8 Proofs.Scan Proofs.C10.
Import ListNotations.
Open Scope Z_scope.

(* slicing a well-formed string after a prefix that ends at a scalar-value boundary never traps *)
Theorem C10_slice_safe : forall a b, starts_ok b = true -> str_from (a ++ b) (blen a) = Val b.
Proof. exact str_from_app. Qed.
Print Assumptions C10_slice_safe.

(* scan::number never traps on well-formed UTF-8 and equals its slicing-free reading *)
Theorem C10_number_total : forall s min max, utf8_valid s = true -> 0 <= min <= max ->
  number s min max = Val (number_pure s min max).
Proof. exact number_ok. Qed.
Print Assumptions C10_number_total.

(* scan::number on printed digits returns the rest and the value *)
Theorem C10_number_on_digits : forall ds rest min max,
  forallb is_ascii_digit ds = true -> utf8_valid rest = true ->
  0 <= min <= blen ds -> blen ds <= max ->
  (blen ds < max -> not_digit_start rest = true) -> digits_value ds 0 <= i64_max ->
  number (ds ++ rest) min max = Val (POk (rest, digits_value ds 0)).
Proof. exact number_on_digits. Qed.
Print Assumptions C10_number_on_digits.

Theorem C10_write_hundreds : forall w n, 0 <= n < 100 -> write_hundreds w n = Some (w ++ two n).
Proof. exact write_hundreds_spec. Qed.
Print Assumptions C10_write_hundreds.
