(** C10 -- RFC 3339 output is conformant and input acceptance is exact (theorems only). *)
From Coq Require Import ZArith List Bool.
From V Require Import Base.Int Base.IO Base.Utf8 Model.Scan Model.C10 Spec.Rfc3339 Proofs.C10.
Import ListNotations.
Open Scope Z_scope.

Theorem C10_write_hundreds : forall w n, 0 <= n < 100 -> write_hundreds w n = Some (w ++ two n).
Proof. exact write_hundreds_spec. Qed.
Print Assumptions C10_write_hundreds.
