(** C11 -- RFC 2822 output round-trips and obsolete forms are read as specified (theorems only).
    Strings are byte lists; [utf8_valid] is well-formedness (what a Rust [&str] guarantees);
    model functions are the line-by-line transcriptions in Model/Scan.v and Model/Rfc2822.v
    ([Val]/[Panic] = returns / traps); the specification is Spec/Rfc2822.v. *)
From Coq Require Import ZArith List Bool String.
From V Require Model.Date Model.Time.
From V Require Import Base.Int Base.IO Base.Utf8 Model.Scan Model.DateTime Model.C11 Spec.Rfc2822
  Proofs.Utf8 Proofs.Scan Proofs.C11.
Import ListNotations.
Open Scope Z_scope.

(* the year-length rule of the reader is the rule of RFC 2822 section 4.3, for every digit count
   and every value that many digits can write *)
Theorem C11_year_rule : forall yearlen year,
  2 <= yearlen -> 0 <= year < 10 ^ yearlen -> year <= i64_max - 2000 ->
  year_rule yearlen year = Val (year_rule_spec yearlen year).
Proof. exact year_rule_ok. Qed.
Print Assumptions C11_year_rule.

(* scan::comment_2822 never traps on a well-formed string (of a length a Rust string can have) and
   is the parenthesis-counting state machine [cpure] applied after trim_start *)
Theorem C11_comment_total : forall s, utf8_valid s = true -> blen s <= u64_max ->
  comment_2822 s = Val (comment_pure s).
Proof. exact comment_2822_ok. Qed.
Print Assumptions C11_comment_total.

(* comment_spec: the comment scanner accepts exactly balanced parenthesised text with backslash
   escapes (Spec/Rfc2822.v [ccontent]: any byte but "(" ")" "\", "\" followed by any byte, nested
   comments) after optional white space, and returns what follows the closing parenthesis *)
Theorem C11_comment_spec : forall s rest, utf8_valid s = true -> blen s <= u64_max ->
  (comment_2822 s = Val (POk (rest, tt)) <-> exists a, ccontent a /\ trim_start s = 40 :: a ++ 41 :: rest).
Proof. exact comment_exact. Qed.
Print Assumptions C11_comment_spec.
Example C11_comment_spec_inhabited :
  comment_2822 (B" (a(b\)c)d) x") = Val (POk (B" x", tt)).
Proof. vm_compute. reflexivity. Qed.
Print Assumptions C11_comment_spec_inhabited.

(* outside wall-clock years 0..9999 the writer reports fmt::Error and to_rfc2822 panics, as documented *)
Theorem C11_writer_year_panic : forall a naive, overflowing_naive_local a = Val naive ->
  ~ (0 <= Date.d_year (nd_date naive) <= 9999) -> to_rfc2822 a = Panic.
Proof. exact to_rfc2822_panics. Qed.
Print Assumptions C11_writer_year_panic.
