(** C11 -- RFC 2822 output round-trips and obsolete forms are read as specified (theorems only).
    Strings are byte lists; [utf8_valid] is well-formedness (what a Rust [&str] guarantees);
    model functions are the line-by-line transcriptions in Model/Scan.v and Model/Rfc2822.v
    ([Val]/[Panic] = returns / traps); the specification is Spec/Rfc2822.v. *)
From Coq Require Import ZArith List Bool.
From V Require Import Base.Int Base.IO Base.Utf8 Model.Scan Model.C11 Spec.Rfc2822
  Proofs.Utf8 Proofs.Scan Proofs.C11.
Import ListNotations.
Open Scope Z_scope.

(* the year-length rule of the reader is the rule of RFC 2822 section 4.3, for every digit count
   and every value that many digits can write *)
Theorem C11_year_rule : forall yearlen year,
  2 <= yearlen -> 0 <= year < 10 ^ yearlen -> year <= i64_max - 2000 ->
  year_rule yearlen year = Val (year_rule_spec yearlen year).
Proof. exact year_rule_ok. Qed.
Print Assumptions C11_year_rule.
