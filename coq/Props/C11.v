(** C11 -- RFC 2822 output round-trips and obsolete forms are read as specified (theorems only).
    Strings are byte lists; [utf8_valid] is well-formedness (what a Rust [&str] guarantees);
    model functions are the line-by-line transcriptions in Model/Scan.v and Model/Rfc2822.v
    ([Val]/[Panic] = returns / traps); the specification is Spec/Rfc2822.v. *)
From Coq Require Import ZArith List Bool String.
From V Require Model.Date Model.Time.
From V Require Model.Parsed.
From V Require Import Base.Int Base.IO Base.Utf8 Model.Scan Model.DateTime Model.C11 Spec.Rfc2822 Judge.C11
  Spec.Gregorian Proofs.C08Sweeps Proofs.C04 Proofs.Utf8 Proofs.Scan Proofs.C11 Proofs.C11Scan Proofs.C11Resolve Proofs.C11Reader Proofs.C11Write Proofs.C11Roundtrip Proofs.C11RoundtripThm.
From V Require Proofs.C14 Proofs.C13Safe.
From V Require Import Proofs.C11Total.
From V Require Import Spec.Rfc2822Lenient Proofs.C11Sound Proofs.C11ResolveInv Proofs.C11Exact Proofs.C11Holds Proofs.C11Lenient.
Import ListNotations.
Open Scope Z_scope.

(* the year-length rule of the reader is the rule of RFC 2822 section 4.3, for every digit count
   and every value that many digits can write *)
Theorem C11_year_rule : forall yearlen year,
  2 <= yearlen -> 0 <= year < 10 ^ yearlen -> year <= i64_max - 2000 ->
  year_rule yearlen year = Val (year_rule_spec yearlen year).
Proof. exact year_rule_ok. Qed.
Print Assumptions C11_year_rule.

(* scan::comment_2822 never traps on a well-formed string (of a length a Rust string can have) and
   is the parenthesis-counting state machine [cpure] applied after trim_start *)
Theorem C11_comment_total : forall s, utf8_valid s = true -> blen s <= u64_max ->
  comment_2822 s = Val (comment_pure s).
Proof. exact comment_2822_ok. Qed.
Print Assumptions C11_comment_total.

(* comment_spec: the comment scanner accepts exactly balanced parenthesised text with backslash
   escapes (Spec/Rfc2822.v [ccontent]: any byte but "(" ")" "\", "\" followed by any byte, nested
   comments) after optional white space, and returns what follows the closing parenthesis *)
Theorem C11_comment_spec : forall s rest, utf8_valid s = true -> blen s <= u64_max ->
  (comment_2822 s = Val (POk (rest, tt)) <-> exists a, ccontent a /\ trim_start s = 40 :: a ++ 41 :: rest).
Proof. exact comment_exact. Qed.
Print Assumptions C11_comment_spec.
Example C11_comment_spec_inhabited :
  comment_2822 (B" (a(b\)c)d) x") = Val (POk (B" x", tt)).
Proof. vm_compute. reflexivity. Qed.
Print Assumptions C11_comment_spec_inhabited.

(* outside wall-clock years 0..9999 the writer reports fmt::Error and to_rfc2822 panics, as documented *)
Theorem C11_writer_year_panic : forall a naive, overflowing_naive_local a = Val naive ->
  ~ (0 <= Date.d_year (nd_date naive) <= 9999) -> to_rfc2822 a = Panic.
Proof. exact to_rfc2822_panics. Qed.
Print Assumptions C11_writer_year_panic.

(* reader_complete, scanning half: a string of the generator grammar (Spec/Rfc2822.v [recognise]:
   optional day of week, 1-2 digit day, month name, 2/3/4+ digit year, hh:mm[:ss] with white space
   allowed around the colons, numeric / named / military zone, trailing comments, folding white
   space between the tokens, any letter case) with valid fields is scanned completely, without a
   trap, and sets exactly the fields of the specification (year by the RFC 2822 year-length rule) *)
Theorem C11_reader_scan_complete : forall s f, utf8_valid s = true -> blen s <= u64_max ->
  recognise s = Some f -> valid f = true -> Spec.Gregorian.year_in_range (year_of f) = true ->
  parse_items_rfc2822 Parsed.parsed_new s = Val (POk (parsed_of f)).
Proof. exact scan_complete. Qed.
Print Assumptions C11_reader_scan_complete.

(* reader_complete: ... and the result of DateTime::parse_from_rfc2822 is exactly the denoted value
   (UTC reading, leap-second representation for :60, offset), printed in the case protocol.
   (The same over the larger lenient grammar: C11_reader_complete_lenient below.) *)
Theorem C11_reader_complete : forall s f, utf8_valid s = true -> blen s <= u64_max ->
  recognise s = Some f -> valid f = true -> weekday_ok f = true -> representable f = true ->
  r2_parse s = enc5 (denote f).
Proof. exact reader_complete. Qed.
Print Assumptions C11_reader_complete.
Example C11_reader_complete_inhabited :
  let s := B"Thu,  13 feb 69 23:32 : 60  -0330 (Newfoundland \(Time\))" in
  utf8_valid s = true /\ (exists f, recognise s = Some f /\ valid f = true /\ weekday_ok f = true /\ representable f = true)
  /\ r2_parse s = VTup [VInt 1969; VInt 45; VInt 10979; VInt 1000000000; VInt (-12600)].
Proof.
  cbv zeta. split; [vm_compute; reflexivity|]. split; [|vm_compute; reflexivity].
  exists (mk_fields (Some 3) 13 2 2 69 23 32 (Some 60) (ZNum true 3 30)).
  repeat split; vm_compute; reflexivity.
Qed.
Print Assumptions C11_reader_complete_inhabited.

(* weekday_contradiction_rejected: a day of week that is not the day of week of the date is refused *)
Theorem C11_weekday_contradiction_rejected : forall s f, utf8_valid s = true -> blen s <= u64_max ->
  recognise s = Some f -> valid f = true -> weekday_ok f = false -> representable f = true ->
  r2_parse s = VErr (perr_name Impossible).
Proof. exact weekday_contradiction_rejected. Qed.
Print Assumptions C11_weekday_contradiction_rejected.
Example C11_weekday_contradiction_inhabited :
  r2_parse (B"Fri, 13 Feb 1969 23:32:54 -0330") = VErr (perr_name Impossible).
Proof. vm_compute. reflexivity. Qed.
Print Assumptions C11_weekday_contradiction_inhabited.

(* the judge of the check and the theorems say the same: on every string of the grammar with valid,
   representable fields the judge accepts the model's output *)
Theorem C11_judge_accepts_reader : forall s f, utf8_valid s = true -> blen s <= u64_max ->
  recognise s = Some f -> valid f = true -> representable f = true ->
  judge_parse s (r2_parse s) = JOk.
Proof. exact judge_accepts_reader. Qed.
Print Assumptions C11_judge_accepts_reader.

(* the executable comment recogniser of the specification is the relation [ccontent] *)
Theorem C11_spec_comment_exact : forall s rest,
  comment_rest s = Some rest <-> exists a, ccontent a /\ s = 40 :: a ++ 41 :: rest.
Proof. exact comment_rest_exact. Qed.
Print Assumptions C11_spec_comment_exact.

(* writer_shape: for every date-time (valid date word [d] of year y / ordinal o, time of day [t] with
   any leap-second field, offset below 24 h) with a whole-minute offset and wall-clock year 0..9999,
   DateTime::to_rfc2822 returns exactly "Www, D Mon YYYY HH:MM:SS +hhmm" of the wall clock: the day
   of week of the calendar (Spec/Gregorian.v weekday_of_dn), unpadded day, leap second as :60 *)
Theorem C11_writer_shape : forall y o d t off, repr y o d -> time_ok t -> -86400 < off < 86400 -> off mod 60 = 0 ->
  0 <= fst (yo_of_dn (wall_dn y o (Time.tsecs t) off)) <= 9999 ->
  to_rfc2822 (mk_dtz (mk_ndt d t) off) = Val (standard_text false y o (Time.tsecs t) (Time.tfrac t) off).
Proof. exact writer_shape. Qed.
Print Assumptions C11_writer_shape.
Example C11_writer_shape_inhabited :
  match dec_dtz (VTup [VInt 2003; VInt 182; VInt 31957; VInt 0; VInt 7200]) with
  | Some a => to_rfc2822 a = Val (B"Tue, 1 Jul 2003 10:52:37 +0200")
  | None => False end.
Proof. vm_compute. reflexivity. Qed.
Print Assumptions C11_writer_shape_inhabited.

(* outside wall-clock years 0..9999 (wall clock still a supported date): the documented panic *)
Theorem C11_writer_panics : forall y o d t off, repr y o d -> time_ok t -> -86400 < off < 86400 ->
  dn_in_range (wall_dn y o (Time.tsecs t) off) = true ->
  ~ (0 <= fst (yo_of_dn (wall_dn y o (Time.tsecs t) off)) <= 9999) ->
  to_rfc2822 (mk_dtz (mk_ndt d t) off) = Panic.
Proof. exact writer_panics. Qed.
Print Assumptions C11_writer_panics.

(* roundtrip: for every date-time with a whole-minute offset, wall-clock year 0..9999 and a
   leap-second field only on second 59, DateTime::parse_from_rfc2822(&dt.to_rfc2822()) is dt to whole
   seconds: same UTC reading, the leap second preserved ([whole]: 10^9 iff the field is >= 10^9),
   same offset *)
Theorem C11_roundtrip : forall y o d t off, repr y o d -> time_ok t ->
  (Time.tfrac t < 1000000000 \/ Time.tsecs t mod 60 = 59) ->
  -86400 < off < 86400 -> off mod 60 = 0 ->
  0 <= fst (yo_of_dn (wall_dn y o (Time.tsecs t) off)) <= 9999 ->
  r2_rt (mk_dtz (mk_ndt d t) off) = enc5 (y, o, Time.tsecs t, whole (Time.tfrac t), off).
Proof. exact roundtrip. Qed.
Print Assumptions C11_roundtrip.
Example C11_roundtrip_inhabited :
  match dec_dtz (VTup [VInt 2016; VInt 366; VInt 86399; VInt 1999999999; VInt (-3600)]) with
  | Some a => r2_rt a = VTup [VInt 2016; VInt 366; VInt 86399; VInt 1000000000; VInt (-3600)]
  | None => False end.
Proof. vm_compute. reflexivity. Qed.
Print Assumptions C11_roundtrip_inhabited.

(* the specification's own round trip: the reader grammar reads every standard form (all day and
   month names, one- and two-digit days, years 0000..9999, :60) back as the fields it was written from *)
Theorem C11_spec_reads_standard_form : forall wd ld lm ly h mi sec neg hh mm,
  0 <= wd <= 6 -> 1 <= ld <= 31 -> 1 <= lm <= 12 -> 0 <= ly <= 9999 -> 0 <= h <= 99 -> 0 <= mi <= 99 -> 0 <= sec <= 99 ->
  0 <= hh <= 99 -> 0 <= mm <= 99 ->
  recognise (std wd ld lm ly h mi sec neg hh mm) = Some (mk_fields (Some wd) ld lm 4 ly h mi (Some sec) (ZNum neg hh mm)).
Proof. exact recognise_std. Qed.
Print Assumptions C11_spec_reads_standard_form.

(* never Panic, partial: (1) on every string of the generator grammar with valid, representable
   fields DateTime::parse_from_rfc2822 returns a value (no trap, fuel of the comment loop
   sufficient); (2) the zone scanner never traps on ANY well-formed string (the comment scanner:
   C11_comment_total; number / char: C10_number_total, Proofs/Scan.v char_ok).
   The full statement "never Panic on any valid UTF-8 string" is C11_parse_never_panics at the end of
   this file (Proofs/C11Total.v); this older partial form is kept under its name. *)
Theorem C11_no_panic_on_grammar_partial : forall s f, utf8_valid s = true -> blen s <= u64_max ->
  recognise s = Some f -> valid f = true -> representable f = true ->
  exists r, parse_from_rfc2822 s = Val r.
Proof. exact reader_total_on_grammar. Qed.
Print Assumptions C11_no_panic_on_grammar_partial.
Theorem C11_zone_scanner_total : forall s, utf8_valid s = true -> exists r, timezone_offset_2822 s = Val r.
Proof. exact timezone_offset_2822_total. Qed.
Print Assumptions C11_zone_scanner_total.

(* ---- NEVER PANIC, full statement (Proofs/C11Total.v).  [Proofs.C13Safe.safe r good]: the ParseResult
   computation [r] returned (no trap, no fuel exhaustion) and a successful value satisfies [good];
   [wf s] is [utf8_valid s = true]; [blen s <= u64_max]: a length a Rust string can have. *)

(* slice safety of the hand-written scanner sequence parse_rfc2822, from ANY typed field state: every
   &s[i..] is on a char boundary, every index in bounds, the year-length and comment-depth usize
   arithmetic and the month / year additions in range, the trailing-comment loop terminates; the
   remainder handed on is well-formed again and not longer than the input, the field state typed *)
Theorem C11_parse_rfc2822_slice_safe : forall p s, Proofs.C14.typed p -> Proofs.C13Safe.wf s -> blen s <= u64_max ->
  Proofs.C13Safe.safe (parse_rfc2822 p s)
    (fun x => Proofs.C14.typed (fst x) /\ Proofs.C13Safe.wf (snd x) /\ blen (snd x) <= blen s).
Proof. exact parse_rfc2822_safe. Qed.
Print Assumptions C11_parse_rfc2822_slice_safe.

(* the zone scanner and the comment scanner with their remainders *)
Theorem C11_zone_scanner_safe : forall s, Proofs.C13Safe.wf s ->
  Proofs.C13Safe.safe (timezone_offset_2822 s) (fun x => Proofs.C13Safe.wf (fst x) /\ blen (fst x) <= blen s).
Proof. exact timezone_offset_2822_safe. Qed.
Print Assumptions C11_zone_scanner_safe.
Theorem C11_comment_scanner_safe : forall s, Proofs.C13Safe.wf s -> blen s <= u64_max ->
  Proofs.C13Safe.safe (comment_2822 s) (fun x => Proofs.C13Safe.wf (fst x) /\ blen (fst x) < blen s).
Proof. exact comment_2822_safe. Qed.
Print Assumptions C11_comment_scanner_safe.

(* for EVERY well-formed UTF-8 string DateTime::parse_from_rfc2822 returns a value (Ok or a
   ParseError): never Panic, never OutOfFuel -- scanning (above), the TOO_LONG check, and
   Parsed::to_datetime on the field state the reader built (C14_to_datetime_never_panics) *)
Theorem C11_parse_never_panics : forall s, utf8_valid s = true -> blen s <= u64_max ->
  exists r, parse_from_rfc2822 s = Val r.
Proof. exact parse_from_rfc2822_never_panics. Qed.
Print Assumptions C11_parse_never_panics.
Example C11_parse_never_panics_inhabited :
  utf8_valid (B"Tue, 1 Jul 2003 10:52:37 +0200 (été)") = true /\
  (exists z, parse_from_rfc2822 (B"Tue, 1 Jul 2003 10:52:37 +0200 (été)") = Val (POk z)) /\
  parse_from_rfc2822 (B"Tue, 1 Jul 2003 10:52:37 −0200") = Val (PErr Invalid).
Proof. split; [vm_compute; reflexivity|]. split; [eexists; vm_compute; reflexivity|vm_compute; reflexivity]. Qed.
Print Assumptions C11_parse_never_panics_inhabited.

(* ---- READER EXACTNESS BEYOND THE GENERATOR GRAMMAR (Proofs/C11Inv.v, C11Sound.v, C11ResolveInv.v,
   C11Exact.v).  [recognise_u] (Spec/Rfc2822Lenient.v) is the grammar of [recognise] -- same tokens,
   same order, same fields, same meaning -- read with a run of Unicode White_Space characters
   (what str::trim_start removes: SP HTAB LF VT FF CR NEL NBSP U+1680 U+2000-200A U+2028 U+2029
   U+202F U+205F U+3000) wherever [recognise] has a run of folding white space. *)

(* every string of the strict grammar is a string of the lenient one, with the same fields *)
Theorem C11_strict_grammar_in_lenient : forall s f, utf8_valid s = true ->
  recognise s = Some f -> recognise_u s = Some f.
Proof. exact recognise_in_recognise_u. Qed.
Print Assumptions C11_strict_grammar_in_lenient.

(* reader soundness, scanning half, for EVERY well-formed string: whenever the scanner sequence
   parse_rfc2822 and the TOO_LONG check succeed, the string is in the lenient grammar, the field
   state is exactly the one its fields prescribe, and every field passed its setter's range check
   (converse of C11_reader_scan_complete) *)
Theorem C11_reader_scan_sound : forall s p, utf8_valid s = true -> blen s <= u64_max ->
  parse_items_rfc2822 Parsed.parsed_new s = Val (POk p) ->
  exists f, recognise_u s = Some f /\ p = parsed_of f /\ setter_ok f.
Proof. exact scan_sound. Qed.
Print Assumptions C11_reader_scan_sound.

(* reader soundness, resolution half: Parsed::to_datetime on such a field state succeeds only for
   fields that name an existing date-time, with a consistent day of week, representable *)
Theorem C11_resolution_sound : forall f z, setter_ok f ->
  Parsed.to_datetime (Proofs.C11Resolve.resolve_fields f) = Val (Parsed.Ok z) ->
  valid f = true /\ weekday_ok f = true /\ representable f = true.
Proof. intros f z H. exact (to_datetime_ok_inv f H z). Qed.
Print Assumptions C11_resolution_sound.

(* reader_sound: for EVERY valid UTF-8 string, if DateTime::parse_from_rfc2822 returns Ok(z) then
   the string is a date-time of the (lenient-white-space) RFC 2822 grammar -- optional day of week,
   optional seconds, comments, 2-/3-digit years, zone names, military letters included -- its
   fields are valid, the day of week written (if any) is the date's, the value is representable,
   and z is exactly the denoted instant and offset.  With C11_reader_complete (acceptance on the
   strict grammar) and C11_strict_grammar_in_lenient this brackets the accepted language:
     strict grammar & valid & consistent & representable  =>  accepted  =>  lenient grammar & valid & ...
   The two grammars differ ONLY in the white-space class (C11_lenient_white_space_witness; the real
   code accepts those strings too: corpus/C11/lenient_white_space.case).
   The converse -- acceptance of EVERY lenient-grammar string with such fields -- is
   C11_reader_complete_lenient below; the two together are the single iff over all strings,
   C11_reader_accepts_iff. *)
Theorem C11_reader_sound : forall s z, utf8_valid s = true -> blen s <= u64_max ->
  parse_from_rfc2822 s = Val (POk z) ->
  exists f, recognise_u s = Some f /\ valid f = true /\ weekday_ok f = true /\ representable f = true /\
            enc_dtz z = enc5 (denote f).
Proof. exact reader_sound. Qed.
Print Assumptions C11_reader_sound.

(* two-way on the strict grammar: a string of the grammar is accepted EXACTLY when its fields are
   valid, the day of week consistent and the value representable (then with the denoted value:
   C11_reader_complete); in every other case the result is an error value.
   (Over ALL strings, with the lenient grammar: C11_reader_accepts_iff / C11_reader_decided below.) *)
Theorem C11_reader_accepts_iff_on_grammar : forall s f, utf8_valid s = true -> blen s <= u64_max ->
  recognise s = Some f ->
  ((exists z, parse_from_rfc2822 s = Val (POk z)) <->
   (valid f = true /\ weekday_ok f = true /\ representable f = true)).
Proof. exact reader_accepts_iff_on_grammar. Qed.
Print Assumptions C11_reader_accepts_iff_on_grammar.
Theorem C11_reader_rejects_on_grammar : forall s f, utf8_valid s = true -> blen s <= u64_max ->
  recognise s = Some f -> valid f && weekday_ok f && representable f = false ->
  exists e, r2_parse s = VErr (perr_name e).
Proof. exact reader_rejects_on_grammar. Qed.
Print Assumptions C11_reader_rejects_on_grammar.
Example C11_reader_rejects_inhabited :
  recognise (B"30 Feb 2003 10:52 +0200") <> None /\ r2_parse (B"30 Feb 2003 10:52 +0200") = VErr (perr_name OutOfRange).
Proof. split; [vm_compute; discriminate|vm_compute; reflexivity]. Qed.
Print Assumptions C11_reader_rejects_inhabited.

(* the exact set where the reader and the strict RFC grammar differ is not empty: a bare LF after
   the comma and a no-break space before the time are read as white space *)
Example C11_lenient_white_space_witness :
  utf8_valid lenient_example = true /\ recognise lenient_example = None /\
  (exists f, recognise_u lenient_example = Some f /\ valid f = true /\ weekday_ok f = true /\ representable f = true) /\
  r2_parse lenient_example = VTup [VInt 2003; VInt 182; VInt 31957; VInt 0; VInt 7200].
Proof. exact lenient_witness. Qed.
Print Assumptions C11_lenient_white_space_witness.

(* ---- THE READER IS DECIDED BY THE LENIENT GRAMMAR ON ALL STRINGS (Proofs/C11Lenient.v: the forward
   scanning proof redone with str::trim_start runs of Unicode white space). *)

(* scanning half, forward, for the lenient grammar: every well-formed string that [recognise_u]
   recognises with valid fields (year within the supported range) is scanned completely, without a
   trap, and sets exactly the fields of the specification; the numeric fields are non-negative.
   Converse of C11_reader_scan_sound; supersedes C11_reader_scan_complete (strict grammar, which is
   included in the lenient one: C11_strict_grammar_in_lenient) *)
Theorem C11_reader_scan_complete_lenient : forall s f, utf8_valid s = true -> blen s <= u64_max ->
  recognise_u s = Some f -> valid f = true -> Spec.Gregorian.year_in_range (year_of f) = true ->
  parse_items_rfc2822 Parsed.parsed_new s = Val (POk (parsed_of f)) /\ Proofs.C11Resolve.fields_nonneg f.
Proof. exact scan_complete_u. Qed.
Print Assumptions C11_reader_scan_complete_lenient.

(* reader_complete for the lenient grammar: for EVERY valid UTF-8 string that the lenient grammar
   recognises with valid fields, a consistent day of week and a representable value,
   DateTime::parse_from_rfc2822 returns Ok(z) with z exactly the denoted instant and offset
   (supersedes C11_reader_complete, which has [recognise] in place of [recognise_u]) *)
Theorem C11_reader_complete_lenient : forall s f, utf8_valid s = true -> blen s <= u64_max ->
  recognise_u s = Some f -> valid f = true -> weekday_ok f = true -> representable f = true ->
  exists z, parse_from_rfc2822 s = Val (POk z) /\ enc_dtz z = enc5 (denote f).
Proof. exact reader_complete_u. Qed.
Print Assumptions C11_reader_complete_lenient.

(* ... and a day of week that is not the date's is refused there too *)
Theorem C11_weekday_contradiction_rejected_lenient : forall s f, utf8_valid s = true -> blen s <= u64_max ->
  recognise_u s = Some f -> valid f = true -> weekday_ok f = false -> representable f = true ->
  r2_parse s = VErr (perr_name Impossible).
Proof. exact weekday_contradiction_rejected_u. Qed.
Print Assumptions C11_weekday_contradiction_rejected_lenient.

(* reader_accepts_iff: for EVERY valid UTF-8 string s (of a length a Rust string can have) and every
   value v of the case protocol, DateTime::parse_from_rfc2822(s) is Ok(z) with z printed as v
   EXACTLY when s is a date-time of the (lenient-white-space) RFC 2822 grammar whose fields are
   valid, whose day of week (if written) is the date's, whose value is representable, and v is the
   denoted UTC reading and offset.  (z appears through its canonical encoding [enc_dtz] because the
   model's date word carries redundant flag bits; C11_reader_sound / C11_reader_complete_lenient are
   the two directions with z itself.)  This closes the bracket of C11_reader_sound: the accepted
   language IS the lenient grammar with valid, consistent, representable fields.
   Supersedes C11_reader_accepts_iff_on_grammar (strict grammar only). *)
Theorem C11_reader_accepts_iff : forall s v, utf8_valid s = true -> blen s <= u64_max ->
  ((exists z, parse_from_rfc2822 s = Val (POk z) /\ enc_dtz z = v) <->
   (exists f, recognise_u s = Some f /\ valid f = true /\ weekday_ok f = true /\ representable f = true /\
              v = enc5 (denote f))).
Proof. exact reader_accepts_iff. Qed.
Print Assumptions C11_reader_accepts_iff.
Example C11_reader_accepts_iff_inhabited :
  utf8_valid lenient_example = true /\ blen lenient_example <= u64_max /\ recognise lenient_example = None /\
  (exists f, recognise_u lenient_example = Some f /\ valid f = true /\ weekday_ok f = true /\ representable f = true /\
             VTup [VInt 2003; VInt 182; VInt 31957; VInt 0; VInt 7200] = enc5 (denote f)) /\
  (exists z, parse_from_rfc2822 lenient_example = Val (POk z) /\
             enc_dtz z = VTup [VInt 2003; VInt 182; VInt 31957; VInt 0; VInt 7200]).
Proof. exact accepts_iff_witness. Qed.
Print Assumptions C11_reader_accepts_iff_inhabited.

(* acceptance alone: Ok is returned exactly on the strings of the lenient grammar with valid,
   consistent, representable fields *)
Theorem C11_reader_accepts_exactly_grammar : forall s, utf8_valid s = true -> blen s <= u64_max ->
  ((exists z, parse_from_rfc2822 s = Val (POk z)) <->
   (exists f, recognise_u s = Some f /\ valid f = true /\ weekday_ok f = true /\ representable f = true)).
Proof. exact reader_accepts_iff_grammar. Qed.
Print Assumptions C11_reader_accepts_exactly_grammar.

(* the output on EVERY valid UTF-8 string is decided by the specification: the denoted value when
   the lenient grammar recognises it with valid, consistent, representable fields, an error value
   (never a trap) in every other case -- not in the grammar, or fields that are not valid /
   consistent / representable (supersedes C11_reader_rejects_on_grammar) *)
Theorem C11_reader_decided : forall s, utf8_valid s = true -> blen s <= u64_max ->
  match recognise_u s with
  | Some f => if valid f && weekday_ok f && representable f then r2_parse s = enc5 (denote f)
              else exists e, r2_parse s = VErr (perr_name e)
  | None => exists e, r2_parse s = VErr (perr_name e)
  end.
Proof. exact reader_decided. Qed.
Print Assumptions C11_reader_decided.

(* ---- the dispatcher and the judge *)
Theorem C11_dispatch :
  (forall s, run (B"r2.parse") [VStr s] = if utf8_valid s then r2_parse s else VBad) /\
  (forall z, run (B"r2.write") [z] = match dec_dtz z with Some a => val_of_R VStr (to_rfc2822 a) | None => VBad end) /\
  (forall z, run (B"r2.fmt") [z] = match dec_dtz z with Some a => val_of_R VStr (to_rfc2822 a) | None => VBad end) /\
  (forall z, run (B"r2.rt") [z] = match dec_dtz z with Some a => r2_rt a | None => VBad end) /\
  (forall op args, op_is op "r2.parse" = false -> op_is op "r2.write" = false -> op_is op "r2.fmt" = false ->
     op_is op "r2.rt" = false -> run op args = VErr (B"NOOP")).
Proof. exact Proofs.C11Holds.C11_dispatch. Qed.
Print Assumptions C11_dispatch.

(* the writer panics (documented) also when the wall-clock date leaves the range of dates *)
Theorem C11_writer_panics_beyond_dates : forall y o d t off, repr y o d -> time_ok t -> -86400 < off < 86400 ->
  dn_in_range (wall_dn y o (Time.tsecs t) off) = false ->
  to_rfc2822 (mk_dtz (mk_ndt d t) off) = Panic.
Proof. exact writer_panics_far. Qed.
Print Assumptions C11_writer_panics_beyond_dates.

(* C11_holds: for every op and every argument list (a string argument of a length a Rust string can
   have) the judge of the check accepts the model's output whenever the case is in the property's
   domain -- never JBad: r2.parse on every string (grammar strings: denoted value / error value as
   the judge demands; other strings: never a crash), r2.write / r2.fmt / r2.rt on every date-time *)
Theorem C11_holds : forall op args, args_len_ok args ->
  Judge.C11.judge op args (run op args) <> JSkip -> Judge.C11.judge op args (run op args) = JOk.
Proof. exact Proofs.C11Holds.C11_holds. Qed.
Print Assumptions C11_holds.
Example C11_holds_inhabited : args_len_ok [VStr (B"Fri, 13 Feb 1969 23:32:54 -0330")] /\
  Judge.C11.judge (B"r2.parse") [VStr (B"Fri, 13 Feb 1969 23:32:54 -0330")]
    (run (B"r2.parse") [VStr (B"Fri, 13 Feb 1969 23:32:54 -0330")]) = JOk.
Proof. split; [vm_compute; discriminate|vm_compute; reflexivity]. Qed.
Print Assumptions C11_holds_inhabited.
