(** C07 — Time-of-day arithmetic wraps by whole days and honours leap-second operands.
    Property theorems only: each is closed by [exact] of a lemma from Proofs/Time.v (or Proofs/C07.v)
    and followed by [Print Assumptions].  The model functions are the line-by-line transcription of
    src/naive/time/mod.rs in Model/Time.v with trapping integer arithmetic ([Val]/[Panic]); the
    right-hand sides are the time-of-day mathematics of Spec/TimeOfDay.v (acceptance predicates,
    field decomposition, the one-leap-second timeline [tl_add]/[tl_diff]/[tl_shift]). *)
From Coq Require Import ZArith List Bool.
From V Require Import Base.Int Base.IO Model.TimeDelta Model.Time Spec.TimeOfDay Proofs.C06 Proofs.Time.
Open Scope Z_scope.

(* constructors: accepted exactly when hour < 24, minute < 60, second < 60 and the nanosecond field is
   below 10^9, or below 2*10^9 on second 59 — over all u32 arguments; never a trap *)
Theorem C07_ctor_accept_iff_hms_nano : forall h m s n,
  in_u32 h = true -> in_u32 m = true -> in_u32 s = true -> in_u32 n = true ->
  from_hms_nano_opt h m s n =
    Val (if accept_hms_nano h m s n then Some (mk_time (secs_of_hms h m s) n) else None).
Proof. exact from_hms_nano_opt_spec. Qed.
Print Assumptions C07_ctor_accept_iff_hms_nano.
Theorem C07_ctor_accept_iff_hms : forall h m s,
  in_u32 h = true -> in_u32 m = true -> in_u32 s = true ->
  from_hms_opt h m s = Val (if hms_ok h m s then Some (mk_time (secs_of_hms h m s) 0) else None).
Proof. exact from_hms_opt_spec. Qed.
Print Assumptions C07_ctor_accept_iff_hms.
Theorem C07_ctor_accept_iff_hms_milli : forall h m s x,
  in_u32 h = true -> in_u32 m = true -> in_u32 s = true -> in_u32 x = true ->
  from_hms_milli_opt h m s x =
    Val (if accept_hms_nano h m s (x * 1000000) then Some (mk_time (secs_of_hms h m s) (x * 1000000)) else None).
Proof. exact from_hms_milli_opt_spec. Qed.
Print Assumptions C07_ctor_accept_iff_hms_milli.
Theorem C07_ctor_accept_iff_hms_micro : forall h m s x,
  in_u32 h = true -> in_u32 m = true -> in_u32 s = true -> in_u32 x = true ->
  from_hms_micro_opt h m s x =
    Val (if accept_hms_nano h m s (x * 1000) then Some (mk_time (secs_of_hms h m s) (x * 1000)) else None).
Proof. exact from_hms_micro_opt_spec. Qed.
Print Assumptions C07_ctor_accept_iff_hms_micro.
Theorem C07_ctor_accept_iff_secs : forall secs n,
  in_u32 secs = true -> in_u32 n = true ->
  from_num_seconds_from_midnight_opt secs n =
    if accept_secs_nano secs n then Some (mk_time secs n) else None.
Proof. exact from_nsfm_opt_spec. Qed.
Print Assumptions C07_ctor_accept_iff_secs.
Theorem C07_ctor_valid : forall h m s n,
  accept_hms_nano h m s n = true -> 0 <= h -> 0 <= m -> 0 <= s -> 0 <= n ->
  tvalid (mk_time (secs_of_hms h m s) n) /\ (n >= 1000000000 -> secs_of_hms h m s mod 60 = 59).
Proof. exact ctor_valid. Qed.
Print Assumptions C07_ctor_valid.
