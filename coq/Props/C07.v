(** C07 — Time-of-day arithmetic wraps by whole days and honours leap-second operands.
    Property theorems only: each is closed by [exact] of a lemma from Proofs/Time.v (or Proofs/C07.v)
    and followed by [Print Assumptions].  The model functions are the line-by-line transcription of
    src/naive/time/mod.rs in Model/Time.v with trapping integer arithmetic ([Val]/[Panic]); the
    right-hand sides are the time-of-day mathematics of Spec/TimeOfDay.v (acceptance predicates,
    field decomposition, the one-leap-second timeline [tl_add]/[tl_diff]/[tl_shift]). *)
From Coq Require Import ZArith List Bool String.
From V Require Import Base.Int Base.IO Model.TimeDelta Model.Time Spec.TimeOfDay Spec.Gregorian Proofs.C06 Proofs.Time Proofs.C07.
From V Require Model.DateTime Proofs.C03 Proofs.C07Ndt Proofs.C08Sweeps Proofs.HoldsLib Proofs.C07Holds Judge.C07.
From V Require Import Model.C07 Proofs.C07Ops.
Import ListNotations.
Open Scope Z_scope.

(* constructors: accepted exactly when hour < 24, minute < 60, second < 60 and the nanosecond field is
   below 10^9, or below 2*10^9 on second 59 — over all u32 arguments; never a trap *)
Theorem C07_ctor_accept_iff_hms_nano : forall h m s n,
  in_u32 h = true -> in_u32 m = true -> in_u32 s = true -> in_u32 n = true ->
  from_hms_nano_opt h m s n =
    Val (if accept_hms_nano h m s n then Some (mk_time (secs_of_hms h m s) n) else None).
Proof. exact from_hms_nano_opt_spec. Qed.
Print Assumptions C07_ctor_accept_iff_hms_nano.
Theorem C07_ctor_accept_iff_hms : forall h m s,
  in_u32 h = true -> in_u32 m = true -> in_u32 s = true ->
  from_hms_opt h m s = Val (if hms_ok h m s then Some (mk_time (secs_of_hms h m s) 0) else None).
Proof. exact from_hms_opt_spec. Qed.
Print Assumptions C07_ctor_accept_iff_hms.
Theorem C07_ctor_accept_iff_hms_milli : forall h m s x,
  in_u32 h = true -> in_u32 m = true -> in_u32 s = true -> in_u32 x = true ->
  from_hms_milli_opt h m s x =
    Val (if accept_hms_nano h m s (x * 1000000) then Some (mk_time (secs_of_hms h m s) (x * 1000000)) else None).
Proof. exact from_hms_milli_opt_spec. Qed.
Print Assumptions C07_ctor_accept_iff_hms_milli.
Theorem C07_ctor_accept_iff_hms_micro : forall h m s x,
  in_u32 h = true -> in_u32 m = true -> in_u32 s = true -> in_u32 x = true ->
  from_hms_micro_opt h m s x =
    Val (if accept_hms_nano h m s (x * 1000) then Some (mk_time (secs_of_hms h m s) (x * 1000)) else None).
Proof. exact from_hms_micro_opt_spec. Qed.
Print Assumptions C07_ctor_accept_iff_hms_micro.
Theorem C07_ctor_accept_iff_secs : forall secs n,
  in_u32 secs = true -> in_u32 n = true ->
  from_num_seconds_from_midnight_opt secs n =
    if accept_secs_nano secs n then Some (mk_time secs n) else None.
Proof. exact from_nsfm_opt_spec. Qed.
Print Assumptions C07_ctor_accept_iff_secs.
Theorem C07_ctor_valid : forall h m s n,
  accept_hms_nano h m s n = true -> 0 <= h -> 0 <= m -> 0 <= s -> 0 <= n ->
  tvalid (mk_time (secs_of_hms h m s) n) /\ (n >= 1000000000 -> secs_of_hms h m s mod 60 = 59).
Proof. exact ctor_valid. Qed.
Print Assumptions C07_ctor_valid.

(* accessors return the fields of the reading; the fields are in range and recompose to it *)
Theorem C07_accessors : forall t, 0 <= tsecs t ->
  hour t = hour_of (tsecs t) /\ minute t = minute_of (tsecs t) /\ second t = second_of (tsecs t) /\
  nanosecond t = tfrac t /\ num_seconds_from_midnight t = tsecs t.
Proof. exact accessors_spec. Qed.
Print Assumptions C07_accessors.
Theorem C07_fields_range : forall s, 0 <= s < 86400 ->
  0 <= hour_of s < 24 /\ 0 <= minute_of s < 60 /\ 0 <= second_of s < 60 /\
  secs_of_hms (hour_of s) (minute_of s) (second_of s) = s.
Proof. exact fields_range. Qed.
Print Assumptions C07_fields_range.
Theorem C07_fields_of_hms : forall h m s, 0 <= h -> 0 <= m < 60 -> 0 <= s < 60 ->
  hour_of (secs_of_hms h m s) = h /\ minute_of (secs_of_hms h m s) = m /\ second_of (secs_of_hms h m s) = s.
Proof. exact fields_of_hms. Qed.
Print Assumptions C07_fields_of_hms.
Theorem C07_hour12 : forall t, 0 <= tsecs t < 86400 ->
  hour12 t = (12 <=? hour_of (tsecs t),
              if hour_of (tsecs t) mod 12 =? 0 then 12 else hour_of (tsecs t) mod 12) /\
  1 <= snd (hour12 t) <= 12.
Proof. exact hour12_spec. Qed.
Print Assumptions C07_hour12.

(* single-field replacement, for every state (leap representation on any second) and every u32
   argument: None exactly when the argument is outside the field's own range, otherwise the reading
   whose named field is the argument and whose other fields are unchanged (C07_fields_of_hms); no trap *)
Theorem C07_replace_exact_hour : forall t v, tvalid t -> in_u32 v = true ->
  with_hour t v = Val (if v <? 24
    then Some (mk_time (secs_of_hms v (minute_of (tsecs t)) (second_of (tsecs t))) (tfrac t)) else None).
Proof. exact with_hour_spec. Qed.
Print Assumptions C07_replace_exact_hour.
Theorem C07_replace_exact_minute : forall t v, tvalid t -> in_u32 v = true ->
  with_minute t v = Val (if v <? 60
    then Some (mk_time (secs_of_hms (hour_of (tsecs t)) v (second_of (tsecs t))) (tfrac t)) else None).
Proof. exact with_minute_spec. Qed.
Print Assumptions C07_replace_exact_minute.
Theorem C07_replace_exact_second : forall t v, tvalid t -> in_u32 v = true ->
  with_second t v = Val (if v <? 60
    then Some (mk_time (secs_of_hms (hour_of (tsecs t)) (minute_of (tsecs t)) v) (tfrac t)) else None).
Proof. exact with_second_spec. Qed.
Print Assumptions C07_replace_exact_second.
Theorem C07_replace_exact_nanosecond : forall t v, in_u32 v = true ->
  with_nanosecond t v = if v <? 2000000000 then Some (mk_time (tsecs t) v) else None.
Proof. exact with_nanosecond_spec. Qed.
Print Assumptions C07_replace_exact_nanosecond.
Theorem C07_replace_valid : forall t h m s, tvalid t -> 0 <= h < 24 -> 0 <= m < 60 -> 0 <= s < 60 ->
  tvalid (mk_time (secs_of_hms h m s) (tfrac t)).
Proof. exact with_valid. Qed.
Print Assumptions C07_replace_valid.

(* addition: for ALL states (secs < 86400, frac < 2*10^9: leap representation on any second) and ALL
   valid durations the result and the carry are those of the one-leap-second timeline; no trap *)
Theorem C07_add_spec : forall t d, tvalid t -> valid d ->
  overflowing_add_signed t d = Val (add_result (tsecs t) (tfrac t) (ns d)).
Proof. exact add_spec. Qed.
Print Assumptions C07_add_spec.
(* the result is a valid state, the carry a whole number of days; a leap reading only comes out of
   a leap operand that was stayed in *)
Theorem C07_add_range : forall s f d, 0 <= s < 86400 -> 0 <= f < 2000000000 ->
  let '(t', c) := add_result s f d in
  tvalid t' /\ c mod 86400 = 0 /\
  (tfrac t' >= 1000000000 -> f >= 1000000000 /\ tsecs t' = s /\ c = 0 /\ tfrac t' = f + d).
Proof. exact add_result_range. Qed.
Print Assumptions C07_add_range.
(* without a leap operand: exact arithmetic modulo one day *)
Theorem C07_add_nonleap : forall t d, tvalid t -> tfrac t < 1000000000 -> valid d ->
  exists t' c, overflowing_add_signed t d = Val (t', c) /\
    tvalid t' /\ tfrac t' < 1000000000 /\ c mod 86400 = 0 /\
    (tsecs t' + c) * 1000000000 + tfrac t' = tsecs t * 1000000000 + tfrac t + ns d.
Proof. exact add_nonleap_exact. Qed.
Print Assumptions C07_add_nonleap.

(* subtraction equals addition of the negated duration *)
Theorem C07_sub_spec : forall t d, tvalid t -> valid d ->
  overflowing_sub_signed t d = Val (neg_carry (add_result (tsecs t) (tfrac t) (- ns d))).
Proof. exact sub_spec. Qed.
Print Assumptions C07_sub_spec.
Theorem C07_sub_is_add_neg : forall t d d', tvalid t -> valid d -> valid d' -> ns d' = - ns d ->
  overflowing_sub_signed t d = rmap neg_carry (overflowing_add_signed t d').
Proof. exact sub_is_add_neg. Qed.
Print Assumptions C07_sub_is_add_neg.

(* difference of two times: exact on the line on which each leap operand inserts its own second;
   never a trap, always a valid duration, within a day and a second; antisymmetric *)
Theorem C07_diff_spec : forall a b, tvalid a -> tvalid b ->
  exists d, signed_duration_since a b = Val d /\ valid d /\
            ns d = tl_diff (tsecs a) (tfrac a) (tsecs b) (tfrac b).
Proof. exact diff_spec. Qed.
Print Assumptions C07_diff_spec.
Theorem C07_diff_bound : forall s1 f1 s2 f2, 0 <= s1 < 86400 -> 0 <= s2 < 86400 ->
  0 <= f1 < 2000000000 -> 0 <= f2 < 2000000000 ->
  Z.abs (tl_diff s1 f1 s2 f2) < 86401 * 1000000000.
Proof. exact diff_bound. Qed.
Print Assumptions C07_diff_bound.
Theorem C07_diff_antisym : forall a b, tvalid a -> tvalid b ->
  exists d1 d2, signed_duration_since a b = Val d1 /\ signed_duration_since b a = Val d2 /\
                valid d1 /\ valid d2 /\ ns d1 = - ns d2.
Proof. exact diff_antisym. Qed.
Print Assumptions C07_diff_antisym.

(* zone-offset shifts move whole seconds modulo one day and keep the fraction (leap mark) *)
Theorem C07_offset_shift_keeps_frac : forall t off, tvalid t -> -86400 < off < 86400 ->
  overflowing_add_offset t off =
    Val (let '((s, f), days) := tl_shift (tsecs t) (tfrac t) off in (mk_time s f, days)) /\
  overflowing_sub_offset t off =
    Val (let '((s, f), days) := tl_shift (tsecs t) (tfrac t) (- off) in (mk_time s f, days)).
Proof. exact offset_shift_spec. Qed.
Print Assumptions C07_offset_shift_keeps_frac.
Theorem C07_offset_shift_range : forall s off, 0 <= s < 86400 -> -86400 < off < 86400 ->
  0 <= (s + off) mod 86400 < 86400 /\ -1 <= (s + off) / 86400 <= 1 /\
  ((s + off) / 86400) * 86400 + (s + off) mod 86400 = s + off.
Proof. exact offset_shift_range. Qed.
Print Assumptions C07_offset_shift_range.

(* core::time::Duration operands (every u64 number of seconds): the time of day is the timeline's,
   and agrees with the same duration given as a TimeDelta  [repaired code, finding C07-std-duration-leap] *)
Theorem C07_add_std_spec : forall t ds dn, tvalid t -> in_u64 ds = true -> 0 <= dn < 1000000000 ->
  op_add_std t ds dn = Val (time_of (tl_add (tsecs t) (tfrac t) (ds * 1000000000 + dn))).
Proof. exact op_add_std_spec. Qed.
Print Assumptions C07_add_std_spec.
Theorem C07_sub_std_spec : forall t ds dn, tvalid t -> in_u64 ds = true -> 0 <= dn < 1000000000 ->
  op_sub_std t ds dn = Val (time_of (tl_add (tsecs t) (tfrac t) (- (ds * 1000000000 + dn)))).
Proof. exact op_sub_std_spec. Qed.
Print Assumptions C07_sub_std_spec.
Theorem C07_std_agrees_with_timedelta : forall t ds dn d, tvalid t -> in_u64 ds = true -> 0 <= dn < 1000000000 ->
  valid d -> ns d = ds * 1000000000 + dn ->
  op_add_std t ds dn = op_add_td t d /\ op_sub_std t ds dn = op_sub_td t d.
Proof. exact std_agrees_with_td. Qed.
Print Assumptions C07_std_agrees_with_timedelta.
(* the code before the repair violated it (even multiples of a day on a leap operand) *)
Theorem C07_std_add_unrepaired_refuted : exists t ds dn,
  tvalid t /\ in_u64 ds = true /\ 0 <= dn < 1000000000 /\
  (let* d := std_reduce_unrepaired ds dn in rmap fst (overflowing_add_signed t d))
    <> Val (time_of (tl_add (tsecs t) (tfrac t) (ds * 1000000000 + dn))).
Proof. exact std_add_unrepaired_refuted. Qed.
Print Assumptions C07_std_add_unrepaired_refuted.

(* the documented rule list and doc tests, evaluated by the kernel on the specification and the model *)
Theorem C07_doc_examples_spec :
  forallb check_add_spec doc_add = true /\ forallb check_diff_spec doc_diff = true.
Proof. exact doc_examples_spec. Qed.
Print Assumptions C07_doc_examples_spec.
Theorem C07_doc_examples_model :
  forallb check_add_model doc_add = true /\ forallb check_diff_model doc_diff = true.
Proof. exact doc_examples_model. Qed.
Print Assumptions C07_doc_examples_model.
Example C07_hypotheses_inhabited :
  tvalid (mk_time 12345 1999999999) /\ tvalid (mk_time 86399 1000000000) /\ tvalid (mk_time 0 0) /\
  valid (mk_td TD_MAX_secs_lit 807000000) /\ valid (mk_td (-9223372036854776) 193000000) /\ valid (mk_td (-1) 1).
Proof. exact inhabited_states. Qed.
Print Assumptions C07_hypotheses_inhabited.

(* date-times with a leap-second operand: the time of day follows the timeline rules and the carry is
   applied to the date ([vdate]/[dn]: valid date and its proleptic Gregorian day number, Proofs/C03.v);
   refused exactly when the date leaves the representable range.  Modulo the stated specification
   [add_days_ok] of the shared Date model's add_days (the date properties discharge it), as in C03:
   the full statement without that premise is the same text with [add_days_ok] proved. *)
Theorem C07_ndt_leap_add_partial : Proofs.C03.add_days_ok -> forall a d,
  Proofs.C03.vdate (DateTime.nd_date a) -> tvalid (DateTime.nd_time a) -> valid d ->
  exists r, DateTime.ndt_checked_add_signed a d = Val r /\
    match r with
    | Some b =>
        DateTime.nd_time b = fst (add_result (tsecs (DateTime.nd_time a)) (tfrac (DateTime.nd_time a)) (ns d)) /\
        Proofs.C03.vdate (DateTime.nd_date b) /\
        Proofs.C03.dn (DateTime.nd_date b) = Proofs.C03.dn (DateTime.nd_date a)
          + snd (add_result (tsecs (DateTime.nd_time a)) (tfrac (DateTime.nd_time a)) (ns d)) / 86400
    | None => dn_in_range (Proofs.C03.dn (DateTime.nd_date a)
          + snd (add_result (tsecs (DateTime.nd_time a)) (tfrac (DateTime.nd_time a)) (ns d)) / 86400) = false
    end.
Proof. exact Proofs.C07Ndt.ndt_leap_add. Qed.
Print Assumptions C07_ndt_leap_add_partial.
Theorem C07_ndt_leap_sub_partial : Proofs.C03.add_days_ok -> forall a d,
  Proofs.C03.vdate (DateTime.nd_date a) -> tvalid (DateTime.nd_time a) -> valid d ->
  exists r, DateTime.ndt_checked_sub_signed a d = Val r /\
    match r with
    | Some b =>
        DateTime.nd_time b = fst (add_result (tsecs (DateTime.nd_time a)) (tfrac (DateTime.nd_time a)) (- ns d)) /\
        Proofs.C03.vdate (DateTime.nd_date b) /\
        Proofs.C03.dn (DateTime.nd_date b) = Proofs.C03.dn (DateTime.nd_date a)
          + snd (add_result (tsecs (DateTime.nd_time a)) (tfrac (DateTime.nd_time a)) (- ns d)) / 86400
    | None => dn_in_range (Proofs.C03.dn (DateTime.nd_date a)
          + snd (add_result (tsecs (DateTime.nd_time a)) (tfrac (DateTime.nd_time a)) (- ns d)) / 86400) = false
    end.
Proof. exact Proofs.C07Ndt.ndt_leap_sub. Qed.
Print Assumptions C07_ndt_leap_sub_partial.

(* the same two statements with the premise discharged: [add_days_ok] is C03's theorem
   C03_add_days_spec (Proofs/C03.v [add_days_holds], resting on Proofs/C08AddDays.v [add_days_spec]
   for every i32 day count), so date-time +- duration with a leap-second operand is unconditional *)
Theorem C07_ndt_leap_add : forall a d,
  Proofs.C03.vdate (DateTime.nd_date a) -> tvalid (DateTime.nd_time a) -> valid d ->
  exists r, DateTime.ndt_checked_add_signed a d = Val r /\
    match r with
    | Some b =>
        DateTime.nd_time b = fst (add_result (tsecs (DateTime.nd_time a)) (tfrac (DateTime.nd_time a)) (ns d)) /\
        Proofs.C03.vdate (DateTime.nd_date b) /\
        Proofs.C03.dn (DateTime.nd_date b) = Proofs.C03.dn (DateTime.nd_date a)
          + snd (add_result (tsecs (DateTime.nd_time a)) (tfrac (DateTime.nd_time a)) (ns d)) / 86400
    | None => dn_in_range (Proofs.C03.dn (DateTime.nd_date a)
          + snd (add_result (tsecs (DateTime.nd_time a)) (tfrac (DateTime.nd_time a)) (ns d)) / 86400) = false
    end.
Proof. exact Proofs.C07Ndt.ndt_leap_add_u. Qed.
Print Assumptions C07_ndt_leap_add.
Theorem C07_ndt_leap_sub : forall a d,
  Proofs.C03.vdate (DateTime.nd_date a) -> tvalid (DateTime.nd_time a) -> valid d ->
  exists r, DateTime.ndt_checked_sub_signed a d = Val r /\
    match r with
    | Some b =>
        DateTime.nd_time b = fst (add_result (tsecs (DateTime.nd_time a)) (tfrac (DateTime.nd_time a)) (- ns d)) /\
        Proofs.C03.vdate (DateTime.nd_date b) /\
        Proofs.C03.dn (DateTime.nd_date b) = Proofs.C03.dn (DateTime.nd_date a)
          + snd (add_result (tsecs (DateTime.nd_time a)) (tfrac (DateTime.nd_time a)) (- ns d)) / 86400
    | None => dn_in_range (Proofs.C03.dn (DateTime.nd_date a)
          + snd (add_result (tsecs (DateTime.nd_time a)) (tfrac (DateTime.nd_time a)) (- ns d)) / 86400) = false
    end.
Proof. exact Proofs.C07Ndt.ndt_leap_sub_u. Qed.
Print Assumptions C07_ndt_leap_sub.
(* the premises are inhabited: 2016-12-31T23:59:59 plus one second of leap fraction *)
Example C07_ndt_leap_example :
  Proofs.C03.vdate Proofs.C07Ndt.leap_date /\ tvalid (mk_time 86399 1500000000) /\ valid (mk_td 1 0) /\
  exists b, DateTime.ndt_checked_add_signed (DateTime.mk_ndt Proofs.C07Ndt.leap_date (mk_time 86399 1500000000)) (mk_td 1 0)
              = Val (Some b) /\
    DateTime.nd_time b = mk_time 0 500000000 /\
    Proofs.C03.dn (DateTime.nd_date b) = Proofs.C03.dn Proofs.C07Ndt.leap_date + 1.
Proof. exact Proofs.C07Ndt.ndt_leap_example. Qed.
Print Assumptions C07_ndt_leap_example.

(* ---- the deprecated panicking constructors (from_hms, from_hms_milli, from_hms_micro, from_hms_nano,
   from_num_seconds_from_midnight): expect(..) of the _opt form — the same reading, the documented
   panic exactly where the _opt form is None; all u32 arguments *)
Theorem C07_panicking_ctors : forall h m s x, in_u32 h = true -> in_u32 m = true -> in_u32 s = true -> in_u32 x = true ->
  unwrap_r (from_hms_opt h m s) = (if hms_ok h m s then Val (mk_time (secs_of_hms h m s) 0) else Panic) /\
  unwrap_r (from_hms_milli_opt h m s x) =
    (if accept_hms_nano h m s (x * 1000000) then Val (mk_time (secs_of_hms h m s) (x * 1000000)) else Panic) /\
  unwrap_r (from_hms_micro_opt h m s x) =
    (if accept_hms_nano h m s (x * 1000) then Val (mk_time (secs_of_hms h m s) (x * 1000)) else Panic) /\
  unwrap_r (from_hms_nano_opt h m s x) =
    (if accept_hms_nano h m s x then Val (mk_time (secs_of_hms h m s) x) else Panic).
Proof. exact (fun h m s x H1 H2 H3 H4 => conj (phms_spec h m s H1 H2 H3) (conj (phms_milli_spec h m s x H1 H2 H3 H4)
  (conj (phms_micro_spec h m s x H1 H2 H3 H4) (phms_nano_spec h m s x H1 H2 H3 H4)))). Qed.
Print Assumptions C07_panicking_ctors.
(* ---- NaiveDate::and_hms / and_hms_milli / and_hms_micro / and_hms_nano (deprecated, panicking) and their
   checked forms, for EVERY date word d and all u32 arguments: the date part is carried over untouched, the
   time is the reading of the NaiveTime constructor; the checked form is None, and the deprecated form
   panics, exactly where the constructor accepts nothing; nothing else traps *)
Theorem C07_date_and_hms_panicking : forall d h m s x,
  in_u32 h = true -> in_u32 m = true -> in_u32 s = true -> in_u32 x = true ->
  (nd_and_hms_opt d h m s =
     Val (if hms_ok h m s then Some (DateTime.mk_ndt d (mk_time (secs_of_hms h m s) 0)) else None) /\
   nd_and_hms d h m s = (if hms_ok h m s then Val (DateTime.mk_ndt d (mk_time (secs_of_hms h m s) 0)) else Panic)) /\
  (nd_and_hms_milli_opt d h m s x =
     Val (if accept_hms_nano h m s (x * 1000000)
          then Some (DateTime.mk_ndt d (mk_time (secs_of_hms h m s) (x * 1000000))) else None) /\
   nd_and_hms_milli d h m s x =
     (if accept_hms_nano h m s (x * 1000000)
      then Val (DateTime.mk_ndt d (mk_time (secs_of_hms h m s) (x * 1000000))) else Panic)) /\
  (nd_and_hms_micro_opt d h m s x =
     Val (if accept_hms_nano h m s (x * 1000)
          then Some (DateTime.mk_ndt d (mk_time (secs_of_hms h m s) (x * 1000))) else None) /\
   nd_and_hms_micro d h m s x =
     (if accept_hms_nano h m s (x * 1000)
      then Val (DateTime.mk_ndt d (mk_time (secs_of_hms h m s) (x * 1000))) else Panic)) /\
  (nd_and_hms_nano_opt d h m s x =
     Val (if accept_hms_nano h m s x then Some (DateTime.mk_ndt d (mk_time (secs_of_hms h m s) x)) else None) /\
   nd_and_hms_nano d h m s x =
     (if accept_hms_nano h m s x then Val (DateTime.mk_ndt d (mk_time (secs_of_hms h m s) x)) else Panic)).
Proof. exact (fun d h m s x H1 H2 H3 H4 => conj (nd_and_hms_spec d h m s H1 H2 H3)
  (conj (nd_and_hms_milli_spec d h m s x H1 H2 H3 H4)
  (conj (nd_and_hms_micro_spec d h m s x H1 H2 H3 H4) (nd_and_hms_nano_spec d h m s x H1 H2 H3 H4)))). Qed.
Print Assumptions C07_date_and_hms_panicking.
Example C07_date_and_hms_inhabited :
  nd_and_hms Proofs.C07Ndt.leap_date 23 59 59 = Val (DateTime.mk_ndt Proofs.C07Ndt.leap_date (mk_time 86399 0)) /\
  nd_and_hms Proofs.C07Ndt.leap_date 24 0 0 = Panic /\
  nd_and_hms_milli Proofs.C07Ndt.leap_date 23 59 59 1999 =
    Val (DateTime.mk_ndt Proofs.C07Ndt.leap_date (mk_time 86399 1999000000)) /\
  nd_and_hms_milli Proofs.C07Ndt.leap_date 23 59 58 1000 = Panic.
Proof. exact and_hms_inhabited. Qed.
Print Assumptions C07_date_and_hms_inhabited.
Theorem C07_panicking_ctor_secs : forall secs n, in_u32 secs = true -> in_u32 n = true ->
  unwrap (from_num_seconds_from_midnight_opt secs n) =
    if accept_secs_nano secs n then Val (mk_time secs n) else Panic.
Proof. exact pnsfm_spec. Qed.
Print Assumptions C07_panicking_ctor_secs.

(* ---- operator forms.  time + d, time - d (and += / -=, which the dispatcher answers with the same
   function: C07_dispatch) are the time of the overflowing forms, the carry dropped; time - time is
   signed_duration_since; time +- FixedOffset is the shifted time, the day carry dropped *)
Theorem C07_op_add_td : forall t d, tvalid t -> valid d ->
  op_add_td t d = Val (fst (add_result (tsecs t) (tfrac t) (ns d))) /\
  op_add_td t d = rmap fst (overflowing_add_signed t d).
Proof. exact op_add_td_spec. Qed.
Print Assumptions C07_op_add_td.
Theorem C07_op_sub_td : forall t d, tvalid t -> valid d ->
  op_sub_td t d = Val (fst (add_result (tsecs t) (tfrac t) (- ns d))) /\
  op_sub_td t d = rmap fst (overflowing_sub_signed t d).
Proof. exact op_sub_td_spec. Qed.
Print Assumptions C07_op_sub_td.
Theorem C07_op_sub_time : forall a b, tvalid a -> tvalid b ->
  op_sub_time a b = signed_duration_since a b /\
  exists d, op_sub_time a b = Val d /\ valid d /\ ns d = tl_diff (tsecs a) (tfrac a) (tsecs b) (tfrac b).
Proof. exact op_sub_time_spec. Qed.
Print Assumptions C07_op_sub_time.
Theorem C07_op_offset : forall t off, tvalid t -> -86400 < off < 86400 ->
  op_add_offset t off = Val (let '((s, f), _) := tl_shift (tsecs t) (tfrac t) off in mk_time s f) /\
  op_sub_offset t off = Val (let '((s, f), _) := tl_shift (tsecs t) (tfrac t) (- off) in mk_time s f).
Proof. exact op_offset_spec. Qed.
Print Assumptions C07_op_offset.
(* NaiveDateTime + / - TimeDelta: the value of the checked form (C07_ndt_leap_add / _sub say which),
   the documented panic exactly when the checked form is None *)
Theorem C07_ndt_op_forms : forall a d,
  Proofs.C03.vdate (DateTime.nd_date a) -> tvalid (DateTime.nd_time a) -> valid d ->
  (exists r, DateTime.ndt_checked_add_signed a d = Val r /\
     unwrap_r (DateTime.ndt_checked_add_signed a d) = match r with Some b => Val b | None => Panic end) /\
  (exists r, DateTime.ndt_checked_sub_signed a d = Val r /\
     unwrap_r (DateTime.ndt_checked_sub_signed a d) = match r with Some b => Val b | None => Panic end).
Proof. exact ndt_op_forms. Qed.
Print Assumptions C07_ndt_op_forms.

(* ---- Timelike called directly on a NaiveDateTime: the accessors are those of the time part (t_acc:
   hour, minute, second, nanosecond, num_seconds_from_midnight, hour12 — C07_accessors, C07_hour12);
   with_hour .. with_nanosecond are the time part's function with the date untouched *)
Theorem C07_ndt_accessors : forall a, tvalid (DateTime.nd_time a) -> ndt_tacc a = Val (t_acc (DateTime.nd_time a)).
Proof. exact ndt_tacc_spec. Qed.
Print Assumptions C07_ndt_accessors.
Theorem C07_ndt_with_time : forall a v,
  DateTime.ndt_with 7 a v = on_time a (with_hour (DateTime.nd_time a) v) /\
  DateTime.ndt_with 8 a v = on_time a (with_minute (DateTime.nd_time a) v) /\
  DateTime.ndt_with 9 a v = on_time a (with_second (DateTime.nd_time a) v) /\
  DateTime.ndt_with 10 a v = on_time a (Val (with_nanosecond (DateTime.nd_time a) v)).
Proof. exact ndt_twith_spec. Qed.
Print Assumptions C07_ndt_with_time.
Theorem C07_ndt_with_time_values : forall a v, tvalid (DateTime.nd_time a) -> in_u32 v = true ->
  let t := DateTime.nd_time a in let d := DateTime.nd_date a in
  DateTime.ndt_with 7 a v = Val (if v <? 24 then Some (DateTime.mk_ndt d
     (mk_time (secs_of_hms v (minute_of (tsecs t)) (second_of (tsecs t))) (tfrac t))) else None) /\
  DateTime.ndt_with 8 a v = Val (if v <? 60 then Some (DateTime.mk_ndt d
     (mk_time (secs_of_hms (hour_of (tsecs t)) v (second_of (tsecs t))) (tfrac t))) else None) /\
  DateTime.ndt_with 9 a v = Val (if v <? 60 then Some (DateTime.mk_ndt d
     (mk_time (secs_of_hms (hour_of (tsecs t)) (minute_of (tsecs t)) v) (tfrac t))) else None) /\
  DateTime.ndt_with 10 a v = Val (if v <? 2000000000 then Some (DateTime.mk_ndt d (mk_time (tsecs t) v)) else None).
Proof. exact ndt_twith_values. Qed.
Print Assumptions C07_ndt_with_time_values.

(* ---- every op of the dispatcher: which model function answers it ([sh_*]: the argument decoders,
   Proofs/C07Ops.v); the *_assign ops are answered by the function of the plain operator *)
Theorem C07_dispatch : forall args,
  run (B"t.hms") args = sh_u3 (fun h m s => val_of_R vo_time (from_hms_opt h m s)) args /\
  run (B"t.hms_milli") args = sh_u4 (fun h m s x => val_of_R vo_time (from_hms_milli_opt h m s x)) args /\
  run (B"t.hms_micro") args = sh_u4 (fun h m s x => val_of_R vo_time (from_hms_micro_opt h m s x)) args /\
  run (B"t.hms_nano") args = sh_u4 (fun h m s x => val_of_R vo_time (from_hms_nano_opt h m s x)) args /\
  run (B"t.nsfm") args = sh_u2 (fun s n => vo_time (from_num_seconds_from_midnight_opt s n)) args /\
  run (B"t.acc") args = sh_t1 t_acc args /\
  run (B"t.with_hour") args = sh_tu (fun t k => val_of_R vo_time (with_hour t k)) args /\
  run (B"t.with_minute") args = sh_tu (fun t k => val_of_R vo_time (with_minute t k)) args /\
  run (B"t.with_second") args = sh_tu (fun t k => val_of_R vo_time (with_second t k)) args /\
  run (B"t.with_nano") args = sh_tu (fun t k => vo_time (with_nanosecond t k)) args /\
  run (B"t.add") args = sh_td (fun t d => val_of_R enc_pair (overflowing_add_signed t d)) args /\
  run (B"t.sub") args = sh_td (fun t d => val_of_R enc_pair (overflowing_sub_signed t d)) args /\
  run (B"t.opadd") args = sh_td (fun t d => val_of_R enc_time (op_add_td t d)) args /\
  run (B"t.opsub") args = sh_td (fun t d => val_of_R enc_time (op_sub_td t d)) args /\
  run (B"t.opadd_assign") args = sh_td (fun t d => val_of_R enc_time (op_add_td t d)) args /\
  run (B"t.opsub_assign") args = sh_td (fun t d => val_of_R enc_time (op_sub_td t d)) args /\
  run (B"t.diff") args = sh_tt (fun t u => val_of_R enc_td (signed_duration_since t u)) args /\
  run (B"t.opdiff") args = sh_tt (fun t u => val_of_R enc_td (op_sub_time t u)) args /\
  run (B"t.addstd") args = sh_ts (fun t s n => val_of_R enc_time (op_add_std t s n)) args /\
  run (B"t.substd") args = sh_ts (fun t s n => val_of_R enc_time (op_sub_std t s n)) args /\
  run (B"t.addstd_assign") args = sh_ts (fun t s n => val_of_R enc_time (op_add_std t s n)) args /\
  run (B"t.substd_assign") args = sh_ts (fun t s n => val_of_R enc_time (op_sub_std t s n)) args /\
  run (B"t.addoff") args = sh_to (fun t k => val_of_R enc_time (op_add_offset t k)) args /\
  run (B"t.suboff") args = sh_to (fun t k => val_of_R enc_time (op_sub_offset t k)) args /\
  run (B"t.addoffd") args = sh_to (fun t k => val_of_R enc_pair (overflowing_add_offset t k)) args /\
  run (B"t.suboffd") args = sh_to (fun t k => val_of_R enc_pair (overflowing_sub_offset t k)) args /\
  run (B"ndt.add") args = sh_nd (fun a d => val_of_R (val_of_option DateTime.enc_ndt) (DateTime.ndt_checked_add_signed a d)) args /\
  run (B"ndt.sub") args = sh_nd (fun a d => val_of_R (val_of_option DateTime.enc_ndt) (DateTime.ndt_checked_sub_signed a d)) args /\
  run (B"ndt.opadd") args = sh_nd (fun a d => val_of_R DateTime.enc_ndt (unwrap_r (DateTime.ndt_checked_add_signed a d))) args /\
  run (B"ndt.opsub") args = sh_nd (fun a d => val_of_R DateTime.enc_ndt (unwrap_r (DateTime.ndt_checked_sub_signed a d))) args /\
  run (B"ndt.tacc") args = sh_tacc args /\
  run (B"ndt.twith") args = sh_twith args /\
  run (B"t.phms") args = sh_u3 (fun h m s => val_of_R enc_time (unwrap_r (from_hms_opt h m s))) args /\
  run (B"t.phms_milli") args = sh_u4 (fun h m s x => val_of_R enc_time (unwrap_r (from_hms_milli_opt h m s x))) args /\
  run (B"t.phms_micro") args = sh_u4 (fun h m s x => val_of_R enc_time (unwrap_r (from_hms_micro_opt h m s x))) args /\
  run (B"t.phms_nano") args = sh_u4 (fun h m s x => val_of_R enc_time (unwrap_r (from_hms_nano_opt h m s x))) args /\
  run (B"t.pnsfm") args = sh_u2 (fun s n => val_of_R enc_time (unwrap (from_num_seconds_from_midnight_opt s n))) args.
Proof. exact dispatch. Qed.
Print Assumptions C07_dispatch.
Example C07_ops_inhabited :
  tvalid (DateTime.nd_time (DateTime.mk_ndt Proofs.C07Ndt.leap_date (mk_time 86399 1500000000))) /\
  unwrap_r (from_hms_opt 24 0 0) = Panic /\ unwrap_r (from_hms_opt 23 59 59) = Val (mk_time 86399 0) /\
  unwrap (from_num_seconds_from_midnight_opt 86399 1999999999) = Val (mk_time 86399 1999999999).
Proof. exact ops_inhabited. Qed.
Print Assumptions C07_ops_inhabited.

(* ---- NaiveDateTime + / - core::time::Duration (ops ndt.addstd, ndt.substd and the += / -= forms, which the
   dispatcher answers with the same function: C07_dispatch_std).  For every valid date-time and EVERY Duration
   (u64 seconds, nanoseconds below 10^9): with D the Duration in nanoseconds, the result is the timeline rule
   of the time of day (add_result = Spec/TimeOfDay.v tl_add, leap-second operands included) with the carry
   applied to the date; Panic exactly when D exceeds TimeDelta::MAX (9223372036854775807 ms) or the date
   leaves the representable range.  DMAXNS is TimeDelta::MAX in nanoseconds, the judge's DMAX *)
Example C07_DMAXNS_value : Proofs.C07Holds.DMAXNS = 9223372036854775807000000 /\ Proofs.C07Holds.DMAXNS = Judge.C07.DMAX.
Proof. exact (conj eq_refl eq_refl). Qed.
Print Assumptions C07_DMAXNS_value.
Theorem C07_ndt_add_std : forall a ds dn,
  Proofs.C03.vdate (DateTime.nd_date a) -> tvalid (DateTime.nd_time a) -> in_u64 ds = true -> 0 <= dn < 1000000000 ->
  let D := ds * 1000000000 + dn in
  if D <=? Proofs.C07Holds.DMAXNS then
    let ar := add_result (tsecs (DateTime.nd_time a)) (tfrac (DateTime.nd_time a)) (1 * D) in
    let n := Proofs.C03.dn (DateTime.nd_date a) + snd ar / 86400 in
    if dn_in_range n
    then exists b, ndt_add_std a ds dn = Val b /\ DateTime.nd_time b = fst ar /\
                   Proofs.C03.vdate (DateTime.nd_date b) /\ Proofs.C03.dn (DateTime.nd_date b) = n
    else ndt_add_std a ds dn = Panic
  else ndt_add_std a ds dn = Panic.
Proof. exact Proofs.C07Holds.ndt_add_std_spec. Qed.
Print Assumptions C07_ndt_add_std.
Theorem C07_ndt_sub_std : forall a ds dn,
  Proofs.C03.vdate (DateTime.nd_date a) -> tvalid (DateTime.nd_time a) -> in_u64 ds = true -> 0 <= dn < 1000000000 ->
  let D := ds * 1000000000 + dn in
  if D <=? Proofs.C07Holds.DMAXNS then
    let ar := add_result (tsecs (DateTime.nd_time a)) (tfrac (DateTime.nd_time a)) (-1 * D) in
    let n := Proofs.C03.dn (DateTime.nd_date a) + snd ar / 86400 in
    if dn_in_range n
    then exists b, ndt_sub_std a ds dn = Val b /\ DateTime.nd_time b = fst ar /\
                   Proofs.C03.vdate (DateTime.nd_date b) /\ Proofs.C03.dn (DateTime.nd_date b) = n
    else ndt_sub_std a ds dn = Panic
  else ndt_sub_std a ds dn = Panic.
Proof. exact Proofs.C07Holds.ndt_sub_std_spec. Qed.
Print Assumptions C07_ndt_sub_std.
(* all three outcomes occur: a leap-second operand carried over midnight into the next year; a Duration one
   millisecond beyond TimeDelta::MAX; the largest convertible Duration pushing the date out of range *)
Example C07_ndt_std_inhabited :
  ndt_add_std (DateTime.mk_ndt Proofs.C07Ndt.leap_date (mk_time 86399 1500000000)) 1 0 =
    Val (DateTime.mk_ndt (Proofs.C08Sweeps.mkdate 2017 1) (mk_time 0 500000000)) /\
  ndt_add_std (DateTime.mk_ndt Proofs.C07Ndt.leap_date (mk_time 0 0)) 9223372036854775 808000000 = Panic /\
  (9223372036854775 * 1000000000 + 807000000 <=? Proofs.C07Holds.DMAXNS) = true /\
  ndt_sub_std (DateTime.mk_ndt Proofs.C07Ndt.leap_date (mk_time 0 0)) 9223372036854775 807000000 = Panic.
Proof. exact Proofs.C07Holds.ndt_std_examples. Qed.
Print Assumptions C07_ndt_std_inhabited.
Theorem C07_dispatch_std : forall args,
  run (B"ndt.addstd") args = Proofs.C07Holds.sh_ns (fun a s n => val_of_R DateTime.enc_ndt (ndt_add_std a s n)) args /\
  run (B"ndt.substd") args = Proofs.C07Holds.sh_ns (fun a s n => val_of_R DateTime.enc_ndt (ndt_sub_std a s n)) args /\
  run (B"ndt.addstd_assign") args = Proofs.C07Holds.sh_ns (fun a s n => val_of_R DateTime.enc_ndt (ndt_add_std a s n)) args /\
  run (B"ndt.substd_assign") args = Proofs.C07Holds.sh_ns (fun a s n => val_of_R DateTime.enc_ndt (ndt_sub_std a s n)) args.
Proof. exact Proofs.C07Holds.dispatch_std. Qed.
Print Assumptions C07_dispatch_std.

(* the four ops of the deprecated NaiveDate::and_hms* (date, then the u32 arguments) *)
Theorem C07_dispatch_and_hms : forall args,
  run (B"ndt.phms") args = sh_d3 (fun d h m s => val_of_R DateTime.enc_ndt (nd_and_hms d h m s)) args /\
  run (B"ndt.phms_milli") args = sh_d4 (fun d h m s x => val_of_R DateTime.enc_ndt (nd_and_hms_milli d h m s x)) args /\
  run (B"ndt.phms_micro") args = sh_d4 (fun d h m s x => val_of_R DateTime.enc_ndt (nd_and_hms_micro d h m s x)) args /\
  run (B"ndt.phms_nano") args = sh_d4 (fun d h m s x => val_of_R DateTime.enc_ndt (nd_and_hms_nano d h m s x)) args.
Proof. exact dispatch_and_hms. Qed.
Print Assumptions C07_dispatch_and_hms.

(* ---- judge acceptance.  For EVERY op name and EVERY argument list: whenever the independent executable
   statement of the property (Judge/C07.v, written from the property text over Spec/TimeOfDay.v and
   Spec/Gregorian.v) has an opinion on the case, it accepts the model's output.  All 45 ops of the dispatcher
   are covered (an unknown op name is skipped by the judge).  43 ops need no premise at all
   (C07_holds_strict).  The two Timelike-on-NaiveDateTime ops (ndt.tacc, ndt.twith) need the argument list to
   decode ([run op args <> VBad]): their judge reads the time part only and does not examine the date, while
   the dispatcher decodes the whole date-time first and answers BADARGS for a date that does not exist (such
   cases are ignored by the check on both sides; C07_holds_premise_needed shows one) *)
Theorem C07_holds_strict : forall op args, op_is op "ndt.tacc" = false -> op_is op "ndt.twith" = false ->
  Judge.C07.judge op args (run op args) <> JSkip -> Judge.C07.judge op args (run op args) = JOk.
Proof. exact Proofs.C07Holds.C07_holds_strict. Qed.
Print Assumptions C07_holds_strict.
Theorem C07_holds : forall op args, run op args <> VBad ->
  Judge.C07.judge op args (run op args) <> JSkip -> Judge.C07.judge op args (run op args) = JOk.
Proof. exact Proofs.C07Holds.C07_holds. Qed.
Print Assumptions C07_holds.
Theorem C07_never_bad : forall op args, run op args <> VBad ->
  Proofs.HoldsLib.not_bad (Judge.C07.judge op args (run op args)).
Proof. exact Proofs.C07Holds.C07_never_bad. Qed.
Print Assumptions C07_never_bad.
Example C07_holds_premise_needed :
  run (B"ndt.tacc") [VTup [VInt 2001; VInt 400; VInt 0; VInt 0]] = VBad /\
  Judge.C07.judge (B"ndt.tacc") [VTup [VInt 2001; VInt 400; VInt 0; VInt 0]] VBad <> JSkip.
Proof. exact Proofs.C07Holds.tacc_lazy_judge_example. Qed.
Print Assumptions C07_holds_premise_needed.
Example C07_holds_inhabited :
  run (B"ndt.addstd") [VTup [VInt 2016; VInt 366; VInt 86399; VInt 1500000000]; VInt 1; VInt 0]
    = VTup [VInt 2017; VInt 1; VInt 0; VInt 500000000] /\
  Judge.C07.judge (B"ndt.addstd") [VTup [VInt 2016; VInt 366; VInt 86399; VInt 1500000000]; VInt 1; VInt 0]
    (VTup [VInt 2017; VInt 1; VInt 0; VInt 500000000]) = JOk /\
  run (B"ndt.tacc") [VTup [VInt 2016; VInt 366; VInt 86399; VInt 1500000000]] <> VBad.
Proof. exact Proofs.C07Holds.holds_inhabited. Qed.
Print Assumptions C07_holds_inhabited.
