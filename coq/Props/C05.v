(** C05 — Local time follows the zone data: offsets, gaps and folds.
    Property theorems only: each is closed by [exact] of a lemma from Proofs/C05.v and followed by
    [Print Assumptions].  Model functions are the line-by-line transcription of
    src/offset/local/tz_info/{timezone,rule}.rs (Model/TzLookup.v, Model/TzRule.v) and of the glue
    in src/offset/local/{unix,mod}.rs and src/offset/mod.rs (Model/C05.v), with trapping integer
    arithmetic ([Val]/[Panic]) and [Result] values ([Ok]/[Err]). *)
From Coq Require Import ZArith List Bool.
From V Require Import Base.Int Base.IO.
From V Require Import Model.TzParser Model.TzRule Model.TzLookup Model.C05 Proofs.C05.
Open Scope Z_scope.

(* the result contract: what .earliest() / .latest() / .single() return for each shape *)
Theorem C05_projections : forall (A : Type) (m : mlt A),
  match m with
  | MNone => mlt_earliest m = None /\ mlt_latest m = None /\ mlt_single m = None
  | MSingle x => mlt_earliest m = Some x /\ mlt_latest m = Some x /\ mlt_single m = Some x
  | MAmbiguous a b => mlt_earliest m = Some a /\ mlt_latest m = Some b /\ mlt_single m = None
  end.
Proof. exact @mlt_projections. Qed.
Print Assumptions C05_projections.

(* order, transition table: whenever the scan over ANY transition list answers Ambiguous(a, b),
   a carries the strictly larger offset, i.e. local - offset(a) < local - offset(b): a is the
   earlier instant (and the two candidates are distinct: an equal-offset transition never
   produces a pair) *)
Theorem C05_table_order : forall trs types prev l a b,
  local_loop types trs prev l = Val (inl (MAmbiguous a b)) -> ut_offset a > ut_offset b.
Proof. exact local_loop_order. Qed.
Print Assumptions C05_table_order.

(* order, POSIX rule: the same in all four hemisphere/sign branches, for every rule, year and
   wall-clock reading *)
Theorem C05_rule_order : forall a y l x z,
  alt_find_local_time_type_from_local a y l = Val (Ok (MAmbiguous x z)) -> ut_offset x > ut_offset z.
Proof. exact alt_local_order. Qed.
Print Assumptions C05_rule_order.
