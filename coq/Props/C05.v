(** C05 — Local time follows the zone data: offsets, gaps and folds.
    Property theorems only: each is closed by [exact] of a lemma from Proofs/C05.v and followed by
    [Print Assumptions].  Model functions are the line-by-line transcription of
    src/offset/local/tz_info/{timezone,rule}.rs (Model/TzLookup.v, Model/TzRule.v) and of the glue
    in src/offset/local/{unix,mod}.rs and src/offset/mod.rs (Model/C05.v), with trapping integer
    arithmetic ([Val]/[Panic]) and [Result] values ([Ok]/[Err]).

    Coverage of "wall clock -> candidates" against the oracle Spec/Zone.v [instants_of_wall]:
    table-only zones (C05_classification_table, C05_roundtrip_table), TZ strings / rule-only zones
    (C05_rule_zone_classification), COMPOSITE zones = table + footer rule
    (C05_composite_classification, C05_roundtrip_composite), and the value level of
    Local.from_local_datetime (the C05_from_local_values theorems).  Composite zones whose last table
    transition, read on the clocks involved, straddles a calendar-year boundary (excluded by clause (1)
    of [footer_continues]) are covered by the _wide theorems (Proofs/C05Wide.v), which supersede the
    one-year forms. *)
From Coq Require Import ZArith List Bool String.
From V Require Import Base.Int Base.IO.
From V Require Import Spec.Zone Proofs.TzCommon.
From V Require Spec.Gregorian.
From V Require Import Model.TzParser Model.TzRule Model.TzLookup Model.C05 Proofs.C05 Proofs.C05Composite Proofs.C05Glue Proofs.C05Judge Proofs.C05Wide Proofs.C05Full Proofs.C05Holds Proofs.C05Ops Proofs.C05OpsZones Proofs.C05OpsComposite Proofs.C05OpsAll.
From V Require Model.Date Model.DateTime Model.Scan Model.FromStr Model.C02 Model.TimeDelta Proofs.C05Conv Proofs.C05Asg Proofs.C03 Proofs.C06.
Import ListNotations.
Open Scope Z_scope.

(* the result contract: what .earliest() / .latest() / .single() return for each shape *)
Theorem C05_projections : forall (A : Type) (m : mlt A),
  match m with
  | MNone => mlt_earliest m = None /\ mlt_latest m = None /\ mlt_single m = None
  | MSingle x => mlt_earliest m = Some x /\ mlt_latest m = Some x /\ mlt_single m = Some x
  | MAmbiguous a b => mlt_earliest m = Some a /\ mlt_latest m = Some b /\ mlt_single m = None
  end.
Proof. exact @mlt_projections. Qed.
Print Assumptions C05_projections.

(* order, transition table: whenever the scan over ANY transition list answers Ambiguous(a, b),
   a carries the strictly larger offset, i.e. local - offset(a) < local - offset(b): a is the
   earlier instant (and the two candidates are distinct: an equal-offset transition never
   produces a pair) *)
Theorem C05_table_order : forall trs types prev l a b,
  local_loop types trs prev l = Val (inl (MAmbiguous a b)) -> ut_offset a > ut_offset b.
Proof. exact local_loop_order. Qed.
Print Assumptions C05_table_order.

(* order, POSIX rule: the same in all four hemisphere/sign branches, for every rule, year and
   wall-clock reading *)
Theorem C05_rule_order : forall a y l x z,
  alt_find_local_time_type_from_local a y l = Val (Ok (MAmbiguous x z)) -> ut_offset x > ut_offset z.
Proof. exact alt_local_order. Qed.
Print Assumptions C05_rule_order.

(** ** Transition table (zones without footer rule), against the oracle Spec/Zone.v.
    [table_zone z ps first]: the zone is valid — type 0 exists ([first]), every transition's type
    index is in range ([ps] = the transitions resolved to (time, type)), times within +-2^62,
    offsets 32-bit.  [offs ps] = the (instant, offset) list; [szone_of ps first] = the zone as the
    oracle sees it; [spacing_table] = the judge's spacing condition (windows disjoint, in order). *)

(* the loop of find_local_time_type_from_local is the pure scan, on every valid zone *)
Theorem C05_table_scan : forall trs ps types prev l,
  resolved types trs ps -> Forall (fun p => t_ok (fst p) /\ o_ok (snd p)) ps -> o_ok prev ->
  local_loop types trs prev l = Val (scanL ps prev l).
Proof. exact local_loop_scanL. Qed.
Print Assumptions C05_table_scan.

(* offset_at_spec: for EVERY instant the lookup (binary search by its contract) answers the
   prescribed offset: type of the last transition at or before t, type 0 before the first *)
Theorem C05_offset_at_table : forall z ps first t,
  table_zone z ps first -> leap_seconds z = [] -> extra_rule z = None ->
  increasing (offs ps) = true -> zlen (transitions z) < 4611686018427387904 ->
  exists l, find_local_time_type z t = Val (Ok l) /\ zone_off (szone_of ps first) t = Some (ut_offset l).
Proof. exact offset_at_table. Qed.
Print Assumptions C05_offset_at_table.

(* the same inside the table of a zone WITH a footer rule, strictly before the last transition *)
Theorem C05_offset_at_before_last : forall z ps first t,
  table_zone z ps first -> leap_seconds z = [] -> increasing (offs ps) = true ->
  zlen (transitions z) < 4611686018427387904 ->
  (extra_rule z = None \/ exists lst, last_of (transitions z) = Some lst /\ t < tr_time lst) ->
  exists l, find_local_time_type z t = Val (Ok l) /\
            ut_offset l = table_off (offs ps) (ut_offset first) t.
Proof. exact find_local_time_type_table. Qed.
Print Assumptions C05_offset_at_before_last.

(* roundtrip: for EVERY instant t, converting its wall-clock reading t + off(t) back yields an
   answer that contains off(t) -- under the spacing condition *)
Theorem C05_roundtrip_table : forall z ps first y t,
  table_zone z ps first -> extra_rule z = None ->
  spacing_table (offs ps) (ut_offset first) = true ->
  forall o, zone_off (szone_of ps first) t = Some o ->
  exists m, find_local_time_type_from_local z y (t + o) = Val (Ok m) /\ contains m o.
Proof. exact roundtrip_table. Qed.
Print Assumptions C05_roundtrip_table.

(* unique / twice / skipped, and order: off the excepted boundary seconds the answer lists exactly
   S(l) = instants_of_wall, earliest first: None <-> S empty, Single <-> one instant,
   Ambiguous <-> two instants *)
Theorem C05_classification_table : forall z ps first y l,
  table_zone z ps first -> extra_rule z = None ->
  increasing (offs ps) = true -> spacing_table (offs ps) (ut_offset first) = true ->
  excepted_wall (szone_of ps first) l = false ->
  exists m, find_local_time_type_from_local z y l = Val (Ok m) /\
  let S := instants_of_wall (szone_of ps first) l in
  match m with
  | MNone => S = []
  | MSingle a => forall t, In t S <-> t = l - ut_offset a
  | MAmbiguous a b => l - ut_offset a < l - ut_offset b /\
                      forall t, In t S <-> t = l - ut_offset a \/ t = l - ut_offset b
  end.
Proof. exact classification_table. Qed.
Print Assumptions C05_classification_table.

(* with a footer rule the scan still decides every reading up to the last window; only a reading
   past all windows goes to the rule *)
Theorem C05_scan_then_rule : forall z ps first y l,
  table_zone z ps first ->
  find_local_time_type_from_local z y l =
  match scanL ps first l with
  | inl m => Val (Ok m)
  | inr last =>
      match extra_rule z with
      | Some rule => oor_to EFindLocalTimeType (rule_find_local_time_type_from_local rule y l)
      | None => Val (Ok (MSingle last))
      end
  end.
Proof. exact from_local_scan. Qed.
Print Assumptions C05_scan_then_rule.

(* the oracle itself: instants_of_wall z l is exactly { t | the zone is at offset l - t at t },
   in ascending order *)
Theorem C05_instants_of_wall_spec : forall z l t,
  In t (instants_of_wall z l) <-> zone_off z t = Some (l - t) /\ In (l - t) (zone_offsets z).
Proof. exact instants_of_wall_spec. Qed.
Print Assumptions C05_instants_of_wall_spec.
Theorem C05_instants_of_wall_asc : forall z l, asc (instants_of_wall z l).
Proof. exact instants_of_wall_asc. Qed.
Print Assumptions C05_instants_of_wall_asc.

(** ** The glue *)
(* Local.from_utc_datetime: the selected type's offset on the same UTC reading; panics exactly
   when the lookup fails or the offset is not a FixedOffset *)
Theorem C05_glue_utc : forall zone utc ts,
  DateTime.dt_timestamp utc = Val ts ->
  from_utc_datetime zone utc =
  match find_local_time_type zone ts with
  | Val (Ok l) => if (-86400 <? ut_offset l) && (ut_offset l <? 86400)
                  then Val (DateTime.mk_dtz utc (ut_offset l)) else Panic
  | Val (Err _) => Panic
  | Panic => Panic
  | OutOfFuel => OutOfFuel
  end.
Proof. exact glue_utc. Qed.
Print Assumptions C05_glue_utc.
(* Local.offset_from_local_datetime: the lookup's candidates mapped to their offsets *)
Theorem C05_glue_local : forall zone local ts,
  DateTime.dt_timestamp local = Val ts ->
  offset_from_local_datetime zone local =
  match find_local_time_type_from_local zone (Date.d_year (DateTime.nd_date local)) ts with
  | Val (Ok m) => Val (mlt_and_then m (fun o => DateTime.east_opt (ut_offset o)))
  | Val (Err _) => Panic
  | Panic => Panic
  | OutOfFuel => OutOfFuel
  end.
Proof. exact glue_local. Qed.
Print Assumptions C05_glue_local.
(* ... unchanged when every candidate offset is a FixedOffset, None as a whole otherwise *)
Theorem C05_glue_filter : forall m : mlt ltt,
  ((forall o, contains m o -> off_ok o) ->
   mlt_and_then m (fun o => DateTime.east_opt (ut_offset o)) = mlt_map m ut_offset) /\
  (forall o, contains m o -> ~ off_ok o ->
   mlt_and_then m (fun o => DateTime.east_opt (ut_offset o)) = MNone).
Proof. exact glue_filter. Qed.
Print Assumptions C05_glue_filter.

(* the hypotheses of the table theorems are inhabited (Europe/Berlin's transitions of 2023:
   a reading that occurs twice, one that is skipped, one that occurs once) *)
Theorem C05_example :
  table_zone ex_zone ex_ps ex_cet /\ leap_seconds ex_zone = [] /\ extra_rule ex_zone = None /\
  increasing (offs ex_ps) = true /\ spacing_table (offs ex_ps) (ut_offset ex_cet) = true /\
  zlen (transitions ex_zone) < 4611686018427387904 /\
  excepted_wall (szone_of ex_ps ex_cet) 1698546600 = false /\
  find_local_time_type_from_local ex_zone 2023 1698546600 = Val (Ok (MAmbiguous ex_cest ex_cet)) /\
  instants_of_wall (szone_of ex_ps ex_cet) 1698546600 = [1698539400; 1698543000] /\
  find_local_time_type_from_local ex_zone 2023 1679797800 = Val (Ok MNone) /\
  instants_of_wall (szone_of ex_ps ex_cet) 1679797800 = [] /\
  find_local_time_type_from_local ex_zone 2023 1688169600 = Val (Ok (MSingle ex_cest)) /\
  instants_of_wall (szone_of ex_ps ex_cet) 1688169600 = [1688162400].
Proof. exact ex_facts. Qed.
Print Assumptions C05_example.

(** ** POSIX rules (footer rule / TZ string), against the calendar and zone oracles.
    [conv_day] / [conv_rule]: the rule as the oracle sees it; [alt_ok]: a rule the reader can
    produce (days in range, |times| < 7 days, 32-bit offsets). *)

(* days_since_unix_epoch is the oracle's day number relative to 1970-01-01, for every year an i32
   can hold, every month and day offsets in +-100 *)
Theorem C05_days_since_unix_epoch : forall year month md,
  -2147483650 <= year <= 2147483650 -> 1 <= month <= 12 -> -100 <= md <= 100 ->
  days_since_unix_epoch year month md = Val (Gregorian.dn_of_ymd year month md - Gregorian.EPOCH_DN).
Proof. exact dse_eq. Qed.
Print Assumptions C05_days_since_unix_epoch.

(* RuleDay::transition_date: a date of the year whose day number is the oracle's rule day *)
Theorem C05_transition_date : forall d year, day_ok d -> -2147483650 <= year <= 2147483650 ->
  exists m md, transition_date d year = Val (m, md) /\ 1 <= m <= 12 /\ 1 <= md <= 32 /\
               Gregorian.dn_of_ymd year m md = rday_dn year (conv_day d).
Proof. exact transition_date_eq. Qed.
Print Assumptions C05_transition_date.

(* RuleDay::unix_time *)
Theorem C05_rule_unix_time : forall d year tt, day_ok d -> -2147483650 <= year <= 2147483650 ->
  -10000000000 <= tt <= 10000000000 ->
  rule_unix_time d year tt = Val ((rday_dn year (conv_day d) - Gregorian.EPOCH_DN) * 86400 + tt).
Proof. exact rule_unix_time_eq. Qed.
Print Assumptions C05_rule_unix_time.

(* UtcDateTime::from_timespec: the year is the oracle's year of the instant *)
Theorem C05_from_timespec_year : forall t, -1000000000000000 <= t <= 1000000000000000 ->
  exists mo md h mi s, from_timespec t = Val (Ok (utc_year t, mo, md, h, mi, s)).
Proof. exact from_timespec_utc_year. Qed.
Print Assumptions C05_from_timespec_year.

(* rule_offset_spec: AlternateTime::find_local_time_type answers DST exactly when the instant lies
   in a DST interval of the rule, for every rule and instant satisfying the property's premise
   (rule transitions more than a day inside the years around the instant) whose start/end order
   is the same in the previous and the current year *)
Theorem C05_rule_offset_spec : forall a t, alt_ok a -> -1000000000000000 <= t <= 1000000000000000 ->
  let r := conv_rule a in let y := utc_year t in
  -86400 < r_std r < 86400 -> -86400 < r_dst r < 86400 ->
  premise_year r (y - 2) = true -> premise_year r (y - 1) = true ->
  premise_year r y = true -> premise_year r (y + 1) = true ->
  (rule_start_utc r (y - 1) <? rule_end_utc r (y - 1)) = (rule_start_utc r y <? rule_end_utc r y) ->
  alt_find_local_time_type a t = Val (Ok (if rule_is_dst r t then a_dst a else a_std a)).
Proof. exact rule_offset_spec. Qed.
Print Assumptions C05_rule_offset_spec.

(* offset_at_spec, rule part: zones with a footer rule at or after the last transition, and TZ
   strings at every instant *)
Theorem C05_offset_at_rule : forall z a t,
  leap_seconds z = [] -> extra_rule z = Some (Alternate a) ->
  (transitions z = [] \/ exists lst, last_of (transitions z) = Some lst /\ tr_time lst <= t) ->
  rule_hyps a t ->
  find_local_time_type z t = Val (Ok (if rule_is_dst (conv_rule a) t then a_dst a else a_std a)).
Proof. exact offset_at_rule. Qed.
Print Assumptions C05_offset_at_rule.
Theorem C05_zone_off_rule : forall first tr r t,
  (match last_trans tr with Some tl => tl < t | None => True end) ->
  zone_off (mk_szone first tr (Some (inr r))) t = Some (if rule_is_dst r t then r_dst r else r_std r).
Proof. exact zone_off_rule. Qed.
Print Assumptions C05_zone_off_rule.

(* wall clock -> candidates for a rule: the four hemisphere/sign branches are the transition-table
   scan over the year's two transitions; hence C05_table_* (roundtrip, classification, order)
   apply to [year_table a y].
   PARTIAL w.r.t. the full classification against instants_of_wall of a zone with a rule: what is
   not proved is that for a wall reading of year y the oracle's candidates are exactly those of
   the year's two transitions (it needs the premise for the neighbouring years plus the window
   algebra of rule_is_dst); the correspondence run covers that link.
   SUPERSEDED by C05_rule_local_total + C05_rule_answer_table (every year, every second, no condition
   on excepted seconds) and, against the oracle, by C05_rule_zone_every_second. *)
Theorem C05_rule_local_year_table_partial : forall a y l, alt_ok a -> -2147483650 <= y <= 2147483650 ->
  ut_offset (a_std a) <> ut_offset (a_dst a) ->
  let '(ps, first) := year_table a y in
  ordered (windows (offs ps) (ut_offset first)) = true ->
  excepted_table (offs ps) (ut_offset first) l = false ->
  alt_find_local_time_type_from_local a y l = Val (Ok (table_answer ps first l)).
Proof. exact rule_local_as_table. Qed.
Print Assumptions C05_rule_local_year_table_partial.
(* PARTIAL in the same sense; SUPERSEDED by C05_rule_zone_every_second (the zone-level statement for
   every second, with the oracle link) *)
Theorem C05_from_local_rule_zone_partial : forall z a first y l,
  transitions z = [] -> index (local_time_types z) 0 = Val first -> extra_rule z = Some (Alternate a) ->
  alt_ok a -> -2147483650 <= y <= 2147483650 -> ut_offset (a_std a) <> ut_offset (a_dst a) ->
  let '(ps, prev) := year_table a y in
  ordered (windows (offs ps) (ut_offset prev)) = true ->
  excepted_table (offs ps) (ut_offset prev) l = false ->
  find_local_time_type_from_local z y l = Val (Ok (table_answer ps prev l)).
Proof. exact from_local_rule_zone. Qed.
Print Assumptions C05_from_local_rule_zone_partial.

(** ** POSIX rules, full forms (Proofs/C05Full.v): EVERY year argument, EVERY wall-clock second.
    [rule_answer a y l]: the None / Single / Ambiguous answer as a pure function of the wall-clock
    readings of the two rule transitions of year y (the four-branch if-chain of the Rust, verbatim). *)
(* for every rule the reader can produce, every year an i32 can hold and every reading the rule code
   neither traps nor fails, and answers [rule_answer] *)
Theorem C05_rule_local_total : forall a y l, alt_ok a -> -2147483650 <= y <= 2147483650 ->
  alt_find_local_time_type_from_local a y l = Val (Ok (rule_answer a y l)).
Proof. exact rule_local_total. Qed.
Print Assumptions C05_rule_local_total.
(* against the transition-table scan over the year's two transitions, on EVERY second (no premise on
   the year, no excepted seconds): the same answer, except on the first second of a skipped interval
   at the year's SECOND transition, where the rule code answers None and the scan Single(type before)
   (the two hemisphere branches "dst_start < dst_end, std > dst" and "dst_end < dst_start, std < dst"
   of the Rust treat that second differently from the other two; the property excepts it, and None is
   what the oracle says there).  With C05_table_scan / C05_classification_table this classifies the
   answer against the two-transition zone [year_table a y] for every year. *)
Theorem C05_rule_answer_table : forall a y l, ut_offset (a_std a) <> ut_offset (a_dst a) ->
  let '(ps, first) := year_table a y in
  ordered (windows (offs ps) (ut_offset first)) = true ->
  rule_answer a y l = table_answer ps first l \/
  (rule_answer a y l = MNone /\
   exists t1 x t2 w, ps = [(t1, x); (t2, w)] /\ ut_offset x < ut_offset w /\ l = t2 + ut_offset x /\
                     table_answer ps first l = MSingle x).
Proof. exact rule_answer_table. Qed.
Print Assumptions C05_rule_answer_table.
(* against the ORACLE, for EVERY wall-clock second l of a TZ string / rule-only zone (k = the calendar
   year of l = the year argument the glue passes, C05_glue_timestamp), under the property's premise
   for the years k-3..k+2 and with the year's two windows disjoint and in order:
   (a) every instant of S(l) = instants_of_wall is among the candidates -- on the excepted seconds this
       is only an inclusion (C05_rule_every_second_example: the last second of a repeated interval gets
       Ambiguous, the first second of a skipped interval may get Single);
   (b) off the excepted seconds the candidates are exactly S(l), earliest first.
   Years in which the premise fails: C05_rule_premise_refuted. *)
Theorem C05_rule_zone_every_second : forall z a first l,
  let k := utc_year l in let r := conv_rule a in
  transitions z = [] -> index (local_time_types z) 0 = Val first -> extra_rule z = Some (Alternate a) ->
  alt_ok a -> -2147483650 <= k <= 2147483650 -> r_std r <> r_dst r -> rule_year_hyps r k ->
  let '(ps, prev) := year_table a k in
  ordered (windows (offs ps) (ut_offset prev)) = true ->
  exists m, find_local_time_type_from_local z k l = Val (Ok m) /\ m = rule_answer a k l /\
  let rz := mk_szone (ut_offset first) [] (Some (inr r)) in
  (forall t, In t (instants_of_wall rz l) -> contains m (l - t)) /\
  (excepted_table (offs ps) (ut_offset prev) l = false -> classified rz l m).
Proof. exact rule_zone_every_second. Qed.
Print Assumptions C05_rule_zone_every_second.
(* roundtrip for a TZ string on EVERY instant t, excepted boundary seconds included: the answer at the
   wall reading t + off(t) contains off(t) *)
Theorem C05_roundtrip_rule_zone : forall z a first t,
  let r := conv_rule a in let o := roff r t in let l := t + o in let k := utc_year l in
  transitions z = [] -> index (local_time_types z) 0 = Val first -> extra_rule z = Some (Alternate a) ->
  alt_ok a -> -2147483650 <= k <= 2147483650 -> r_std r <> r_dst r -> rule_year_hyps r k ->
  ordered (windows (offs (fst (year_table a k))) (ut_offset (snd (year_table a k)))) = true ->
  exists m, find_local_time_type_from_local z k l = Val (Ok m) /\ contains m o.
Proof. exact roundtrip_rule_zone. Qed.
Print Assumptions C05_roundtrip_rule_zone.
(* inhabited, and the inclusions are strict on excepted seconds: CET-1CEST,M3.5.0,M10.5.0/3 in 2024 *)
Theorem C05_rule_every_second_example :
  alt_ok exc_rule /\ rule_year_hyps (conv_rule exc_rule) 2024 /\
  ordered (windows (offs (fst (year_table exc_rule 2024))) (ut_offset (snd (year_table exc_rule 2024)))) = true /\
  utc_year 1729998000 = 2024 /\
  excepted_table (offs (fst (year_table exc_rule 2024))) (ut_offset (snd (year_table exc_rule 2024))) 1729998000 = true /\
  find_local_time_type_from_local exr_zone 2024 1729998000 = Val (Ok (MAmbiguous ex_cest ex_cet)) /\
  instants_of_wall exr_rz 1729998000 = [1729994400] /\
  find_local_time_type_from_local exr_zone 2024 1711850400 = Val (Ok (MSingle ex_cet)) /\
  instants_of_wall exr_rz 1711850400 = [] /\
  find_local_time_type_from_local exr_zone 2024 1711854000 = Val (Ok (MSingle ex_cest)) /\
  instants_of_wall exr_rz 1711854000 = [1711846800].
Proof. exact exr_facts. Qed.
Print Assumptions C05_rule_every_second_example.
(* the premise on the years cannot be dropped: AAA0BBB,J200/0,J1/0:30 falls back across the year
   boundary; 2023-12-31T23:45:00 occurs twice, the rule code (two transitions of 2023 only) answers
   Single(BBB); every other hypothesis of C05_rule_zone_every_second holds.  Outside the property's
   premise (the judge skips: premise_at), hence no finding; the real code gives the same answer
   (corpus/C05/premise.case) *)
Theorem C05_rule_premise_refuted :
  alt_ok prem_rule /\ r_std (conv_rule prem_rule) <> r_dst (conv_rule prem_rule) /\
  utc_year 1704066300 = 2023 /\
  ordered (windows (offs (fst (year_table prem_rule 2023))) (ut_offset (snd (year_table prem_rule 2023)))) = true /\
  excepted_wall prem_rz 1704066300 = false /\
  premise_year (conv_rule prem_rule) 2023 = false /\ premise_year (conv_rule prem_rule) 2024 = false /\
  find_local_time_type_from_local prem_zone 2023 1704066300 = Val (Ok (MSingle prem_dst)) /\
  instants_of_wall prem_rz 1704066300 = [1704062700; 1704066300].
Proof. exact rule_premise_refuted. Qed.
Print Assumptions C05_rule_premise_refuted.

(* FULL classification for a TZ string (zone given by a POSIX rule alone): for a wall reading l of
   year k = utc_year l, off the excepted boundary seconds, under the property's premise for the
   years k-3..k+2 (rule_year_hyps) and with the year's two transition windows disjoint and in order,
   the answer lists exactly the oracle's instants_of_wall, earliest first *)
Theorem C05_rule_zone_classification : forall z a first l,
  let k := utc_year l in let r := conv_rule a in
  transitions z = [] -> index (local_time_types z) 0 = Val first -> extra_rule z = Some (Alternate a) ->
  alt_ok a -> -2147483650 <= k <= 2147483650 -> r_std r <> r_dst r -> rule_year_hyps r k ->
  let '(ps, prev) := year_table a k in
  ordered (windows (offs ps) (ut_offset prev)) = true ->
  excepted_table (offs ps) (ut_offset prev) l = false ->
  exists m, find_local_time_type_from_local z k l = Val (Ok m) /\
  let S := instants_of_wall (mk_szone (ut_offset first) [] (Some (inr r))) l in
  match m with
  | MNone => S = []
  | MSingle x => forall t, In t S <-> t = l - ut_offset x
  | MAmbiguous x y => l - ut_offset x < l - ut_offset y /\
                      forall t, In t S <-> t = l - ut_offset x \/ t = l - ut_offset y
  end.
Proof. exact rule_zone_classification. Qed.
Print Assumptions C05_rule_zone_classification.
(* the seconds excepted there are among the oracle's excepted seconds *)
Theorem C05_excepted_wall_year_table : forall a first l,
  let r := conv_rule a in
  let '(ps, prev) := year_table a (utc_year l) in
  excepted_wall (mk_szone first [] (Some (inr r))) l = false ->
  excepted_table (offs ps) (ut_offset prev) l = false.
Proof. exact excepted_wall_year_table. Qed.
Print Assumptions C05_excepted_wall_year_table.
(* the oracle's DST predicate in terms of the two transitions of the year of the wall reading *)
Theorem C05_rule_is_dst_year : forall r k t, rule_year_hyps r k ->
  (year_start k <= t + r_std r < year_start (k + 1) \/ year_start k <= t + r_dst r < year_start (k + 1)) ->
  rule_is_dst r t =
  (if rule_start_utc r k <? rule_end_utc r k
   then (rule_start_utc r k <=? t) && (t <? rule_end_utc r k)
   else (t <? rule_end_utc r k) || (rule_start_utc r k <=? t)).
Proof. exact rule_is_dst_year. Qed.
Print Assumptions C05_rule_is_dst_year.

(** ** COMPOSITE zones: a transition table followed by a footer rule (Proofs/C05Composite.v).
    [cz] = the zone as the oracle sees it.  [last_window] = the last table transition (instant,
    offset before, offset after); [footer_hi] = the end of its wall-clock window; [footer_year] = the
    calendar year of its wall reading.  [footer_continues cz] (decidable) = the continuity condition
    between table and rule: (1) read on every clock involved, the last table transition lies in one
    calendar year (implied by the property's premise when, as in every real file, the last table
    transition is one of the rule's transitions); (2) the offset in force after the last transition is
    the rule's offset there; (3) a rule transition of that year after the last table transition has its
    wall-clock window after the last table window, one at or before it has its window at or before the
    end of the last table window.  [rule_reading_hyps a l] = the premises of
    C05_rule_zone_classification for the reading l (year fits, property's premise for the years
    k-3..k+2, the year's two windows disjoint and in order); needed only past the last table window. *)

(* S(l) of the composite zone is S(l) of the table alone up to the end of the last table window and
   S(l) of the rule alone after it *)
Theorem C05_composite_instants : forall first tr r tl pv ol l,
  increasing tr = true -> ordered (windows tr first) = true ->
  last_window tr first = Some (tl, pv, ol) ->
  footer_continues (mk_szone first tr (Some (inr r))) = true ->
  rule_year_hyps r (utc_year (tl + ol)) ->
  let cz := mk_szone first tr (Some (inr r)) in
  (l <= tl + Z.max pv ol ->
   forall t, In t (instants_of_wall cz l) <-> In t (instants_of_wall (mk_szone first tr None) l)) /\
  (tl + Z.max pv ol < l ->
   forall t, In t (instants_of_wall cz l) <-> In t (instants_of_wall (mk_szone first [] (Some (inr r))) l)).
Proof. exact composite_instants. Qed.
Print Assumptions C05_composite_instants.

(* unique / twice / skipped, and order, for EVERY wall reading off the excepted seconds: the answer of
   find_local_time_type_from_local on the composite zone is None / Single / Ambiguous(earliest, latest)
   exactly as instants_of_wall is [] / [t] / [t1; t2] (C05_classification_table up to the last window,
   C05_rule_zone_classification after it, joined by C05_scan_then_rule and C05_composite_instants) *)
Theorem C05_composite_classification : forall z ps first a l,
  let k := utc_year l in let r := conv_rule a in
  let cz := mk_szone (ut_offset first) (offs ps) (Some (inr r)) in
  table_zone z ps first -> extra_rule z = Some (Alternate a) -> alt_ok a -> r_std r <> r_dst r ->
  increasing (offs ps) = true -> spacing_table (offs ps) (ut_offset first) = true ->
  footer_continues cz = true -> rule_year_hyps r (footer_year cz) ->
  (footer_hi cz < l -> rule_reading_hyps a l) ->
  excepted_wall cz l = false ->
  exists m, find_local_time_type_from_local z k l = Val (Ok m) /\
  let S := instants_of_wall cz l in
  match m with
  | MNone => S = []
  | MSingle x => forall t, In t S <-> t = l - ut_offset x
  | MAmbiguous x y => l - ut_offset x < l - ut_offset y /\
                      forall t, In t S <-> t = l - ut_offset x \/ t = l - ut_offset y
  end.
Proof. exact composite_classification. Qed.
Print Assumptions C05_composite_classification.

(* roundtrip: for EVERY instant t whose wall reading t + off(t) is not an excepted second, converting
   that reading back yields an answer that contains off(t), i.e. the instant t *)
Theorem C05_roundtrip_composite : forall z ps first a t o,
  let r := conv_rule a in
  let cz := mk_szone (ut_offset first) (offs ps) (Some (inr r)) in
  let l := t + o in
  table_zone z ps first -> extra_rule z = Some (Alternate a) -> alt_ok a -> r_std r <> r_dst r ->
  increasing (offs ps) = true -> spacing_table (offs ps) (ut_offset first) = true ->
  footer_continues cz = true -> rule_year_hyps r (footer_year cz) ->
  (footer_hi cz < l -> rule_reading_hyps a l) ->
  zone_off cz t = Some o -> excepted_wall cz l = false ->
  exists m, find_local_time_type_from_local z (utc_year l) l = Val (Ok m) /\ contains m o.
Proof. exact roundtrip_composite. Qed.
Print Assumptions C05_roundtrip_composite.

(* offset_at_spec on a composite zone, for EVERY instant: the binary search before the last transition,
   the rule from it on ([rule_hyps a t]: the premises of C05_offset_at_rule), joined by clause (2) of
   the continuity condition ([roff r tl] = the rule's offset at the last transition) *)
Theorem C05_offset_at_composite : forall z ps first a tl pv ol t,
  let r := conv_rule a in
  let cz := mk_szone (ut_offset first) (offs ps) (Some (inr r)) in
  table_zone z ps first -> leap_seconds z = [] -> extra_rule z = Some (Alternate a) ->
  increasing (offs ps) = true -> zlen (transitions z) < 4611686018427387904 ->
  last_window (offs ps) (ut_offset first) = Some (tl, pv, ol) -> roff r tl = ol ->
  (tl <= t -> rule_hyps a t) ->
  exists lt, find_local_time_type z t = Val (Ok lt) /\ zone_off cz t = Some (ut_offset lt).
Proof. exact offset_at_composite. Qed.
Print Assumptions C05_offset_at_composite.

(* FULL STRENGTH, no continuity assumption: for EVERY instant t the code answers the table's offset
   strictly before the last table transition tl and the rule's offset from tl on (tl included);
   against the oracle: this is [zone_off] wherever the standards prescribe an offset, and at t = tl,
   when table and footer disagree there (zone_off = None), the rule's offset.  (A file with such a
   disagreement is rejected by the reader: TimeZoneRef::validate, C16.)  Supersedes
   C05_offset_at_composite, which assumes [roff r tl = ol]. *)
Theorem C05_offset_at_composite_full : forall z ps first a tl pv ol t,
  let r := conv_rule a in
  let cz := mk_szone (ut_offset first) (offs ps) (Some (inr r)) in
  table_zone z ps first -> leap_seconds z = [] -> extra_rule z = Some (Alternate a) ->
  increasing (offs ps) = true -> zlen (transitions z) < 4611686018427387904 ->
  last_window (offs ps) (ut_offset first) = Some (tl, pv, ol) ->
  (tl <= t -> rule_hyps a t) ->
  exists lt, find_local_time_type z t = Val (Ok lt) /\
    ut_offset lt = (if t <? tl then table_off (offs ps) (ut_offset first) t else roff r t) /\
    (zone_off cz t = Some (ut_offset lt) \/
     (t = tl /\ zone_off cz t = None /\ ol <> roff r tl)).
Proof. exact offset_at_composite_full. Qed.
Print Assumptions C05_offset_at_composite_full.
(* the same for a table followed by a FIXED footer, with no hypothesis on the footer *)
Theorem C05_offset_at_composite_fixed : forall z ps first f tl pv ol t,
  let cz := mk_szone (ut_offset first) (offs ps) (Some (inl (ut_offset f))) in
  table_zone z ps first -> leap_seconds z = [] -> extra_rule z = Some (Fixed f) ->
  increasing (offs ps) = true -> zlen (transitions z) < 4611686018427387904 ->
  last_window (offs ps) (ut_offset first) = Some (tl, pv, ol) ->
  exists lt, find_local_time_type z t = Val (Ok lt) /\
    ut_offset lt = (if t <? tl then table_off (offs ps) (ut_offset first) t else ut_offset f) /\
    (zone_off cz t = Some (ut_offset lt) \/
     (t = tl /\ zone_off cz t = None /\ ol <> ut_offset f)).
Proof. exact offset_at_composite_fixed. Qed.
Print Assumptions C05_offset_at_composite_fixed.
(* both alternatives are inhabited: the Berlin-like zone at its last transition instant (agreement),
   and a table whose last transition switches to CEST on 2023-12-31 while the footer says CET *)
Theorem C05_offset_at_composite_full_example :
  table_zone disag_zone disag_ps ex_cet /\ leap_seconds disag_zone = [] /\
  last_window (offs disag_ps) (ut_offset ex_cet) = Some (1704060000, 3600, 7200) /\
  rule_hyps exc_rule 1704060000 /\
  zone_off (mk_szone (ut_offset ex_cet) (offs disag_ps) (Some (inr (conv_rule exc_rule)))) 1704060000 = None /\
  roff (conv_rule exc_rule) 1704060000 = 3600 /\
  find_local_time_type disag_zone 1704060000 = Val (Ok ex_cet) /\
  find_local_time_type disag_zone 1704059999 = Val (Ok ex_cet) /\
  rule_hyps exc_rule 1698541200 /\
  zone_off exc_cz 1698541200 = Some 3600 /\ find_local_time_type exc_zone 1698541200 = Val (Ok ex_cet).
Proof. exact disag_facts. Qed.
Print Assumptions C05_offset_at_composite_full_example.

(* the hypotheses are inhabited: Europe/Berlin's two transitions of 2023 followed by the footer
   CET-1CEST,M3.5.0,M10.5.0/3 *)
Theorem C05_composite_example :
  table_zone exc_zone ex_ps ex_cet /\ extra_rule exc_zone = Some (Alternate exc_rule) /\ alt_ok exc_rule /\
  r_std (conv_rule exc_rule) <> r_dst (conv_rule exc_rule) /\
  increasing (offs ex_ps) = true /\ spacing_table (offs ex_ps) (ut_offset ex_cet) = true /\
  footer_continues exc_cz = true /\ footer_year exc_cz = 2023 /\ footer_hi exc_cz = 1698548400 /\
  rule_year_hyps (conv_rule exc_rule) (footer_year exc_cz).
Proof. exact exc_hyps. Qed.
Print Assumptions C05_composite_example.
Theorem C05_composite_example_readings :
  rule_reading_hyps exc_rule 1729996200 /\ rule_reading_hyps exc_rule 1711852200 /\
  rule_reading_hyps exc_rule 1719792000 /\
  excepted_wall exc_cz 1729996200 = false /\ excepted_wall exc_cz 1711852200 = false /\
  excepted_wall exc_cz 1719792000 = false /\ excepted_wall exc_cz 1698546600 = false /\
  find_local_time_type_from_local exc_zone 2024 1729996200 = Val (Ok (MAmbiguous ex_cest ex_cet)) /\
  instants_of_wall exc_cz 1729996200 = [1729989000; 1729992600] /\
  find_local_time_type_from_local exc_zone 2024 1711852200 = Val (Ok MNone) /\
  instants_of_wall exc_cz 1711852200 = [] /\
  find_local_time_type_from_local exc_zone 2024 1719792000 = Val (Ok (MSingle ex_cest)) /\
  instants_of_wall exc_cz 1719792000 = [1719784800] /\
  find_local_time_type_from_local exc_zone 2023 1698546600 = Val (Ok (MAmbiguous ex_cest ex_cet)) /\
  instants_of_wall exc_cz 1698546600 = [1698539400; 1698543000].
Proof. exact exc_readings. Qed.
Print Assumptions C05_composite_example_readings.

(* the continuity condition against the JUDGE's own domain condition for composite zones
   ([J] = Judge/C05.v; [J.spacing_rule_table]: every rule transition of the three years around the
   last table transition continues the table / ends its window before / begins it after the last
   table window): where the last table transition lies in one calendar year on the clocks involved
   (clause (1)) and the offset after it is the rule's (clause (2)), a zone the judge calls well spaced
   satisfies footer_continues -- the readings judged under lz.loc / lz.sel / lz.rt on such zones are
   readings C05_composite_classification speaks about *)
Theorem C05_judge_spacing_footer_continues : forall first tr r tl pv ol,
  let cz := mk_szone first tr (Some (inr r)) in
  let k := utc_year (tl + ol) in
  increasing tr = true -> last_window tr first = Some (tl, pv, ol) ->
  J.spacing_rule_table cz r = true ->
  utc_year tl = k ->
  (year_start k <=? tl + Z.min (r_std r) (r_dst r)) = true ->
  (tl + Z.max (Z.max (r_std r) (r_dst r)) pv <? year_start (k + 1)) = true ->
  roff r tl = ol -> rule_year_hyps r k ->
  footer_continues cz = true.
Proof. exact judge_spacing_footer_continues. Qed.
Print Assumptions C05_judge_spacing_footer_continues.
Theorem C05_judge_spacing_example :
  J.spacing_rule_table exc_cz (conv_rule exc_rule) = true /\
  J.spacing_ok exc_cz 1729996200 = true /\
  utc_year 1698541200 = utc_year (1698541200 + 3600).
Proof. exact exc_judge. Qed.
Print Assumptions C05_judge_spacing_example.

(** ** Composite zones WITHOUT clause (1): the last table transition may straddle a year boundary
    (Proofs/C05Wide.v).  [footer_continues_wide cz] (decidable): the offset after the last table
    transition tl is the rule's offset there, and every rule transition T of the calendar years
    k1 = [footer_year_lo cz] <= k2 = [footer_year_hi cz] (the years met by the wall-clock interval
    [tl + min(std, dst), tl + max(std, dst, offset before tl)]; at most two consecutive years) has its
    window after the last table window when T > tl and at or before its end when T <= tl.  Nothing is
    asked about the position of tl in its year.  With k1 = k2 this is [footer_continues]
    (C05_footer_continues_wide_of), so C05_composite_instants / C05_composite_classification /
    C05_roundtrip_composite are the one-year instances of the three theorems below. *)
Theorem C05_footer_continues_wide_of : forall z, footer_continues z = true ->
  footer_continues_wide z = true /\ footer_year_lo z = footer_year z /\ footer_year_hi z = footer_year z.
Proof. exact footer_continues_wide_of. Qed.
Print Assumptions C05_footer_continues_wide_of.

Theorem C05_composite_instants_wide : forall first tr r tl pv ol l,
  let cz := mk_szone first tr (Some (inr r)) in
  increasing tr = true -> ordered (windows tr first) = true ->
  last_window tr first = Some (tl, pv, ol) ->
  footer_continues_wide cz = true ->
  rule_year_hyps r (footer_year_lo cz) -> rule_year_hyps r (footer_year_hi cz) ->
  (l <= tl + Z.max pv ol ->
   forall t, In t (instants_of_wall cz l) <-> In t (instants_of_wall (mk_szone first tr None) l)) /\
  (tl + Z.max pv ol < l ->
   forall t, In t (instants_of_wall cz l) <-> In t (instants_of_wall (mk_szone first [] (Some (inr r))) l)).
Proof. exact composite_instants_wide. Qed.
Print Assumptions C05_composite_instants_wide.

(* unique / twice / skipped and order for EVERY wall reading off the excepted seconds, with no
   condition on where the last table transition lies in its year *)
Theorem C05_composite_classification_wide : forall z ps first a l,
  let k := utc_year l in let r := conv_rule a in
  let cz := mk_szone (ut_offset first) (offs ps) (Some (inr r)) in
  table_zone z ps first -> extra_rule z = Some (Alternate a) -> alt_ok a -> r_std r <> r_dst r ->
  increasing (offs ps) = true -> spacing_table (offs ps) (ut_offset first) = true ->
  footer_continues_wide cz = true ->
  rule_year_hyps r (footer_year_lo cz) -> rule_year_hyps r (footer_year_hi cz) ->
  (footer_hi cz < l -> rule_reading_hyps a l) ->
  excepted_wall cz l = false ->
  exists m, find_local_time_type_from_local z k l = Val (Ok m) /\ classified cz l m.
Proof. exact composite_classification_wide. Qed.
Print Assumptions C05_composite_classification_wide.

Theorem C05_roundtrip_composite_wide : forall z ps first a t o,
  let r := conv_rule a in
  let cz := mk_szone (ut_offset first) (offs ps) (Some (inr r)) in
  let l := t + o in
  table_zone z ps first -> extra_rule z = Some (Alternate a) -> alt_ok a -> r_std r <> r_dst r ->
  increasing (offs ps) = true -> spacing_table (offs ps) (ut_offset first) = true ->
  footer_continues_wide cz = true ->
  rule_year_hyps r (footer_year_lo cz) -> rule_year_hyps r (footer_year_hi cz) ->
  (footer_hi cz < l -> rule_reading_hyps a l) ->
  zone_off cz t = Some o -> excepted_wall cz l = false ->
  exists m, find_local_time_type_from_local z (utc_year l) l = Val (Ok m) /\ contains m o.
Proof. exact roundtrip_composite_wide. Qed.
Print Assumptions C05_roundtrip_composite_wide.

(* against the JUDGE's domain: a zone the judge calls well spaced ([J.spacing_rule_table]) whose offset
   after the last table transition is the rule's, with the offset before it below a day (the judge
   skips wall readings of zones with larger offsets), satisfies the wide condition; the year-position
   hypotheses of C05_judge_spacing_footer_continues are gone *)
Theorem C05_judge_spacing_footer_wide : forall first tr r tl pv ol,
  let cz := mk_szone first tr (Some (inr r)) in
  increasing tr = true -> last_window tr first = Some (tl, pv, ol) ->
  J.spacing_rule_table cz r = true ->
  roff r tl = ol -> -86400 < pv < 86400 ->
  rule_year_hyps r (footer_year_lo cz) -> rule_year_hyps r (footer_year_hi cz) ->
  footer_continues_wide cz = true.
Proof. exact judge_spacing_footer_wide. Qed.
Print Assumptions C05_judge_spacing_footer_wide.

(* inhabited by a zone the one-year condition excludes: +02:00 without daylight time up to
   2023-12-31T22:00:00Z, then CET with the footer CET-1CEST,M3.5.0,M10.5.0/3; the last table window
   (the hour read twice) ends on the year boundary.  The same readings are regression cases of the
   correspondence run (corpus/C05/straddle.case): the real code agrees *)
Theorem C05_composite_wide_example :
  table_zone strad_zone strad_ps strad_eet /\ extra_rule strad_zone = Some (Alternate exc_rule) /\
  increasing (offs strad_ps) = true /\ spacing_table (offs strad_ps) (ut_offset strad_eet) = true /\
  footer_continues strad_cz = false /\ footer_continues_wide strad_cz = true /\
  footer_year_lo strad_cz = 2023 /\ footer_year_hi strad_cz = 2024 /\ footer_hi strad_cz = 1704067200 /\
  rule_year_hyps (conv_rule exc_rule) 2023 /\ rule_year_hyps (conv_rule exc_rule) 2024 /\
  J.spacing_rule_table strad_cz (conv_rule exc_rule) = true /\
  excepted_wall strad_cz 1704065400 = false /\ excepted_wall strad_cz 1704069000 = false /\
  rule_reading_hyps exc_rule 1704069000 /\
  find_local_time_type_from_local strad_zone 2023 1704065400 = Val (Ok (MAmbiguous strad_eet ex_cet)) /\
  instants_of_wall strad_cz 1704065400 = [1704058200; 1704061800] /\
  find_local_time_type_from_local strad_zone 2024 1704069000 = Val (Ok (MSingle ex_cet)) /\
  instants_of_wall strad_cz 1704069000 = [1704065400].
Proof. exact strad_facts. Qed.
Print Assumptions C05_composite_wide_example.

(* a table followed by a FIXED footer (zones that abolished daylight time, "JST-9"): when the footer's
   offset is the offset after the last transition the same classification holds, for every reading
   off the table's excepted seconds and every year argument *)
Theorem C05_composite_fixed_classification : forall z ps first f y l,
  let cz := mk_szone (ut_offset first) (offs ps) (Some (inl (ut_offset f))) in
  table_zone z ps first -> extra_rule z = Some (Fixed f) ->
  increasing (offs ps) = true -> spacing_table (offs ps) (ut_offset first) = true ->
  (forall tl pv ol, last_window (offs ps) (ut_offset first) = Some (tl, pv, ol) -> ol = ut_offset f) ->
  excepted_wall cz l = false ->
  exists m, find_local_time_type_from_local z y l = Val (Ok m) /\ classified cz l m.
Proof. exact composite_fixed_classification. Qed.
Print Assumptions C05_composite_fixed_classification.
Theorem C05_composite_fixed_example :
  table_zone fix_zone ex_ps ex_cet /\ extra_rule fix_zone = Some (Fixed ex_cet) /\
  (forall tl pv ol, last_window (offs ex_ps) (ut_offset ex_cet) = Some (tl, pv, ol) -> ol = ut_offset ex_cet) /\
  excepted_wall fix_cz 1719792000 = false /\
  find_local_time_type_from_local fix_zone 2024 1719792000 = Val (Ok (MSingle ex_cet)) /\
  instants_of_wall fix_cz 1719792000 = [1719788400] /\
  excepted_wall fix_cz 1698546600 = false /\
  find_local_time_type_from_local fix_zone 2023 1698546600 = Val (Ok (MAmbiguous ex_cest ex_cet)) /\
  instants_of_wall fix_cz 1698546600 = [1698539400; 1698543000].
Proof. exact fix_facts. Qed.
Print Assumptions C05_composite_fixed_example.

(* the continuity condition of C05_composite_classification cannot be dropped (the case named in the
   known finding C05-closely-spaced-transitions: "a footer rule whose transition near the last table
   transition does not continue the table"): every other hypothesis holds, clause (3) of
   footer_continues fails, the rule code answers Ambiguous, the reading occurs once *)
Theorem C05_footer_discontinuous_refuted :
  table_zone dis_zone dis_ps ex_cet /\ extra_rule dis_zone = Some (Alternate exc_rule) /\
  increasing (offs dis_ps) = true /\ spacing_table (offs dis_ps) (ut_offset ex_cet) = true /\
  rule_year_hyps (conv_rule exc_rule) (footer_year dis_cz) /\ rule_reading_hyps exc_rule 1698546600 /\
  footer_hi dis_cz < 1698546600 /\ excepted_wall dis_cz 1698546600 = false /\
  footer_continues dis_cz = false /\
  find_local_time_type_from_local dis_zone 2023 1698546600 = Val (Ok (MAmbiguous ex_cest ex_cet)) /\
  instants_of_wall dis_cz 1698546600 = [1698543000].
Proof. exact discontinuous_refuted. Qed.
Print Assumptions C05_footer_discontinuous_refuted.

(* the classification in list form: the candidates' instants ARE the list instants_of_wall
   ([classified z l m] is the None / Single / Ambiguous statement of the classification theorems;
   [cand_instants l m] = [] / [l - off x] / [l - off x; l - off y]) *)
Theorem C05_classified_list : forall z l m, classified z l m -> instants_of_wall z l = cand_instants l m.
Proof. exact classified_list. Qed.
Print Assumptions C05_classified_list.

(** ** The glue at the level of VALUES (Proofs/C05Glue.v): Local.from_local_datetime returns
    date-times.  [P4] = Proofs/C04.v ([ndt_ok]: a supported NaiveDateTime, [usecs] its second count
    from day 1 CE, [dtz_ok], [frac]); [wsecs a] = seconds since the Unix epoch of a naive reading;
    [dz_unix v] = the instant of a value; [supported t] = the instant is in NaiveDateTime's range
    (C04's in_rng); [mlt_list] = the values of a MappedLocalTime, earliest first;
    [value_at local off v] = v is a well-formed date-time with offset off, instant wsecs local - off,
    the sub-second field of local, and naive_local v = local (C04_from_local_fails_iff,
    C04_local_roundtrip). *)

(* what the lookup is handed: the second count (C02) and its calendar year *)
Theorem C05_glue_timestamp : forall local, P4.ndt_ok local ->
  DateTime.dt_timestamp local = Val (wsecs local) /\
  Date.d_year (DateTime.nd_date local) = utc_year (wsecs local).
Proof. exact (fun local H => conj (ts_wall local H) (year_wall local H)). Qed.
Print Assumptions C05_glue_timestamp.

(* from the lookup's answer m to values: candidate by candidate; None as a whole when a candidate's
   instant is unsupported *)
Theorem C05_from_local_values_candidates : forall zone local m,
  P4.ndt_ok local ->
  find_local_time_type_from_local zone (utc_year (wsecs local)) (wsecs local) = Val (Ok m) ->
  (forall o, contains m o -> off_ok o) ->
  let l := wsecs local in
  exists r, from_local_datetime zone local = Val r /\
  if forallb supported (cand_instants l m)
  then map dz_unix (mlt_list r) = cand_instants l m /\
       Forall (fun v => value_at local (DateTime.dz_off v) v) (mlt_list r) /\
       map DateTime.dz_off (mlt_list r) = mlt_list (mlt_map m ut_offset)
  else r = MNone.
Proof. exact from_local_values. Qed.
Print Assumptions C05_from_local_values_candidates.
(* ... None as a whole when a candidate offset is no FixedOffset; a panic exactly when the lookup fails *)
Theorem C05_from_local_values_bad : forall zone local,
  P4.ndt_ok local ->
  match find_local_time_type_from_local zone (utc_year (wsecs local)) (wsecs local) with
  | Val (Ok m) => (exists o, contains m o /\ ~ off_ok o) -> from_local_datetime zone local = Val MNone
  | Val (Err _) => from_local_datetime zone local = Panic
  | Panic => from_local_datetime zone local = Panic
  | OutOfFuel => from_local_datetime zone local = OutOfFuel
  end.
Proof. exact from_local_values_bad. Qed.
Print Assumptions C05_from_local_values_bad.

(* against the oracle: whenever the lookup's answer classifies S(l) (the conclusion of
   C05_classification_table / C05_rule_zone_classification / C05_composite_classification), the
   date-times returned have exactly the instants S(l) = instants_of_wall, earliest first, each
   reading [local] on its own wall clock; None as a whole when an instant of S(l) is unsupported *)
Theorem C05_from_local_values : forall zone z local m,
  P4.ndt_ok local -> let l := wsecs local in
  find_local_time_type_from_local zone (utc_year l) l = Val (Ok m) ->
  classified z l m ->
  (forall o, In o (zone_offsets z) -> off_ok o) ->
  let S := instants_of_wall z l in
  exists r, from_local_datetime zone local = Val r /\
  if forallb supported S
  then map dz_unix (mlt_list r) = S /\
       Forall (fun v => value_at local (DateTime.dz_off v) v) (mlt_list r)
  else r = MNone.
Proof. exact from_local_values_instants. Qed.
Print Assumptions C05_from_local_values.

(* end to end for a composite zone *)
Theorem C05_from_local_values_composite : forall zone ps first a local,
  let l := wsecs local in let r := conv_rule a in
  let cz := mk_szone (ut_offset first) (offs ps) (Some (inr r)) in
  P4.ndt_ok local ->
  table_zone zone ps first -> extra_rule zone = Some (Alternate a) -> alt_ok a -> r_std r <> r_dst r ->
  increasing (offs ps) = true -> spacing_table (offs ps) (ut_offset first) = true ->
  footer_continues cz = true -> rule_year_hyps r (footer_year cz) ->
  (footer_hi cz < l -> rule_reading_hyps a l) ->
  excepted_wall cz l = false ->
  (forall o, In o (zone_offsets cz) -> off_ok o) ->
  let S := instants_of_wall cz l in
  exists v, from_local_datetime zone local = Val v /\
  if forallb supported S
  then map dz_unix (mlt_list v) = S /\
       Forall (fun x => value_at local (DateTime.dz_off x) x) (mlt_list v)
  else v = MNone.
Proof. exact from_local_values_composite. Qed.
Print Assumptions C05_from_local_values_composite.

(* Local.from_utc_datetime at value level: the same UTC reading with the offset of the selected type;
   a panic exactly when that offset is no FixedOffset *)
Theorem C05_from_utc_values : forall zone utc lt,
  P4.ndt_ok utc -> find_local_time_type zone (wsecs utc) = Val (Ok lt) ->
  (off_ok (ut_offset lt) ->
   from_utc_datetime zone utc = Val (DateTime.mk_dtz utc (ut_offset lt)) /\
   P4.dtz_ok (DateTime.mk_dtz utc (ut_offset lt))) /\
  (~ off_ok (ut_offset lt) -> from_utc_datetime zone utc = Panic).
Proof. exact from_utc_values. Qed.
Print Assumptions C05_from_utc_values.

(* round trip at value level: instant -> date-time v -> its wall clock w (naive_local) -> date-times:
   v itself is among them (whenever the wall clock is a supported reading and every candidate's instant
   is supported) *)
Theorem C05_roundtrip_values : forall zone utc lt m,
  P4.ndt_ok utc -> let t := wsecs utc in let o := ut_offset lt in let l := t + o in
  find_local_time_type zone t = Val (Ok lt) -> off_ok o -> supported l = true ->
  find_local_time_type_from_local zone (utc_year l) l = Val (Ok m) -> contains m o ->
  (forall o', contains m o' -> off_ok o') ->
  forallb supported (cand_instants l m) = true ->
  exists v w r, from_utc_datetime zone utc = Val v /\ DateTime.dz_utc v = utc /\ DateTime.dz_off v = o /\
                DateTime.naive_local v = Val w /\ P4.ndt_ok w /\ wsecs w = l /\
                from_local_datetime zone w = Val r /\ In v (mlt_list r).
Proof. exact roundtrip_values. Qed.
Print Assumptions C05_roundtrip_values.
(* ... end to end on a composite zone: every supported instant t at which the zone data prescribe the
   offset o, whose wall reading t + o is supported and not an excepted second *)
Theorem C05_roundtrip_values_composite : forall zone ps first a tl pv ol utc,
  let r := conv_rule a in
  let cz := mk_szone (ut_offset first) (offs ps) (Some (inr r)) in
  let t := wsecs utc in
  P4.ndt_ok utc ->
  table_zone zone ps first -> leap_seconds zone = [] -> extra_rule zone = Some (Alternate a) ->
  alt_ok a -> r_std r <> r_dst r ->
  increasing (offs ps) = true -> spacing_table (offs ps) (ut_offset first) = true ->
  zlen (transitions zone) < 4611686018427387904 ->
  last_window (offs ps) (ut_offset first) = Some (tl, pv, ol) ->
  footer_continues cz = true -> rule_year_hyps r (footer_year cz) ->
  (tl <= t -> rule_hyps a t) ->
  (forall o, In o (zone_offsets cz) -> off_ok o) ->
  forall o, zone_off cz t = Some o -> let l := t + o in
  (footer_hi cz < l -> rule_reading_hyps a l) ->
  excepted_wall cz l = false ->
  supported l = true -> forallb supported (instants_of_wall cz l) = true ->
  exists v w res, from_utc_datetime zone utc = Val v /\ DateTime.dz_utc v = utc /\ DateTime.dz_off v = o /\
                  DateTime.naive_local v = Val w /\ P4.ndt_ok w /\ wsecs w = l /\
                  from_local_datetime zone w = Val res /\ In v (mlt_list res) /\
                  map dz_unix (mlt_list res) = instants_of_wall cz l.
Proof. exact roundtrip_values_composite. Qed.
Print Assumptions C05_roundtrip_values_composite.
Theorem C05_roundtrip_values_example :
  P4.ndt_ok exg_utc /\ wsecs exg_utc = 1729989000 /\ leap_seconds exc_zone = [] /\
  zlen (transitions exc_zone) < 4611686018427387904 /\
  last_window (offs ex_ps) (ut_offset ex_cet) = Some (1698541200, 7200, 3600) /\
  rule_hyps exc_rule 1729989000 /\
  zone_off exc_cz 1729989000 = Some 7200 /\ supported (1729989000 + 7200) = true /\
  match from_utc_datetime exc_zone exg_utc with
  | Val v => DateTime.naive_local v = Val exg_local /\
             match from_local_datetime exc_zone exg_local with
             | Val (MAmbiguous x y) => x = v /\ dz_unix y = 1729992600
             | _ => False
             end
  | _ => False
  end.
Proof. exact exg_roundtrip. Qed.
Print Assumptions C05_roundtrip_values_example.

(* inhabited: 2024-10-27T02:30:00 in the Berlin-like composite zone gives two date-times,
   00:30:00Z (+02:00) then 01:30:00Z (+01:00) *)
Theorem C05_from_local_values_example :
  P4.ndt_ok exg_local /\ wsecs exg_local = 1729996200 /\
  (forall o, In o (zone_offsets exc_cz) -> off_ok o) /\
  forallb supported (instants_of_wall exc_cz 1729996200) = true /\
  match from_local_datetime exc_zone exg_local with
  | Val (MAmbiguous v w) => dz_unix v = 1729989000 /\ dz_unix w = 1729992600 /\
                            DateTime.dz_off v = 7200 /\ DateTime.dz_off w = 3600
  | _ => False
  end.
Proof. exact exg_facts. Qed.
Print Assumptions C05_from_local_values_example.

(** ** The theorems' hypotheses against the JUDGE's domain (Proofs/C05Holds.v), at the level of the
    lookup: whenever the judge has an expectation for a wall-clock reading w ([J.expected_loc] = Some l,
    i.e. none of its skip conditions applies: zone model well formed, w within the date range less
    three days, every offset of the zone below a day, the property's premise in the years y-2..y+2 of w,
    w not an excepted second, no undetermined instant) on a zone that is well spaced at w
    ([J.spacing_ok]: the condition by which gen/C05.py routes a reading to lz.loc / lz.sel rather than
    to the known-finding ops lz.uloc / lz.usel -- the judge's lz.loc branch itself does not test it),
    the answer of find_local_time_type_from_local, read as offsets earliest first, IS the judge's
    expected list.  From there to the output of the op: C05_from_local_values_candidates.
    The judge's domain is wider than the hypotheses of C05_rule_zone_classification in one respect:
    it asks for the premise in y-2..y+2, that theorem (rule_year_hyps) in y-3..y+2.
    C05_holds_loc_rule_exact closes this for rule-only zones: on EXACTLY the judge's domain (premise in
    y-2..y+2 only) plus the routing condition; the year y-3 is replaced by the bound that a rule
    transition of year y-3 lies more than two days before year y (from C05_transition_date,
    C05_rule_is_dst_year_judge_premise).  C05_holds_loc_rule (with the year y-3 as a hypothesis) is kept
    and superseded by it.  Composite zones: the bridge is C05_judge_spacing_footer_wide (hypotheses of
    C05_composite_classification_wide from the judge's spacing condition; those theorems still use
    rule_year_hyps, i.e. y-3..y+2, for the readings past the last table window). *)
Theorem C05_holds_loc_table : forall zone ps first y w l,
  table_zone zone ps first -> extra_rule zone = None -> increasing (offs ps) = true ->
  J.spacing_ok (szone_of ps first) w = true ->
  J.expected_loc (zone_offsets (szone_of ps first)) (szone_of ps first) w = Some l ->
  exists m, find_local_time_type_from_local zone y w = Val (Ok m) /\ mlt_list (mlt_map m ut_offset) = l.
Proof. exact holds_loc_table. Qed.
Print Assumptions C05_holds_loc_table.
Theorem C05_holds_loc_rule : forall zone a first w l,
  let r := conv_rule a in let k := utc_year w in
  let rz := mk_szone (ut_offset first) [] (Some (inr r)) in
  transitions zone = [] -> index (local_time_types zone) 0 = Val first ->
  extra_rule zone = Some (Alternate a) -> alt_ok a -> r_std r <> r_dst r ->
  J.spacing_ok rz w = true -> premise_year r (k - 3) = true ->
  J.expected_loc (zone_offsets rz) rz w = Some l ->
  exists m, find_local_time_type_from_local zone k w = Val (Ok m) /\ mlt_list (mlt_map m ut_offset) = l.
Proof. exact holds_loc_rule. Qed.
Print Assumptions C05_holds_loc_rule.
(* the oracle's DST predicate in terms of the two transitions of the reading year under the JUDGE's
   premise (years k-2..k+2, [rule_year_hyps5]) for every rule the reader can produce *)
Theorem C05_rule_is_dst_year_judge_premise : forall a k t, alt_ok a -> -2147483640 <= k <= 2147483650 ->
  let r := conv_rule a in
  rule_year_hyps5 r k ->
  (year_start k <= t + r_std r < year_start (k + 1) \/ year_start k <= t + r_dst r < year_start (k + 1)) ->
  rule_is_dst r t = yform (rule_start_utc r k) (rule_end_utc r k) t.
Proof. exact rule_is_dst_year5. Qed.
Print Assumptions C05_rule_is_dst_year_judge_premise.
Theorem C05_holds_loc_rule_exact : forall zone a first w l,
  let r := conv_rule a in let k := utc_year w in
  let rz := mk_szone (ut_offset first) [] (Some (inr r)) in
  transitions zone = [] -> index (local_time_types zone) 0 = Val first ->
  extra_rule zone = Some (Alternate a) -> alt_ok a -> r_std r <> r_dst r ->
  J.spacing_ok rz w = true ->
  J.expected_loc (zone_offsets rz) rz w = Some l ->
  exists m, find_local_time_type_from_local zone k w = Val (Ok m) /\ mlt_list (mlt_map m ut_offset) = l.
Proof. exact holds_loc_rule5. Qed.
Print Assumptions C05_holds_loc_rule_exact.
Theorem C05_holds_loc_example :
  J.spacing_ok (szone_of ex_ps ex_cet) 1698546600 = true /\
  J.expected_loc (zone_offsets (szone_of ex_ps ex_cet)) (szone_of ex_ps ex_cet) 1698546600 = Some [7200; 3600] /\
  J.spacing_ok exr_rz 1729996200 = true /\ premise_year (conv_rule exc_rule) (utc_year 1729996200 - 3) = true /\
  J.expected_loc (zone_offsets exr_rz) exr_rz 1729996200 = Some [7200; 3600] /\
  J.expected_loc (zone_offsets exr_rz) exr_rz 1711852200 = Some [].
Proof. exact holds_examples. Qed.
Print Assumptions C05_holds_loc_example.

(** ** C05_holds: the DISPATCHER (Model/C05.v [run]) against the JUDGE (Judge/C05.v [judge]) on whole
    case lines (Proofs/C05Ops.v, C05OpsZones.v, C05OpsComposite.v, C05OpsAll.v), in the style of
    C01_holds / C02_holds: for the ops lz.at / lz.loc / lz.sel / lz.rt ([covered_op]) and lz.env, every
    zone source [src], every judge-side zone model [zm] and EVERY batch [xs] (any value: malformed
    batches, arguments outside i64 or outside chrono's range, ...), whenever the judge has an opinion it
    accepts the model's output.  A case carries the zone twice (bytes for the implementation,
    structured model for the judge, tied by a checksum only); the link between the two is a hypothesis:
    the reader's result [zone] on [src] and the judge's reading [sz] of [zm] describe the same zone
    (table_zone / conv_rule ...).  What is used of that link is collected in the contract
    [lookup_ok zone sz] (the two lookups answer what the oracle prescribes on the judge's domain),
    proved for table-only zones (C05_lookup_table), rule-only zones = TZ strings (C05_lookup_rule) and
    composite zones (C05_lookup_composite); C05_holds_table / _rule / _composite are the direct forms.
    From the lookup to the op's output: [arg_secs] -> supported NaiveDateTime with second count x (C02's
    from_timestamp), the judge's range condition -> every candidate instant supported (C04's in_rng),
    C05_from_local_values_candidates / C05_from_utc_values, the encoders.
    [spaced_elem op sz x] (decidable) = the generator's routing condition for the element x: the judge's
    own lz.at / lz.loc / lz.sel / lz.rt branches do not test the spacing condition (the known-finding ops
    lz.uat / lz.uloc / lz.usel / lz.urt take the readings at which it fails); without it the statement is
    false (C05_unspaced_refuted).  For lz.rt it also asks the rule to be regular around the year of the
    INSTANT (the judge's lz.urt looks at the year of the wall reading only) and, on composite zones,
    that the wall reading is not an excepted second ([rt_excepted]; the judge's lz.rt does not except
    them, and on table-only / rule-only zones neither does the theorem).
    Not covered: the known-finding ops themselves; table + FIXED footer and fixed-offset TZ strings at
    this level (lookup level: C05_composite_fixed_classification, C05_offset_at_composite_fixed);
    rule zones whose std or dst offset is a day or more (the judge judges lz.at there when the answer
    itself is below a day; C05_rule_offset_spec needs both below a day). *)
Theorem C05_holds : forall op src zm xs zone sz,
  lookup_ok zone sz -> zone_of_src src = Some (Val (Ok zone)) -> J.dec_zone src zm = Some sz ->
  covered_op op = true -> (forall x, In x (elems xs) -> spaced_elem op sz x = true) ->
  J.judge op [src; zm; xs] (run op [src; zm; xs]) <> JSkip ->
  J.judge op [src; zm; xs] (run op [src; zm; xs]) = JOk.
Proof. exact holds_ops. Qed.
Print Assumptions C05_holds.
(* lz.env: lz.at (direction 0) / lz.loc (direction 1) through the public route; any other direction
   is outside the judge's domain *)
Theorem C05_holds_env : forall b zm dir xs zone sz,
  lookup_ok zone sz -> parse b = Val (Ok zone) -> J.dec_zone (VStr b) zm = Some sz ->
  (forall x, In x (elems xs) -> (if dir =? 0 then at_spaced sz x else J.spacing_ok sz x) = true) ->
  J.judge B"lz.env" [VStr b; zm; VInt dir; xs] (run B"lz.env" [VStr b; zm; VInt dir; xs]) <> JSkip ->
  J.judge B"lz.env" [VStr b; zm; VInt dir; xs] (run B"lz.env" [VStr b; zm; VInt dir; xs]) = JOk.
Proof. exact holds_env. Qed.
Print Assumptions C05_holds_env.

(* lz.conv: the conversions into DateTime<Local> - impl From<DateTime<Utc>>, impl From<DateTime<FixedOffset>>,
   impl FromStr (on the Debug text of the DateTime<FixedOffset> source), impl From<SystemTime> - and out of it
   (impl From<DateTime<Local>> for DateTime<Utc> / for DateTime<FixedOffset>) through the public route.
   Function level: all four conversions into Local are Local.from_utc_datetime of the source's naive UTC reading
   (the source's own offset plays no role); the two conversions out of Local keep the naive UTC reading, with
   offset 0 / the Local value's own offset; FromStr passes a parser error on and converts a parsed value;
   From<SystemTime> converts C02's DateTime<Utc>. *)
Theorem C05_conversions_into_local : forall z src,
  local_from_utc z src = from_utc_datetime z (DateTime.dz_utc src) /\
  local_from_fixed z src = from_utc_datetime z (DateTime.dz_utc src).
Proof. exact Proofs.C05Conv.conv_into_local. Qed.
Print Assumptions C05_conversions_into_local.
Theorem C05_conversions_out_of_local : forall l,
  utc_from_local l = DateTime.mk_dtz (DateTime.dz_utc l) 0 /\
  fixed_from_local l = DateTime.mk_dtz (DateTime.dz_utc l) (DateTime.dz_off l).
Proof. exact Proofs.C05Conv.conv_out_of_local. Qed.
Print Assumptions C05_conversions_out_of_local.
Theorem C05_local_from_str : forall z s,
  (forall e, Model.FromStr.datetime_fixed_from_str s = Val (Model.Scan.PErr e) ->
     local_from_str z s = Val (Model.Scan.PErr e)) /\
  (forall dt l, Model.FromStr.datetime_fixed_from_str s = Val (Model.Scan.POk dt) ->
     from_utc_datetime z (DateTime.dz_utc dt) = Val l -> local_from_str z s = Val (Model.Scan.POk l)).
Proof. exact Proofs.C05Conv.local_from_str_spec. Qed.
Print Assumptions C05_local_from_str.
Theorem C05_local_from_systime : forall z before ds dn u l,
  Model.C02.dt_from_systime before ds dn = Val u -> from_utc_datetime z (DateTime.dz_utc u) = Val l ->
  local_from_systime z before ds dn = Val l.
Proof. exact Proofs.C05Conv.local_from_systime_spec. Qed.
Print Assumptions C05_local_from_systime.
(* the op's observation at an instant x (whole seconds, three days inside chrono's range) at which
   Local.from_utc_datetime selects the offset o: six (offset, timestamp) pairs, every one at the instant x,
   offset o on the Local / FixedOffset results and 0 on the Utc result; the text step is C09's
   Debug -> FromStr round trip, the SystemTime step C02's specification *)
Theorem C05_conv_value : forall zone n x o,
  arg_secs (VInt x) = Some n -> J.ts_ok x = true ->
  from_utc_datetime zone n = Val (DateTime.mk_dtz n o) ->
  op_conv zone n =
    VTup [VTup [VInt o; VInt x]; VTup [VInt o; VInt x]; VTup [VInt 0; VInt x]; VTup [VInt o; VInt x];
          VTup [VInt o; VInt x]; VTup [VInt o; VInt x]].
Proof. exact Proofs.C05Conv.conv_value. Qed.
Print Assumptions C05_conv_value.
(* dispatcher against judge, in the style of C05_holds_env: every batch; the judge itself skips the instants
   in whose year the rule is not regular (they belong to the known-finding op lz.uat) *)
Theorem C05_holds_conv : forall b zm xs zone sz,
  lookup_ok zone sz -> parse b = Val (Ok zone) -> J.dec_zone (VStr b) zm = Some sz ->
  J.judge B"lz.conv" [VStr b; zm; xs] (run B"lz.conv" [VStr b; zm; xs]) <> JSkip ->
  J.judge B"lz.conv" [VStr b; zm; xs] (run B"lz.conv" [VStr b; zm; xs]) = JOk.
Proof. exact Proofs.C05Conv.holds_conv. Qed.
Print Assumptions C05_holds_conv.

(* lz.asg: impl AddAssign<TimeDelta> / SubAssign<TimeDelta> / AddAssign<Duration> / SubAssign<Duration> for
   DateTime<Tz> at Tz = Local (public route).  The zone is resolved AGAIN at the new instant:
   for every operand a (whatever offset it carries), every valid duration rhs and every supported naive value n'
   whose instant is the operand's instant moved by rhs, the result is exactly what Local.from_utc_datetime gives
   at n' - in particular offset after `+=` = offset_at(new instant), the old offset is not kept. *)
Theorem C05_add_assign_reresolves : forall zone a rhs n' v,
  Proofs.C03.nvalid (DateTime.dz_utc a) -> Proofs.C06.valid rhs -> Proofs.C03.nvalid n' ->
  Proofs.C03.inst n' = Proofs.C03.inst (DateTime.dz_utc a) + Proofs.C06.ns rhs ->
  from_utc_datetime zone n' = v -> local_add_assign zone a rhs = v.
Proof. exact Proofs.C05Asg.add_assign_at. Qed.
Print Assumptions C05_add_assign_reresolves.
Theorem C05_sub_assign_reresolves : forall zone a rhs n' v,
  Proofs.C03.nvalid (DateTime.dz_utc a) -> Proofs.C06.valid rhs -> Proofs.C03.nvalid n' ->
  Proofs.C03.inst n' = Proofs.C03.inst (DateTime.dz_utc a) - Proofs.C06.ns rhs ->
  from_utc_datetime zone n' = v -> local_sub_assign zone a rhs = v.
Proof. exact Proofs.C05Asg.sub_assign_at. Qed.
Print Assumptions C05_sub_assign_reresolves.
(* Panic exactly when the checked form of the naive addition is None (the operators' documented panic); a
   value goes to the lookup at that value *)
Theorem C05_assign_panics_iff_checked_none : forall zone a rhs,
  (DateTime.ndt_checked_add_signed (DateTime.dz_utc a) rhs = Val None -> local_add_assign zone a rhs = Panic) /\
  (DateTime.ndt_checked_sub_signed (DateTime.dz_utc a) rhs = Val None -> local_sub_assign zone a rhs = Panic) /\
  (forall b, DateTime.ndt_checked_add_signed (DateTime.dz_utc a) rhs = Val (Some b) ->
     local_add_assign zone a rhs = from_utc_datetime zone b) /\
  (forall b, DateTime.ndt_checked_sub_signed (DateTime.dz_utc a) rhs = Val (Some b) ->
     local_sub_assign zone a rhs = from_utc_datetime zone b).
Proof. exact Proofs.C05Asg.assign_panics. Qed.
Print Assumptions C05_assign_panics_iff_checked_none.
(* the core::time::Duration forms: TimeDelta::from_std(..).expect(..) first, then the TimeDelta form *)
Theorem C05_assign_std : forall zone a ds dn,
  match Model.TimeDelta.from_std ds dn with
  | Some rhs => local_add_assign_std zone a ds dn = local_add_assign zone a rhs /\
                local_sub_assign_std zone a ds dn = local_sub_assign zone a rhs
  | None => local_add_assign_std zone a ds dn = Panic /\ local_sub_assign_std zone a ds dn = Panic
  end.
Proof. exact Proofs.C05Asg.assign_std. Qed.
Print Assumptions C05_assign_std.
(* dispatcher against judge: every zone under the contract, every delta, every batch; the judge (Spec.Zone's
   zone_off at the NEW instant) accepts the model's output *)
Theorem C05_holds_asg : forall b zm d xs zone sz,
  lookup_ok zone sz -> parse b = Val (Ok zone) -> J.dec_zone (VStr b) zm = Some sz ->
  J.judge B"lz.asg" [VStr b; zm; VInt d; xs] (run B"lz.asg" [VStr b; zm; VInt d; xs]) <> JSkip ->
  J.judge B"lz.asg" [VStr b; zm; VInt d; xs] (run B"lz.asg" [VStr b; zm; VInt d; xs]) = JOk.
Proof. exact Proofs.C05Asg.holds_asg. Qed.
Print Assumptions C05_holds_asg.

(* the contract, for the three kinds of zone *)
Theorem C05_lookup_table : forall zone ps first,
  table_zone zone ps first -> leap_seconds zone = [] -> extra_rule zone = None ->
  increasing (offs ps) = true -> zlen (transitions zone) < 4611686018427387904 ->
  lookup_ok zone (szone_of ps first).
Proof. exact lookup_table. Qed.
Print Assumptions C05_lookup_table.
Theorem C05_lookup_rule : forall zone a first,
  let r := conv_rule a in
  transitions zone = [] -> index (local_time_types zone) 0 = Val first -> leap_seconds zone = [] ->
  extra_rule zone = Some (Alternate a) -> alt_ok a -> r_std r <> r_dst r ->
  J.fo_ok (r_std r) = true -> J.fo_ok (r_dst r) = true ->
  lookup_ok zone (mk_szone (ut_offset first) [] (Some (inr r))).
Proof. exact lookup_rule. Qed.
Print Assumptions C05_lookup_rule.
(* composite zones: zone-level, the wide continuity condition and the premise in the (at most two)
   years met by the last table transition (C05_judge_spacing_footer_wide derives the condition from
   the judge's spacing_rule_table); per reading NOTHING beyond what the judge asks: past the last table
   window the premise in the judge's years y-2..y+2 only (C05_composite_classification_wide asks for
   y-3..y+2: superseded on the judge's domain by C05_composite_classification_judge_years below) *)
Theorem C05_lookup_composite : forall zone ps first a,
  let r := conv_rule a in let cz := mk_szone (ut_offset first) (offs ps) (Some (inr r)) in
  table_zone zone ps first -> leap_seconds zone = [] -> extra_rule zone = Some (Alternate a) ->
  alt_ok a -> r_std r <> r_dst r -> increasing (offs ps) = true ->
  zlen (transitions zone) < 4611686018427387904 ->
  footer_continues_wide cz = true ->
  rule_year_hyps r (footer_year_lo cz) -> rule_year_hyps r (footer_year_hi cz) ->
  lookup_ok zone cz.
Proof. exact lookup_composite. Qed.
Print Assumptions C05_lookup_composite.
(* what the contract says, spelled out (the record's three fields) *)
Theorem C05_lookup_ok_fields : forall zone sz, lookup_ok zone sz ->
  (forall t o, at_spaced sz t = true -> J.in_dom sz t = true -> zone_off sz t = Some o ->
     exists lt, find_local_time_type zone t = Val (Ok lt) /\ ut_offset lt = o) /\
  (forall w l, J.spacing_ok sz w = true -> J.expected_loc (zone_offsets sz) sz w = Some l ->
     exists m, find_local_time_type_from_local zone (utc_year w) w = Val (Ok m) /\
               mlt_list (mlt_map m ut_offset) = l) /\
  (forall t o, J.spacing_ok sz (t + o) = true -> J.in_dom sz t = true -> zone_off sz t = Some o ->
     J.in_dom sz (t + o) = true -> J.offsets_ok sz = true -> rt_excepted sz (t + o) = false ->
     exists m, find_local_time_type_from_local zone (utc_year (t + o)) (t + o) = Val (Ok m) /\
               contains m o /\ (forall o', contains m o' -> In o' (zone_offsets sz)) /\
               (forall a b, m = MAmbiguous a b -> ut_offset a > ut_offset b)).
Proof. exact (fun zone sz L => conj (lk_at zone sz L) (conj (lk_loc zone sz L) (lk_rt zone sz L))). Qed.
Print Assumptions C05_lookup_ok_fields.

(* composite zones, classification of EVERY reading off the excepted seconds with the rule premise,
   past the last table window, stated through the year formula [year_formula r k] that the judge's
   premise y-2..y+2 yields (C05_rule_is_dst_year_judge_premise); (tl, pv, ol) = the last table transition,
   [join_facts] = what footer_continues_wide + the premise at the footer years give *)
Theorem C05_composite_classification_judge_years : forall z ps first a tl pv ol l,
  let k := utc_year l in let r := conv_rule a in
  let cz := mk_szone (ut_offset first) (offs ps) (Some (inr r)) in
  table_zone z ps first -> extra_rule z = Some (Alternate a) -> alt_ok a -> r_std r <> r_dst r ->
  increasing (offs ps) = true -> spacing_table (offs ps) (ut_offset first) = true ->
  last_window (offs ps) (ut_offset first) = Some (tl, pv, ol) -> join_facts r tl pv ol ->
  (tl + Z.max pv ol < l -> rule_reading_hyps5 a l) ->
  excepted_wall cz l = false ->
  exists m, find_local_time_type_from_local z k l = Val (Ok m) /\ classified cz l m.
Proof. exact composite_classification_join5. Qed.
Print Assumptions C05_composite_classification_judge_years.
(* the round trip of a TZ string on EVERY instant from the year formula alone (supersedes, on the
   judge's domain, the years y-3..y+2 of C05_roundtrip_rule_zone) *)
Theorem C05_roundtrip_rule_judge_years : forall a t,
  let r := conv_rule a in let o := roff r t in let l := t + o in let k := utc_year l in
  r_std r <> r_dst r -> year_formula r k ->
  ordered (windows (offs (fst (year_table a k))) (ut_offset (snd (year_table a k)))) = true ->
  contains (rule_answer a k l) o.
Proof. exact rule_rt_gen. Qed.
Print Assumptions C05_roundtrip_rule_judge_years.

(* direct forms *)
Theorem C05_holds_table : forall op src zm xs zone ps first,
  zone_of_src src = Some (Val (Ok zone)) -> J.dec_zone src zm = Some (szone_of ps first) ->
  table_zone zone ps first -> leap_seconds zone = [] -> extra_rule zone = None ->
  increasing (offs ps) = true -> zlen (transitions zone) < 4611686018427387904 ->
  covered_op op = true -> (forall x, In x (elems xs) -> spaced_elem op (szone_of ps first) x = true) ->
  J.judge op [src; zm; xs] (run op [src; zm; xs]) <> JSkip ->
  J.judge op [src; zm; xs] (run op [src; zm; xs]) = JOk.
Proof. exact holds_table. Qed.
Print Assumptions C05_holds_table.
Theorem C05_holds_rule : forall op src zm xs zone a first,
  let r := conv_rule a in let rz := mk_szone (ut_offset first) [] (Some (inr r)) in
  zone_of_src src = Some (Val (Ok zone)) -> J.dec_zone src zm = Some rz ->
  transitions zone = [] -> index (local_time_types zone) 0 = Val first -> leap_seconds zone = [] ->
  extra_rule zone = Some (Alternate a) -> alt_ok a -> r_std r <> r_dst r ->
  J.fo_ok (r_std r) = true -> J.fo_ok (r_dst r) = true ->
  covered_op op = true -> (forall x, In x (elems xs) -> spaced_elem op rz x = true) ->
  J.judge op [src; zm; xs] (run op [src; zm; xs]) <> JSkip ->
  J.judge op [src; zm; xs] (run op [src; zm; xs]) = JOk.
Proof. exact holds_rule. Qed.
Print Assumptions C05_holds_rule.
Theorem C05_holds_composite : forall op src zm xs zone ps first a,
  let r := conv_rule a in let cz := mk_szone (ut_offset first) (offs ps) (Some (inr r)) in
  zone_of_src src = Some (Val (Ok zone)) -> J.dec_zone src zm = Some cz ->
  table_zone zone ps first -> leap_seconds zone = [] -> extra_rule zone = Some (Alternate a) ->
  alt_ok a -> r_std r <> r_dst r -> increasing (offs ps) = true ->
  zlen (transitions zone) < 4611686018427387904 ->
  footer_continues_wide cz = true ->
  rule_year_hyps r (footer_year_lo cz) -> rule_year_hyps r (footer_year_hi cz) ->
  covered_op op = true -> (forall x, In x (elems xs) -> spaced_elem op cz x = true) ->
  J.judge op [src; zm; xs] (run op [src; zm; xs]) <> JSkip ->
  J.judge op [src; zm; xs] (run op [src; zm; xs]) = JOk.
Proof. exact holds_composite. Qed.
Print Assumptions C05_holds_composite.
(* inhabited: the case line of corpus/C05/straddle.case read by the case protocol; the reader's result
   is strad_zone, the judge's reading strad_cz (hypotheses of C05_holds_composite: C05_composite_wide_example),
   every element passes the routing condition, and the judge accepts under all five ops *)
Example C05_holds_inhabited :
  zone_of_src exh_src = Some (Val (Ok strad_zone)) /\ J.dec_zone exh_src exh_zm = Some strad_cz /\
  elems exh_xs = [1704065400; 1704069000; 1704067200; 1704060000] /\
  forallb (spaced_elem B"lz.loc" strad_cz) (elems exh_xs) = true /\
  forallb (spaced_elem B"lz.rt" strad_cz) (elems exh_xs) = true /\
  forallb (spaced_elem B"lz.at" strad_cz) (elems exh_xs) = true /\
  J.judge B"lz.loc" [exh_src; exh_zm; exh_xs] (run B"lz.loc" [exh_src; exh_zm; exh_xs]) = JOk /\
  J.judge B"lz.sel" [exh_src; exh_zm; exh_xs] (run B"lz.sel" [exh_src; exh_zm; exh_xs]) = JOk /\
  J.judge B"lz.rt" [exh_src; exh_zm; exh_xs] (run B"lz.rt" [exh_src; exh_zm; exh_xs]) = JOk /\
  J.judge B"lz.at" [exh_src; exh_zm; exh_xs] (run B"lz.at" [exh_src; exh_zm; exh_xs]) = JOk /\
  J.judge B"lz.env" [exh_src; exh_zm; VInt 1; exh_xs] (run B"lz.env" [exh_src; exh_zm; VInt 1; exh_xs]) = JOk.
Proof. exact exh_facts. Qed.
Print Assumptions C05_holds_inhabited.

(** ** Known finding C05-closely-spaced-transitions: the spacing hypothesis of
    C05_classification_table / C05_roundtrip_table cannot be dropped *)
Theorem C05_unspaced_refuted :
  table_zone un_zone un_ps un_a /\ extra_rule un_zone = None /\ increasing (offs un_ps) = true /\
  spacing_table (offs un_ps) (ut_offset un_a) = false /\
  excepted_wall (szone_of un_ps un_a) 1001800 = false /\
  find_local_time_type_from_local un_zone 1970 1001800 = Val (Ok (MAmbiguous un_a un_b)) /\
  instants_of_wall (szone_of un_ps un_a) 1001800 = [998200].
Proof. exact unspaced_refuted. Qed.
Print Assumptions C05_unspaced_refuted.
