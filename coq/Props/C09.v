(** C09 -- Default text forms parse back to the same value.
    Property theorems only: each is closed by [exact] of a lemma from Proofs/C09.v and followed by
    [Print Assumptions].  Writers: Model/Show.v ([to_text (x_display [] v)] is [v.to_string()],
    [to_text (x_debug [] v)] is [format!("{:?}", v)]); readers: Model/FromStr.v ([str::parse]). *)
From Coq Require Import ZArith List Bool.
From V Require Import Base.Int Base.IO Model.Scan Model.Parse Model.FromStr Model.Show Model.DateTime Proofs.C09.
From V Require Model.C19.
Import ListNotations.
Open Scope Z_scope.

(* FixedOffset: every whole-minute offset prints (both forms) to a text that parses back to it *)
Theorem C09_roundtrip_fixed_offset : forall off, -86400 < off < 86400 -> off mod 60 = 0 ->
  (exists s, to_text (fixed_display [] off) = Val s /\ fixed_offset_from_str s = Val (POk off)) /\
  (exists s, to_text (fixed_debug [] off) = Val s /\ fixed_offset_from_str s = Val (POk off)).
Proof. exact fixed_roundtrip. Qed.
Print Assumptions C09_roundtrip_fixed_offset.

(* Weekday (discriminant 0..6): Display and the derived Debug *)
Theorem C09_roundtrip_weekday : forall w, 0 <= w < 7 ->
  (exists s, to_text (wd_display [] w) = Val s /\ C19.wd_from_str s = Val (Some w)) /\
  (exists s, to_text (wd_debug [] w) = Val s /\ C19.wd_from_str s = Val (Some w)).
Proof. exact weekday_roundtrip. Qed.
Print Assumptions C09_roundtrip_weekday.

(* Month (discriminant 0..11): the derived Debug (Month has no Display) *)
Theorem C09_roundtrip_month : forall m, 0 <= m < 12 ->
  exists s, to_text (mo_debug [] m) = Val s /\ C19.mo_from_str s = Val (Some m).
Proof. exact month_roundtrip. Qed.
Print Assumptions C09_roundtrip_month.

(* the recorded finding: a NaiveDateTime whose Display text its own FromStr refuses *)
Theorem C09_ndt_display_refuted :
  exists v s, dec_ndt (enc_ndt v) = Some v /\
    to_text (ndt_display [] v) = Val s /\ naive_datetime_from_str s = Val (PErr Invalid).
Proof. exact ndt_display_refuted. Qed.
Print Assumptions C09_ndt_display_refuted.
