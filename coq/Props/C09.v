(** C09 -- Default text forms parse back to the same value.
    Property theorems only: each is closed by [exact] of a lemma from Proofs/C09*.v and followed by
    [Print Assumptions].

    Writers (Model/Show.v): [to_text (x_display [] v)] is [v.to_string()], [to_text (x_debug [] v)]
    is [format!("{:?}", v)] ([Val s]: the text; a writer error would be [Panic]).
    Readers (Model/FromStr.v on Model/Parse.v): [x_from_str s] is [s.parse::<X>()],
    [Val (POk v)] = Ok(v), [Val (PErr e)] = Err(e).
    Values: a date is its packed word [d] with [repr y o d] (d represents year y, ordinal o, y in
    -262143..262142, o valid: Proofs/C08Sweeps.v); a time is [Time.mk_time secs frac];
      [time_dom t]  0 <= secs < 86400, 0 <= frac < 2*10^9, and frac >= 10^9 (leap second) only
                    when secs mod 60 = 59                       -- the property's domain for times
      [ndt_dom a]   represented date and [time_dom] time
      [dtz_dom a]   UTC reading in [ndt_dom], offset a whole minute strictly inside +-24 h, and the
                    wall-clock date (UTC date shifted by the offset) again a represented date
                    (always true for UTC: [C09_dtz_dom_utc]; fails only on the first / last day of
                    the range: recorded finding [C09_dt_wall_clock_refuted]).
    Years are not swept: the digit-string lemmas ([C09_decimal]) hold for every integer. *)
From Coq Require Import ZArith List Bool String.
From V Require Import Base.Int Base.IO Base.Utf8 Model.Scan Model.Rfc3339 Model.Parse Model.FromStr Model.Show Model.DateTime
  Spec.Gregorian Proofs.Scan Proofs.Decimal Proofs.C09Show Proofs.C09Time Proofs.C09Date Proofs.C09DateTime Proofs.C09Zoned
  Proofs.C09Shape Proofs.C09Holds Proofs.C09Edge Proofs.C09EdgeRead Proofs.C09HoldsAll Proofs.C09 Model.C09.
From V Require Model.C19 Model.Parsed Model.Date Model.Time Judge.C09 Proofs.Date.
Import ListNotations.
Open Scope Z_scope.
Import Proofs.Date.

(** * round trips *)
(* NaiveDate (Display = Debug): every represented date *)
Theorem C09_roundtrip_date : forall y o d, repr y o d ->
  exists s, to_text (date_debug [] d) = Val s /\ to_text (date_display [] d) = Val s /\
            naive_date_from_str s = Val (POk d).
Proof. exact date_roundtrip. Qed.
Print Assumptions C09_roundtrip_date.

(* NaiveTime (Display = Debug): every time of day, leap second on second 59 *)
Theorem C09_roundtrip_time : forall t, time_dom t ->
  exists s, to_text (time_debug [] t) = Val s /\ to_text (time_display [] t) = Val s /\
            naive_time_from_str s = Val (POk t).
Proof. exact time_roundtrip. Qed.
Print Assumptions C09_roundtrip_time.

(* NaiveDateTime, Debug form *)
Theorem C09_roundtrip_ndt_debug : forall a, ndt_dom a ->
  exists s, to_text (ndt_debug [] a) = Val s /\ naive_datetime_from_str s = Val (POk a).
Proof. exact ndt_debug_roundtrip. Qed.
Print Assumptions C09_roundtrip_ndt_debug.

(* NaiveDateTime, Display form: the recorded finding -- refused for EVERY value of the domain *)
Theorem C09_ndt_display_refused : forall a, ndt_dom a ->
  exists s, to_text (ndt_display [] a) = Val s /\ naive_datetime_from_str s = Val (PErr Scan.Invalid).
Proof. exact ndt_display_refused. Qed.
Print Assumptions C09_ndt_display_refused.
Theorem C09_ndt_display_refuted :
  exists v s, dec_ndt (enc_ndt v) = Some v /\
    to_text (ndt_display [] v) = Val s /\ naive_datetime_from_str s = Val (PErr Scan.Invalid).
Proof. exact ndt_display_refuted. Qed.
Print Assumptions C09_ndt_display_refuted.

(* DateTime<FixedOffset>, both forms *)
Theorem C09_roundtrip_dt_fixed : forall a, dtz_dom a ->
  (exists s, to_text (dtz_debug false [] a) = Val s /\ datetime_fixed_from_str s = Val (POk a)) /\
  (exists s, to_text (dtz_display false [] a) = Val s /\ datetime_fixed_from_str s = Val (POk a)).
Proof. exact dtz_fixed_roundtrip. Qed.
Print Assumptions C09_roundtrip_dt_fixed.

(* DateTime<Utc>, both forms ("...Z" and "... UTC") *)
Theorem C09_roundtrip_dt_utc : forall a, dtz_dom a -> dz_off a = 0 ->
  (exists s, to_text (dtz_debug true [] a) = Val s /\ datetime_utc_from_str s = Val (POk a)) /\
  (exists s, to_text (dtz_display true [] a) = Val s /\ datetime_utc_from_str s = Val (POk a)).
Proof. exact dtz_utc_roundtrip. Qed.
Print Assumptions C09_roundtrip_dt_utc.
Theorem C09_dtz_dom_utc : forall y o d t, repr y o d -> time_dom t -> dtz_dom (mk_dtz (mk_ndt d t) 0).
Proof. exact dtz_dom_utc. Qed.
Print Assumptions C09_dtz_dom_utc.

(* the second recorded finding: a representable DateTime<FixedOffset> (last day of the range, +00:01)
   whose printed wall-clock date its FromStr refuses *)
Theorem C09_dt_wall_clock_refuted :
  dec_dtz (enc_dtz dtz_edge) = Some dtz_edge /\
  to_text (dtz_debug false [] dtz_edge) = Val dtz_edge_text /\
  datetime_fixed_from_str dtz_edge_text = Val (PErr Scan.OutOfRange).
Proof. exact dtz_wall_clock_refuted. Qed.
Print Assumptions C09_dt_wall_clock_refuted.

(* FixedOffset: every whole-minute offset, both forms *)
Theorem C09_roundtrip_fixed_offset : forall off, -86400 < off < 86400 -> off mod 60 = 0 ->
  (exists s, to_text (fixed_display [] off) = Val s /\ fixed_offset_from_str s = Val (POk off)) /\
  (exists s, to_text (fixed_debug [] off) = Val s /\ fixed_offset_from_str s = Val (POk off)).
Proof. exact fixed_roundtrip. Qed.
Print Assumptions C09_roundtrip_fixed_offset.

(* Weekday (discriminant 0..6): Display and the derived Debug *)
Theorem C09_roundtrip_weekday : forall w, 0 <= w < 7 ->
  (exists s, to_text (wd_display [] w) = Val s /\ C19.wd_from_str s = Val (Some w)) /\
  (exists s, to_text (wd_debug [] w) = Val s /\ C19.wd_from_str s = Val (Some w)).
Proof. exact weekday_roundtrip. Qed.
Print Assumptions C09_roundtrip_weekday.

(* Month (discriminant 0..11): the derived Debug (Month has no Display) *)
Theorem C09_roundtrip_month : forall m, 0 <= m < 12 ->
  exists s, to_text (mo_debug [] m) = Val s /\ C19.mo_from_str s = Val (Some m).
Proof. exact month_roundtrip. Qed.
Print Assumptions C09_roundtrip_month.

(** * show_shape: the printed text is the documented shape, as the judge states it
    (Judge/C09.v: explicit sign and at least 4 digits exactly for years outside 0..9999, the fewest
    of 0/3/6/9 fraction digits that lose nothing, second 60 for a leap second) *)
Theorem C09_shape_date : forall y o d, repr y o d ->
  to_text (date_debug [] d) = Val (Judge.C09.date_text y o) /\ to_text (date_display [] d) = Val (Judge.C09.date_text y o).
Proof. exact shape_date. Qed.
Print Assumptions C09_shape_date.
Theorem C09_shape_time : forall t, tvalid t ->
  to_text (time_debug [] t) = Val (Judge.C09.time_text (Time.tsecs t) (Time.tfrac t)) /\
  to_text (time_display [] t) = Val (Judge.C09.time_text (Time.tsecs t) (Time.tfrac t)).
Proof. exact shape_time. Qed.
Print Assumptions C09_shape_time.
Theorem C09_shape_ndt : forall y o d t, repr y o d -> tvalid t ->
  to_text (ndt_debug [] (mk_ndt d t)) = Val (Judge.C09.date_text y o ++ B"T" ++ Judge.C09.time_text (Time.tsecs t) (Time.tfrac t)) /\
  to_text (ndt_display [] (mk_ndt d t)) = Val (Judge.C09.date_text y o ++ B" " ++ Judge.C09.time_text (Time.tsecs t) (Time.tfrac t)).
Proof. exact shape_ndt. Qed.
Print Assumptions C09_shape_ndt.
Theorem C09_shape_fixed_offset : forall off, -86400 < off < 86400 -> off mod 60 = 0 ->
  to_text (fixed_debug [] off) = Val (Judge.C09.offset_text off) /\ to_text (fixed_display [] off) = Val (Judge.C09.offset_text off).
Proof. exact shape_fixed_offset. Qed.
Print Assumptions C09_shape_fixed_offset.
(* (superseded by C09_shape_dt_full below, which drops the hypothesis on the wall-clock date) *)
Theorem C09_shape_dt : forall yu ou du su fu off utc, repr yu ou du -> time_dom (Time.mk_time su fu) ->
  -86400 < off < 86400 -> off mod 60 = 0 ->
  dn_in_range (dn_of_yo yu ou + (su + off) / 86400) = true ->
  let a := mk_dtz (mk_ndt du (Time.mk_time su fu)) off in
  let '(ly, lo, ls) := Judge.C09.wall yu ou su off in
  to_text (dtz_debug utc [] a) =
    Val (Judge.C09.date_text ly lo ++ B"T" ++ Judge.C09.time_text ls fu ++ (if utc then B"Z" else Judge.C09.offset_text off)) /\
  to_text (dtz_display utc [] a) =
    Val (Judge.C09.date_text ly lo ++ B" " ++ Judge.C09.time_text ls fu ++ B" " ++ (if utc then B"UTC" else Judge.C09.offset_text off)).
Proof. exact shape_dtz. Qed.
Print Assumptions C09_shape_dt.

(** * supporting results of independent use *)
(* digit strings, for every non-negative integer: "{:0w$}" prints only digits, at least w of them,
   and they read back (scan::number's accumulation [digits_value]) as the number *)
Theorem C09_decimal : forall w n, 0 <= w -> 0 <= n ->
  forallb is_ascii_digit (fmt_zero_pad w n) = true
  /\ digits_value (fmt_zero_pad w n) 0 = n
  /\ w <= blen (fmt_zero_pad w n)
  /\ (n < 10 ^ w -> blen (fmt_zero_pad w n) = w).
Proof. exact fmt_zero_pad_facts. Qed.
Print Assumptions C09_decimal.
(* Parsed::to_naive_date resolves exactly (year, month, day) to that date: completeness of the
   ymd branch, including the verifier closures it always evaluates *)
Theorem C09_to_naive_date_ymd : forall p y m dd,
  Model.Parsed.p_year p = Some y -> Model.Parsed.p_month p = Some m -> Model.Parsed.p_day p = Some dd ->
  date_only_ymd p -> year_in_range y = true -> valid_ymd y m dd = true ->
  Model.Parsed.to_naive_date p = Val (Model.Parsed.Ok (mk_ymd y m dd)).
Proof. exact to_naive_date_ymd. Qed.
Print Assumptions C09_to_naive_date_ymd.

(** * C09_holds: the dispatcher ([Model.C09.run], what `modelrun` executes and the correspondence run
    compares with the implementation) gives, on every case of the property's domain as the judge
    states it (Judge/C09.v), the documented text for [tx.show] and the value itself for [tx.rt];
    on the two recorded findings it gives the implementation's error.  [form_ok form]: form is 0
    (Display) or 1 (Debug). *)
Theorem C09_holds_date : forall y o form, Judge.C09.valid_date y o = true -> form_ok form ->
  run B"tx.show" [VInt 0; VInt form; VTup [VInt y; VInt o]] = VStr (Judge.C09.date_text y o) /\
  run B"tx.rt" [VInt 0; VInt form; VTup [VInt y; VInt o]] = VTup [VInt y; VInt o].
Proof. exact holds_date. Qed.
Print Assumptions C09_holds_date.
Theorem C09_holds_time : forall s f form, Judge.C09.valid_time s f = true -> Judge.C09.time_in_domain s f = true -> form_ok form ->
  run B"tx.show" [VInt 1; VInt form; VTup [VInt s; VInt f]] = VStr (Judge.C09.time_text s f) /\
  run B"tx.rt" [VInt 1; VInt form; VTup [VInt s; VInt f]] = VTup [VInt s; VInt f].
Proof. exact holds_time. Qed.
Print Assumptions C09_holds_time.
(* NaiveDateTime: Debug round trips; Display is the finding (err:Invalid for every value) *)
Theorem C09_holds_ndt : forall y o s f, Judge.C09.valid_date y o = true -> Judge.C09.valid_time s f = true ->
  Judge.C09.time_in_domain s f = true ->
  let v := VTup [VInt y; VInt o; VInt s; VInt f] in
  run B"tx.show" [VInt 2; VInt 1; v] = VStr (Judge.C09.date_text y o ++ B"T" ++ Judge.C09.time_text s f) /\
  run B"tx.show" [VInt 2; VInt 0; v] = VStr (Judge.C09.date_text y o ++ B" " ++ Judge.C09.time_text s f) /\
  run B"tx.rt" [VInt 2; VInt 1; v] = v /\
  run B"tx.rt" [VInt 2; VInt 0; v] = VErr B"Invalid".
Proof. exact holds_ndt. Qed.
Print Assumptions C09_holds_ndt.
(* DateTime<FixedOffset> (ty 3) and DateTime<Utc> (ty 4, offset 0), wall-clock date in range *)
Theorem C09_holds_dt : forall y o s f off ty form, Judge.C09.valid_date y o = true -> Judge.C09.valid_time s f = true ->
  Judge.C09.time_in_domain s f = true -> Judge.C09.valid_offset off = true -> off mod 60 = 0 ->
  (ty = 3 \/ (ty = 4 /\ off = 0)) -> form_ok form -> wall_ok y o s off = true ->
  let v := VTup [VInt y; VInt o; VInt s; VInt f; VInt off] in
  (exists t, Judge.C09.spec_text ty form v = Judge.C09.InDom t /\ run B"tx.show" [VInt ty; VInt form; v] = VStr t) /\
  run B"tx.rt" [VInt ty; VInt form; v] = v.
Proof. exact holds_dt. Qed.
Print Assumptions C09_holds_dt.
Theorem C09_holds_fixed_offset : forall off form, -86400 < off < 86400 -> off mod 60 = 0 -> form_ok form ->
  exists t, Judge.C09.spec_text 5 form (VInt off) = Judge.C09.InDom t /\
            run B"tx.show" [VInt 5; VInt form; VInt off] = VStr t /\ run B"tx.rt" [VInt 5; VInt form; VInt off] = VInt off.
Proof. exact holds_fixed_offset. Qed.
Print Assumptions C09_holds_fixed_offset.
Theorem C09_holds_weekday : forall w form, 0 <= w <= 6 -> form_ok form ->
  exists t, Judge.C09.spec_text 6 form (VInt w) = Judge.C09.InDom t /\
            run B"tx.show" [VInt 6; VInt form; VInt w] = VStr t /\ run B"tx.rt" [VInt 6; VInt form; VInt w] = VInt w.
Proof. exact holds_weekday. Qed.
Print Assumptions C09_holds_weekday.
Theorem C09_holds_month : forall m, 1 <= m <= 12 ->
  exists t, Judge.C09.spec_text 7 1 (VInt m) = Judge.C09.InDom t /\
            run B"tx.show" [VInt 7; VInt 1; VInt m] = VStr t /\ run B"tx.rt" [VInt 7; VInt 1; VInt m] = VInt m.
Proof. exact holds_month. Qed.
Print Assumptions C09_holds_month.

(** * the hypotheses are inhabited *)
Example C09_ex_date : repr (-262143) 1 (mkdate (-262143) 1) /\ repr 10000 366 (mkdate 10000 366).
Proof. exact ex_dates. Qed.
Print Assumptions C09_ex_date.
Example C09_ex_time : time_dom (Time.mk_time 86399 1999999999) /\ time_dom (Time.mk_time 0 0).
Proof. exact ex_times. Qed.
Print Assumptions C09_ex_time.
Example C09_ex_dtz : dtz_dom (mk_dtz (mk_ndt (mkdate 2016 366) (Time.mk_time 86399 1500000000)) (-34200)).
Proof. exact ex_dtz. Qed.
Print Assumptions C09_ex_dtz.

(** * full-strength printed form of DateTime<FixedOffset> / DateTime<Utc>: every represented UTC date,
    every time of the domain, every whole-minute offset -- NO condition on the wall-clock date (on the
    first / last day of the range the writer prints the sentinel dates "-262144-12-31" /
    "+262143-01-01", which are the judge's wall-clock reading).  Supersedes [C09_shape_dt]. *)
Theorem C09_shape_dt_full : forall yu ou du su fu off utc, repr yu ou du -> time_dom (Time.mk_time su fu) ->
  -86400 < off < 86400 -> off mod 60 = 0 ->
  let a := mk_dtz (mk_ndt du (Time.mk_time su fu)) off in
  let '(ly, lo, ls) := Judge.C09.wall yu ou su off in
  to_text (dtz_debug utc [] a) =
    Val (Judge.C09.date_text ly lo ++ B"T" ++ Judge.C09.time_text ls fu ++ (if utc then B"Z" else Judge.C09.offset_text off)) /\
  to_text (dtz_display utc [] a) =
    Val (Judge.C09.date_text ly lo ++ B" " ++ Judge.C09.time_text ls fu ++ B" " ++ (if utc then B"UTC" else Judge.C09.offset_text off)).
Proof. exact shape_dtz_full. Qed.
Print Assumptions C09_shape_dt_full.
(* Weekday (Display and derived Debug) and Month (derived Debug; model value = discriminant 0..11):
   the printed names are the judge's English names *)
Theorem C09_shape_weekday : forall w, 0 <= w <= 6 ->
  to_text (wd_display [] w) = Val (nth (Z.to_nat w) Judge.C09.weekday_names []) /\
  to_text (wd_debug [] w) = Val (nth (Z.to_nat w) Judge.C09.weekday_names []).
Proof. exact shape_weekday. Qed.
Print Assumptions C09_shape_weekday.
Theorem C09_shape_month : forall m, 0 <= m <= 11 ->
  to_text (mo_debug [] m) = Val (nth (Z.to_nat m) Judge.C09.month_names []).
Proof. exact shape_month. Qed.
Print Assumptions C09_shape_month.

(** * every dispatcher op (coverage/OPS_THEOREMS_C09.md) *)
Theorem C09_dispatch : forall args,
  run (B"tx.show") args =
    match args with
    | [VInt ty; VInt form; v] => match show ty form v with Some r => val_of_R VStr r | None => VBad end
    | _ => VBad end /\
  run (B"tx.parse") args =
    match args with
    | [VInt ty; VStr s] => if utf8_valid s then match parse_text ty s with Some o => o | None => VBad end else VBad
    | _ => VBad end /\
  run (B"tx.rt") args =
    match args with
    | [VInt ty; VInt form; v] =>
        match show ty form v with
        | Some (Val s) => match parse_text ty s with Some o => o | None => VBad end
        | Some Panic => VPanic
        | Some OutOfFuel => VFuel
        | None => VBad
        end
    | _ => VBad end.
Proof. exact dispatch. Qed.
Print Assumptions C09_dispatch.
(* tx.rt is tx.parse applied to the text of tx.show, for every type, form and value *)
Theorem C09_rt_is_parse_of_show : forall ty form v t,
  run (B"tx.show") [VInt ty; VInt form; v] = VStr t -> utf8_valid t = true ->
  run (B"tx.rt") [VInt ty; VInt form; v] = run (B"tx.parse") [VInt ty; VStr t].
Proof. exact rt_is_parse_of_show. Qed.
Print Assumptions C09_rt_is_parse_of_show.

(** * C09_holds: the property as the independent judge states it (Judge/C09.v: the documented shapes
    over Spec/Gregorian.v; imports nothing of the model) holds of the model on EVERY case line of all
    three ops and all eight types -- whenever the judge has an opinion it accepts the model's output --
    except exactly the case lines of the two recorded findings ([known_finding]: op tx.rt of a
    NaiveDateTime in Display form; op tx.rt of a DateTime<FixedOffset> whose wall-clock date is outside
    the range of NaiveDate).  On EVERY one of those the model gives the implementation's error and the
    judge says bad ([C09_finding_ndt_display]: err:Invalid; [C09_finding_wall_clock]: err:OutOfRange,
    both forms), and [C09_wall_ok_false_iff] shows that the second exclusion is exactly the recorded
    matcher.  tx.show is NOT excluded on those values: the printed form is the
    documented one there too. *)
Theorem C09_holds : forall op args, known_finding op args = false ->
  Judge.C09.judge op args (run op args) <> JSkip -> Judge.C09.judge op args (run op args) = JOk.
Proof. exact C09_holds. Qed.
Print Assumptions C09_holds.
Theorem C09_finding_ndt_display : forall y o s f,
  Judge.C09.valid_date y o = true -> Judge.C09.valid_time s f = true -> Judge.C09.time_in_domain s f = true ->
  let args := [VInt 2; VInt 0; VTup [VInt y; VInt o; VInt s; VInt f]] in
  known_finding B"tx.rt" args = true /\ run B"tx.rt" args = VErr B"Invalid" /\
  exists why, Judge.C09.judge B"tx.rt" args (run B"tx.rt" args) = JBad why.
Proof. exact C09_finding_ndt_display. Qed.
Print Assumptions C09_finding_ndt_display.
(* the second finding, universally (value level, then dispatcher level): every DateTime<FixedOffset> of the
   domain whose wall-clock date is outside the range of NaiveDate prints, in both forms, a text that
   DateTime::from_str refuses with OutOfRange.  Generalises the witness [C09_dt_wall_clock_refuted]. *)
Theorem C09_wall_clock_refused : forall yu ou du su fu off, repr yu ou du -> time_dom (Time.mk_time su fu) ->
  -86400 < off < 86400 -> off mod 60 = 0 ->
  dn_in_range (dn_of_yo yu ou + (su + off) / 86400) = false ->
  let a := mk_dtz (mk_ndt du (Time.mk_time su fu)) off in
  (exists s, to_text (dtz_debug false [] a) = Val s /\ datetime_fixed_from_str s = Val (PErr Scan.OutOfRange)) /\
  (exists s, to_text (dtz_display false [] a) = Val s /\ datetime_fixed_from_str s = Val (PErr Scan.OutOfRange)).
Proof. exact wall_clock_refused. Qed.
Print Assumptions C09_wall_clock_refused.
Theorem C09_finding_wall_clock : forall y o s f off form,
  Judge.C09.valid_date y o = true -> Judge.C09.valid_time s f = true ->
  Judge.C09.time_in_domain s f = true -> Judge.C09.valid_offset off = true -> off mod 60 = 0 -> form_ok form ->
  wall_ok y o s off = false ->
  let args := [VInt 3; VInt form; VTup [VInt y; VInt o; VInt s; VInt f; VInt off]] in
  known_finding B"tx.rt" args = true /\ run B"tx.rt" args = VErr B"OutOfRange" /\
  exists why, Judge.C09.judge B"tx.rt" args (run B"tx.rt" args) = JBad why.
Proof. exact C09_finding_wall_clock. Qed.
Print Assumptions C09_finding_wall_clock.
Theorem C09_wall_ok_false_iff : forall y o s off,
  Judge.C09.valid_date y o = true -> 0 <= s < 86400 -> -86400 < off < 86400 ->
  (wall_ok y o s off = false <->
   (y = 262142 /\ o = 365 /\ 86400 <= s + off) \/ (y = -262143 /\ o = 1 /\ s + off < 0)).
Proof. exact wall_ok_false_iff. Qed.
Print Assumptions C09_wall_ok_false_iff.
(* not vacuous: a leap-second DateTime<FixedOffset> on tx.show / tx.rt, its text on tx.parse; and a value of
   the second finding: tx.show accepted, tx.rt excluded with the implementation's err:OutOfRange *)
Example C09_holds_inhabited :
  (let a := [VInt 3; VInt 0; VTup [VInt 2016; VInt 366; VInt 86399; VInt 1500000000; VInt (-34200)]] in
   known_finding B"tx.show" a = false /\ Judge.C09.judge B"tx.show" a (run B"tx.show" a) = JOk /\
   known_finding B"tx.rt" a = false /\ Judge.C09.judge B"tx.rt" a (run B"tx.rt" a) = JOk) /\
  (let a := [VInt 3; VStr (B"2016-12-31T14:29:60.500-09:30")] in
   known_finding B"tx.parse" a = false /\ Judge.C09.judge B"tx.parse" a (run B"tx.parse" a) = JOk) /\
  (let a := [VInt 3; VInt 1; VTup [VInt 262142; VInt 365; VInt 86399; VInt 0; VInt 60]] in
   known_finding B"tx.show" a = false /\ Judge.C09.judge B"tx.show" a (run B"tx.show" a) = JOk /\
   known_finding B"tx.rt" a = true /\ run B"tx.rt" a = VErr B"OutOfRange").
Proof. exact holds_examples. Qed.
Print Assumptions C09_holds_inhabited.
