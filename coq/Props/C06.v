(** C06 — Durations are exact signed nanosecond counts within a closed range.
    Property theorems only: each is closed by [exact] of a lemma from Proofs/C06.v and followed by
    [Print Assumptions].  [ns d] is the integer nanosecond count a duration denotes, [valid d] says
    0 <= nanos < 10^9 and ns d in [-(2^63-1) ms, +(2^63-1) ms] ([in_rng]); model functions are the
    line-by-line transcription of src/time_delta.rs in Model/C06.v, with trapping integer arithmetic
    ([Val]/[Panic]). *)
From Coq Require Import ZArith List Bool String.
From V Require Import Base.Int Base.IO Gen.TimeDelta Model.C06 Spec.DurationText Proofs.C06 Proofs.C06Ops
  Proofs.C06Display Proofs.C06Holds Proofs.HoldsLib.
From V Require Judge.C06.
Import ListNotations.
Open Scope Z_scope.

(* constructors: exact, or refused exactly when the argument is out of range *)
Theorem C06_new : forall s n, in_i64 s = true -> in_u32 n = true ->
  match td_new s n with
  | Some d => secs d = s /\ nanos d = n /\ valid d
  | None => ~ (n < G /\ in_rng (s * G + n))
  end.
Proof. exact td_new_spec. Qed.
Print Assumptions C06_new.

Theorem C06_try_weeks : forall n, in_i64 n = true ->
  match try_weeks n with Some d => ns d = n * 604800 * G /\ valid d | None => ~ in_rng (n * 604800 * G) end.
Proof. exact try_weeks_spec. Qed.
Print Assumptions C06_try_weeks.
Theorem C06_try_days : forall n, in_i64 n = true ->
  match try_days n with Some d => ns d = n * 86400 * G /\ valid d | None => ~ in_rng (n * 86400 * G) end.
Proof. exact try_days_spec. Qed.
Print Assumptions C06_try_days.
Theorem C06_try_hours : forall n, in_i64 n = true ->
  match try_hours n with Some d => ns d = n * 3600 * G /\ valid d | None => ~ in_rng (n * 3600 * G) end.
Proof. exact try_hours_spec. Qed.
Print Assumptions C06_try_hours.
Theorem C06_try_minutes : forall n, in_i64 n = true ->
  match try_minutes n with Some d => ns d = n * 60 * G /\ valid d | None => ~ in_rng (n * 60 * G) end.
Proof. exact try_minutes_spec. Qed.
Print Assumptions C06_try_minutes.
Theorem C06_try_seconds : forall n, in_i64 n = true ->
  match try_seconds n with Some d => ns d = n * G /\ valid d | None => ~ in_rng (n * G) end.
Proof. exact try_seconds_spec. Qed.
Print Assumptions C06_try_seconds.
Theorem C06_try_milliseconds : forall n, in_i64 n = true ->
  exists r, try_milliseconds n = Val r /\
  match r with Some d => ns d = n * 1000000 /\ valid d | None => ~ in_rng (n * 1000000) end.
Proof. exact try_milliseconds_spec. Qed.
Print Assumptions C06_try_milliseconds.
Theorem C06_microseconds : forall n, in_i64 n = true ->
  exists d, microseconds n = Val d /\ ns d = n * 1000 /\ valid d.
Proof. exact microseconds_spec. Qed.
Print Assumptions C06_microseconds.
Theorem C06_nanoseconds : forall n, in_i64 n = true ->
  exists d, nanoseconds n = Val d /\ ns d = n /\ valid d.
Proof. exact nanoseconds_spec. Qed.
Print Assumptions C06_nanoseconds.

(* accessors: truncation toward zero; sub-unit parts carry the sign of the value *)
Theorem C06_num_seconds : forall d, valid d -> num_seconds d = Val (Z.quot (ns d) G).
Proof. exact num_seconds_spec. Qed.
Print Assumptions C06_num_seconds.
Theorem C06_subsec_nanos : forall d, valid d -> subsec_nanos d = Val (Z.rem (ns d) G).
Proof. exact subsec_nanos_spec. Qed.
Print Assumptions C06_subsec_nanos.
Theorem C06_num_minutes : forall d, valid d -> num_minutes d = Val (Z.quot (ns d) (60 * G)).
Proof. exact num_minutes_spec. Qed.
Print Assumptions C06_num_minutes.
Theorem C06_num_hours : forall d, valid d -> num_hours d = Val (Z.quot (ns d) (3600 * G)).
Proof. exact num_hours_spec. Qed.
Print Assumptions C06_num_hours.
Theorem C06_num_days : forall d, valid d -> num_days d = Val (Z.quot (ns d) (86400 * G)).
Proof. exact num_days_spec. Qed.
Print Assumptions C06_num_days.
Theorem C06_num_weeks : forall d, valid d -> num_weeks d = Val (Z.quot (ns d) (604800 * G)).
Proof. exact num_weeks_spec. Qed.
Print Assumptions C06_num_weeks.
Theorem C06_subsec_millis : forall d, valid d -> subsec_millis d = Val (Z.quot (Z.rem (ns d) G) 1000000).
Proof. exact subsec_millis_spec. Qed.
Print Assumptions C06_subsec_millis.
Theorem C06_subsec_micros : forall d, valid d -> subsec_micros d = Val (Z.quot (Z.rem (ns d) G) 1000).
Proof. exact subsec_micros_spec. Qed.
Print Assumptions C06_subsec_micros.
Theorem C06_num_milliseconds : forall d, valid d -> num_milliseconds d = Val (Z.quot (ns d) 1000000).
Proof. exact num_milliseconds_spec. Qed.
Print Assumptions C06_num_milliseconds.
Theorem C06_num_microseconds : forall d, valid d ->
  num_microseconds d = Val (if in_i64 (Z.quot (ns d) 1000) then Some (Z.quot (ns d) 1000) else None).
Proof. exact num_microseconds_spec. Qed.
Print Assumptions C06_num_microseconds.
Theorem C06_num_nanoseconds : forall d, valid d ->
  num_nanoseconds d = Val (if in_i64 (ns d) then Some (ns d) else None).
Proof. exact num_nanoseconds_spec. Qed.
Print Assumptions C06_num_nanoseconds.

(* arithmetic: exact or refused; closure (results are valid); no operation traps *)
Theorem C06_checked_add : forall a b, valid a -> valid b ->
  exists r, td_checked_add a b = Val r /\
  match r with Some d => ns d = ns a + ns b /\ valid d | None => ~ in_rng (ns a + ns b) end.
Proof. exact checked_add_spec. Qed.
Print Assumptions C06_checked_add.
Theorem C06_checked_sub : forall a b, valid a -> valid b ->
  exists r, td_checked_sub a b = Val r /\
  match r with Some d => ns d = ns a - ns b /\ valid d | None => ~ in_rng (ns a - ns b) end.
Proof. exact checked_sub_spec. Qed.
Print Assumptions C06_checked_sub.
Theorem C06_checked_mul : forall a k, valid a -> in_i32 k = true ->
  exists r, td_checked_mul a k = Val r /\
  match r with Some d => ns d = ns a * k /\ valid d | None => ~ in_rng (ns a * k) end.
Proof. exact checked_mul_spec. Qed.
Print Assumptions C06_checked_mul.
Theorem C06_checked_div : forall a k, valid a -> in_i32 k = true -> k <> 0 ->
  exists d, td_checked_div a k = Val (Some d) /\ valid d /\ Z.abs (ns d * k - ns a) < 2 * Z.abs k.
Proof. exact checked_div_spec. Qed.
Print Assumptions C06_checked_div.
Theorem C06_neg : forall a, valid a -> exists d, td_neg a = Val d /\ ns d = - ns a /\ valid d.
Proof. exact neg_spec. Qed.
Print Assumptions C06_neg.
Theorem C06_abs : forall a, valid a -> exists d, td_abs a = Val d /\ ns d = Z.abs (ns a) /\ valid d.
Proof. exact abs_spec. Qed.
Print Assumptions C06_abs.
Theorem C06_cmp : forall a b, valid a -> valid b -> td_cmp a b = cmpZ (ns a) (ns b).
Proof. exact cmp_spec. Qed.
Print Assumptions C06_cmp.
Theorem C06_op_add : forall a b, valid a -> valid b ->
  if Z.leb RMIN (ns a + ns b) && Z.leb (ns a + ns b) RMAX
  then exists d, op_add a b = Val d /\ ns d = ns a + ns b /\ valid d
  else op_add a b = Panic.
Proof. exact op_add_spec. Qed.
Print Assumptions C06_op_add.
Theorem C06_op_sub : forall a b, valid a -> valid b ->
  if Z.leb RMIN (ns a - ns b) && Z.leb (ns a - ns b) RMAX
  then exists d, op_sub a b = Val d /\ ns d = ns a - ns b /\ valid d
  else op_sub a b = Panic.
Proof. exact op_sub_spec. Qed.
Print Assumptions C06_op_sub.
Theorem C06_sum : forall l acc, valid acc -> Forall valid l ->
  match sum_spec l (ns acc) with
  | Some n => exists d, td_sum l acc = Val d /\ ns d = n /\ valid d
  | None => td_sum l acc = Panic
  end.
Proof. exact td_sum_spec. Qed.
Print Assumptions C06_sum.

(* std interop: exact or refused *)
Theorem C06_from_std : forall s n, in_u64 s = true -> 0 <= n < G ->
  match from_std s n with
  | Some d => ns d = s * G + n /\ valid d
  | None => ~ in_rng (s * G + n)
  end.
Proof. exact from_std_spec. Qed.
Print Assumptions C06_from_std.
Theorem C06_to_std : forall a, valid a ->
  match to_std a with
  | Some (s, n) => 0 <= ns a /\ s * G + n = ns a /\ 0 <= n < G /\ in_u64 s = true
  | None => ns a < 0
  end.
Proof. exact to_std_spec. Qed.
Print Assumptions C06_to_std.

(* text form: PARTIAL (kept under its name) — only: never traps and the digit loop terminates within its
   fuel.  SUPERSEDED by C06_display_exact below, which gives the text itself for every valid duration. *)
Theorem C06_display_total_partial : forall a, valid a -> exists s, td_display a = Val s.
Proof. exact td_display_total. Qed.
Print Assumptions C06_display_total_partial.

(* text form, exact: for EVERY valid duration (MIN and MAX included) Display prints [duration_text] of the
   nanosecond count — Spec/DurationText.v, written from the documentation over Z with the decimal digits
   of Base.IO / Proofs/Decimal.v: sign, "P", then "0D" for zero, else "T", the whole seconds of |n| in
   decimal, the fraction (absent when zero, otherwise "." and the nine digits with the trailing zeros
   removed), "S".  No trap, no fuel exhaustion. *)
Theorem C06_display_exact : forall a, valid a -> td_display a = Val (duration_text (ns a)).
Proof. exact td_display_exact. Qed.
Print Assumptions C06_display_exact.
(* what [duration_text] is, without reference to its definition: I is the minimal decimal of |n| / 10^9
   (digits only, no leading zero unless it is "0"), F the fraction digits (one to nine digits, the last
   one not a zero, F scaled back to nine places is |n| mod 10^9); bytes 45 '-', 80 'P', 84 'T', 48 '0',
   68 'D', 46 '.', 83 'S' — for every integer n *)
Theorem C06_display_text_shape : forall n,
  let a := Z.abs n in
  let sign := if n <? 0 then [45] else [] in
  exists I, forallb is_dig I = true /\ digits_val I 0 = a / 1000000000 /\
            (I = [48] \/ exists c r, I = c :: r /\ c <> 48) /\
  ((a = 0 /\ duration_text n = [80; 48; 68]) \/
   (a <> 0 /\ a mod 1000000000 = 0 /\ duration_text n = sign ++ [80; 84] ++ I ++ [83]) \/
   (a mod 1000000000 <> 0 /\ exists F, duration_text n = sign ++ [80; 84] ++ I ++ [46] ++ F ++ [83] /\
      forallb is_dig F = true /\ (1 <= List.length F <= 9)%nat /\ (forall p, F <> p ++ [48]) /\
      digits_val F 0 * 10 ^ (9 - Z.of_nat (List.length F)) = a mod 1000000000)).
Proof. exact duration_text_shape. Qed.
Print Assumptions C06_display_text_shape.
(* the inverse direction: the text determines the value.  A reader of the form (optional "-", "P0D" or
   "PT" digits ["." digits] "S") returns the nanosecond count of every printed text, for every integer;
   hence printing is injective, on the model's durations too *)
Theorem C06_display_read_back : forall n, read_duration_text (duration_text n) = Some n.
Proof. exact read_duration_text_spec. Qed.
Print Assumptions C06_display_read_back.
Theorem C06_display_determines_value : forall a, valid a ->
  exists s, td_display a = Val s /\ read_duration_text s = Some (ns a).
Proof. exact td_display_read. Qed.
Print Assumptions C06_display_determines_value.
Theorem C06_display_injective : forall a b, valid a -> valid b -> td_display a = td_display b -> a = b.
Proof. exact td_display_injective. Qed.
Print Assumptions C06_display_injective.
Example C06_display_examples :
  td_display (mk_td TD_MIN_secs TD_MIN_nanos) = Val (B"-PT9223372036854775.807S") /\
  td_display (mk_td TD_MAX_secs TD_MAX_nanos) = Val (B"PT9223372036854775.807S") /\
  td_display (mk_td 0 0) = Val (B"P0D") /\ td_display (mk_td (-1) 999999999) = Val (B"-PT0.000000001S") /\
  td_display (mk_td 5 0) = Val (B"PT5S") /\ read_duration_text (B"-PT0.5S") = Some (-500000000).
Proof. exact display_examples. Qed.
Print Assumptions C06_display_examples.

(* ---- the panicking constructors (weeks .. milliseconds): expect(..) of the try_ form.
   [exact_or_panic r x]: r returns the valid duration of exactly x nanoseconds when x is in the range,
   and is the documented panic exactly when x is out of range (= the try_ form is None) *)
Theorem C06_panicking_ctors : forall n, in_i64 n = true ->
  exact_or_panic (unwrap (try_weeks n)) (n * 604800 * G) /\
  exact_or_panic (unwrap (try_days n)) (n * 86400 * G) /\
  exact_or_panic (unwrap (try_hours n)) (n * 3600 * G) /\
  exact_or_panic (unwrap (try_minutes n)) (n * 60 * G) /\
  exact_or_panic (unwrap (try_seconds n)) (n * G) /\
  exact_or_panic (unwrap_r (try_milliseconds n)) (n * 1000000).
Proof. exact (fun n H => conj (pweeks_spec n H) (conj (pdays_spec n H) (conj (phours_spec n H)
  (conj (pminutes_spec n H) (conj (pseconds_spec n H) (pmillis_spec n H)))))). Qed.
Print Assumptions C06_panicking_ctors.
Theorem C06_exact_or_panic_def : forall r x, exact_or_panic r x <->
  (in_rng x -> exists d, r = Val d /\ ns d = x /\ valid d) /\ (~ in_rng x -> r = Panic).
Proof. exact exact_or_panic_iff. Qed.
Print Assumptions C06_exact_or_panic_def.
(* Mul<i32>, Div<i32>: the checked form's value, panic exactly when it is None (Div: only for zero) *)
Theorem C06_op_mul : forall a k, valid a -> in_i32 k = true -> exact_or_panic (op_mul a k) (ns a * k).
Proof. exact op_mul_spec. Qed.
Print Assumptions C06_op_mul.
Theorem C06_op_div : forall a k, valid a -> in_i32 k = true ->
  (k = 0 -> td_checked_div a k = Val None /\ op_div a k = Panic) /\
  (k <> 0 -> exists d, op_div a k = Val d /\ td_checked_div a k = Val (Some d) /\ valid d /\
                       Z.abs (ns d * k - ns a) < 2 * Z.abs k).
Proof. exact op_div_spec. Qed.
Print Assumptions C06_op_div.
(* AddAssign / SubAssign (own bodies: checked form + expect) give what + and - give *)
Theorem C06_assign_forms : forall a b,
  unwrap_r (td_checked_add a b) = op_add a b /\ unwrap_r (td_checked_sub a b) = op_sub a b.
Proof. exact assign_forms. Qed.
Print Assumptions C06_assign_forms.
(* MIN, MAX (= min_value(), max_value()), zero(): the ends of the range and the empty duration *)
Theorem C06_consts :
  valid (mk_td TD_MIN_secs TD_MIN_nanos) /\ ns (mk_td TD_MIN_secs TD_MIN_nanos) = RMIN /\
  valid (mk_td TD_MAX_secs TD_MAX_nanos) /\ ns (mk_td TD_MAX_secs TD_MAX_nanos) = RMAX /\
  valid (mk_td 0 0) /\ ns (mk_td 0 0) = 0 /\
  (forall d, valid d -> ns (mk_td TD_MIN_secs TD_MIN_nanos) <= ns d <= ns (mk_td TD_MAX_secs TD_MAX_nanos)).
Proof. exact consts_spec. Qed.
Print Assumptions C06_consts.
Theorem C06_is_zero : forall d, valid d -> is_zero d = (ns d =? 0).
Proof. exact is_zero_spec. Qed.
Print Assumptions C06_is_zero.

(* ---- every op of the dispatcher: which model function answers it ([sh_*]: the argument decoders of
   Proofs/C06Holds.v; td.sumv = td.sum and td.opaddasg/opsubasg = td.opadd/opsub by C06_assign_forms) *)
Theorem C06_dispatch : forall args,
  run (B"td.new") args = sh_new args /\
  run (B"td.weeks") args = sh_i64 (fun z => vo_td (try_weeks z)) args /\
  run (B"td.days") args = sh_i64 (fun z => vo_td (try_days z)) args /\
  run (B"td.hours") args = sh_i64 (fun z => vo_td (try_hours z)) args /\
  run (B"td.minutes") args = sh_i64 (fun z => vo_td (try_minutes z)) args /\
  run (B"td.seconds") args = sh_i64 (fun z => vo_td (try_seconds z)) args /\
  run (B"td.millis") args = sh_i64 (fun z => val_of_R vo_td (try_milliseconds z)) args /\
  run (B"td.pweeks") args = sh_i64 (fun z => val_of_R enc_td (unwrap (try_weeks z))) args /\
  run (B"td.pdays") args = sh_i64 (fun z => val_of_R enc_td (unwrap (try_days z))) args /\
  run (B"td.phours") args = sh_i64 (fun z => val_of_R enc_td (unwrap (try_hours z))) args /\
  run (B"td.pminutes") args = sh_i64 (fun z => val_of_R enc_td (unwrap (try_minutes z))) args /\
  run (B"td.pseconds") args = sh_i64 (fun z => val_of_R enc_td (unwrap (try_seconds z))) args /\
  run (B"td.pmillis") args = sh_i64 (fun z => val_of_R enc_td (unwrap_r (try_milliseconds z))) args /\
  run (B"td.micros") args = sh_i64 (fun z => val_of_R enc_td (microseconds z)) args /\
  run (B"td.nanos") args = sh_i64 (fun z => val_of_R enc_td (nanoseconds z)) args /\
  run (B"td.acc") args = sh_td1 (fun d => val_of_R (fun v => v) (td_acc d)) args /\
  run (B"td.add") args = sh_td2 (fun a b => val_of_R vo_td (td_checked_add a b)) args /\
  run (B"td.sub") args = sh_td2 (fun a b => val_of_R vo_td (td_checked_sub a b)) args /\
  run (B"td.mul") args = sh_tdk (fun a k => val_of_R vo_td (td_checked_mul a k)) args /\
  run (B"td.div") args = sh_tdk (fun a k => val_of_R vo_td (td_checked_div a k)) args /\
  run (B"td.neg") args = sh_td1 (fun d => val_of_R enc_td (td_neg d)) args /\
  run (B"td.abs") args = sh_td1 (fun d => val_of_R enc_td (td_abs d)) args /\
  run (B"td.cmp") args = sh_td2 (fun a b => VInt (td_cmp a b)) args /\
  run (B"td.fromstd") args = sh_fromstd args /\
  run (B"td.tostd") args = sh_td1 (fun d => val_of_option (fun '(s, n) => VTup [VInt s; VInt n]) (to_std d)) args /\
  run (B"td.disp") args = sh_td1 (fun d => val_of_R VStr (td_display d)) args /\
  run (B"td.opadd") args = sh_td2 (fun a b => val_of_R enc_td (op_add a b)) args /\
  run (B"td.opsub") args = sh_td2 (fun a b => val_of_R enc_td (op_sub a b)) args /\
  run (B"td.opmul") args = sh_tdk (fun a k => val_of_R enc_td (op_mul a k)) args /\
  run (B"td.opdiv") args = sh_tdk (fun a k => val_of_R enc_td (op_div a k)) args /\
  run (B"td.sum") args = sh_sum args /\
  run (B"td.opaddasg") args = sh_td2 (fun a b => val_of_R enc_td (op_add a b)) args /\
  run (B"td.opsubasg") args = sh_td2 (fun a b => val_of_R enc_td (op_sub a b)) args /\
  run (B"td.sumv") args = sh_sum args /\
  run (B"td.consts") args = sh_consts args.
Proof. exact dispatch. Qed.
Print Assumptions C06_dispatch.
(* the accessor tuple answered to td.acc: the eleven accessors and is_zero *)
Theorem C06_acc_tuple : forall d, valid d ->
  td_acc d = Val (VTup [VInt (Z.quot (ns d) (604800 * G)); VInt (Z.quot (ns d) (86400 * G));
    VInt (Z.quot (ns d) (3600 * G)); VInt (Z.quot (ns d) (60 * G)); VInt (Z.quot (ns d) G);
    VInt (Z.quot (ns d) 1000000);
    val_of_option VInt (if in_i64 (Z.quot (ns d) 1000) then Some (Z.quot (ns d) 1000) else None);
    val_of_option VInt (if in_i64 (ns d) then Some (ns d) else None);
    VInt (Z.quot (Z.rem (ns d) G) 1000000); VInt (Z.quot (Z.rem (ns d) G) 1000); VInt (Z.rem (ns d) G);
    val_of_bool (ns d =? 0)]).
Proof. exact td_acc_spec. Qed.
Print Assumptions C06_acc_tuple.

(* ---- the property as the independent judge states it (Judge/C06.v: plain arithmetic on the integer
   nanosecond count, imports nothing of the model) holds of the model on EVERY case line of all 35 ops:
   whenever the judge has an opinion it accepts the model's output.  For the two summing ops the case
   must decode ([run] is not BADARGS — such cases are ignored by the check on both sides): the judge
   stops at the first overflowing prefix without examining the later elements
   (C06_holds_sum_premise_needed). *)
Theorem C06_holds : forall op args, run op args <> VBad ->
  Judge.C06.judge op args (run op args) <> JSkip -> Judge.C06.judge op args (run op args) = JOk.
Proof. exact C06_holds. Qed.
Print Assumptions C06_holds.
Theorem C06_holds_strict : forall op args, op_is op "td.sum" = false -> op_is op "td.sumv" = false ->
  Judge.C06.judge op args (run op args) <> JSkip -> Judge.C06.judge op args (run op args) = JOk.
Proof. exact C06_holds_strict. Qed.
Print Assumptions C06_holds_strict.
Theorem C06_holds_sum_premise_needed :
  let big := VTup [VInt 9223372036854775; VInt 0] in
  run (B"td.sum") [VTup [big; big; VNone]] = VBad /\
  Judge.C06.judge (B"td.sum") [VTup [big; big; VNone]] VBad <> JSkip.
Proof. exact sum_lazy_judge_example. Qed.
Print Assumptions C06_holds_sum_premise_needed.
(* the judge's expected text is the specification's text *)
Theorem C06_judge_text : forall n, Judge.C06.exp_display n = duration_text n.
Proof. exact exp_display_text. Qed.
Print Assumptions C06_judge_text.

(* non-vacuity: the asymmetric extreme values satisfy [valid] *)
Example C06_valid_inhabited :
  valid (mk_td (-9223372036854776) 193000000) /\ valid (mk_td 9223372036854775 807000000) /\ valid (mk_td (-1) 999999999).
Proof. exact valid_examples. Qed.
Print Assumptions C06_valid_inhabited.
