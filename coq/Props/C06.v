(** C06 — Durations are exact signed nanosecond counts within a closed range.
    Property theorems only: each is closed by [exact] of a lemma from Proofs/C06.v and followed by
    [Print Assumptions].  [ns d] is the integer nanosecond count a duration denotes, [valid d] says
    0 <= nanos < 10^9 and ns d in [-(2^63-1) ms, +(2^63-1) ms] ([in_rng]); model functions are the
    line-by-line transcription of src/time_delta.rs in Model/C06.v, with trapping integer arithmetic
    ([Val]/[Panic]). *)
From Coq Require Import ZArith List Bool.
From V Require Import Base.Int Base.IO Model.C06 Proofs.C06.
Open Scope Z_scope.

(* constructors: exact, or refused exactly when the argument is out of range *)
Theorem C06_new : forall s n, in_i64 s = true -> in_u32 n = true ->
  match td_new s n with
  | Some d => secs d = s /\ nanos d = n /\ valid d
  | None => ~ (n < G /\ in_rng (s * G + n))
  end.
Proof. exact td_new_spec. Qed.
Print Assumptions C06_new.

Theorem C06_try_weeks : forall n, in_i64 n = true ->
  match try_weeks n with Some d => ns d = n * 604800 * G /\ valid d | None => ~ in_rng (n * 604800 * G) end.
Proof. exact try_weeks_spec. Qed.
Print Assumptions C06_try_weeks.
Theorem C06_try_days : forall n, in_i64 n = true ->
  match try_days n with Some d => ns d = n * 86400 * G /\ valid d | None => ~ in_rng (n * 86400 * G) end.
Proof. exact try_days_spec. Qed.
Print Assumptions C06_try_days.
Theorem C06_try_hours : forall n, in_i64 n = true ->
  match try_hours n with Some d => ns d = n * 3600 * G /\ valid d | None => ~ in_rng (n * 3600 * G) end.
Proof. exact try_hours_spec. Qed.
Print Assumptions C06_try_hours.
Theorem C06_try_minutes : forall n, in_i64 n = true ->
  match try_minutes n with Some d => ns d = n * 60 * G /\ valid d | None => ~ in_rng (n * 60 * G) end.
Proof. exact try_minutes_spec. Qed.
Print Assumptions C06_try_minutes.
Theorem C06_try_seconds : forall n, in_i64 n = true ->
  match try_seconds n with Some d => ns d = n * G /\ valid d | None => ~ in_rng (n * G) end.
Proof. exact try_seconds_spec. Qed.
Print Assumptions C06_try_seconds.
Theorem C06_try_milliseconds : forall n, in_i64 n = true ->
  exists r, try_milliseconds n = Val r /\
  match r with Some d => ns d = n * 1000000 /\ valid d | None => ~ in_rng (n * 1000000) end.
Proof. exact try_milliseconds_spec. Qed.
Print Assumptions C06_try_milliseconds.
Theorem C06_microseconds : forall n, in_i64 n = true ->
  exists d, microseconds n = Val d /\ ns d = n * 1000 /\ valid d.
Proof. exact microseconds_spec. Qed.
Print Assumptions C06_microseconds.
Theorem C06_nanoseconds : forall n, in_i64 n = true ->
  exists d, nanoseconds n = Val d /\ ns d = n /\ valid d.
Proof. exact nanoseconds_spec. Qed.
Print Assumptions C06_nanoseconds.

(* accessors: truncation toward zero; sub-unit parts carry the sign of the value *)
Theorem C06_num_seconds : forall d, valid d -> num_seconds d = Val (Z.quot (ns d) G).
Proof. exact num_seconds_spec. Qed.
Print Assumptions C06_num_seconds.
Theorem C06_subsec_nanos : forall d, valid d -> subsec_nanos d = Val (Z.rem (ns d) G).
Proof. exact subsec_nanos_spec. Qed.
Print Assumptions C06_subsec_nanos.
Theorem C06_num_minutes : forall d, valid d -> num_minutes d = Val (Z.quot (ns d) (60 * G)).
Proof. exact num_minutes_spec. Qed.
Print Assumptions C06_num_minutes.
Theorem C06_num_hours : forall d, valid d -> num_hours d = Val (Z.quot (ns d) (3600 * G)).
Proof. exact num_hours_spec. Qed.
Print Assumptions C06_num_hours.
Theorem C06_num_days : forall d, valid d -> num_days d = Val (Z.quot (ns d) (86400 * G)).
Proof. exact num_days_spec. Qed.
Print Assumptions C06_num_days.
Theorem C06_num_weeks : forall d, valid d -> num_weeks d = Val (Z.quot (ns d) (604800 * G)).
Proof. exact num_weeks_spec. Qed.
Print Assumptions C06_num_weeks.
Theorem C06_subsec_millis : forall d, valid d -> subsec_millis d = Val (Z.quot (Z.rem (ns d) G) 1000000).
Proof. exact subsec_millis_spec. Qed.
Print Assumptions C06_subsec_millis.
Theorem C06_subsec_micros : forall d, valid d -> subsec_micros d = Val (Z.quot (Z.rem (ns d) G) 1000).
Proof. exact subsec_micros_spec. Qed.
Print Assumptions C06_subsec_micros.
Theorem C06_num_milliseconds : forall d, valid d -> num_milliseconds d = Val (Z.quot (ns d) 1000000).
Proof. exact num_milliseconds_spec. Qed.
Print Assumptions C06_num_milliseconds.
Theorem C06_num_microseconds : forall d, valid d ->
  num_microseconds d = Val (if in_i64 (Z.quot (ns d) 1000) then Some (Z.quot (ns d) 1000) else None).
Proof. exact num_microseconds_spec. Qed.
Print Assumptions C06_num_microseconds.
Theorem C06_num_nanoseconds : forall d, valid d ->
  num_nanoseconds d = Val (if in_i64 (ns d) then Some (ns d) else None).
Proof. exact num_nanoseconds_spec. Qed.
Print Assumptions C06_num_nanoseconds.

(* arithmetic: exact or refused; closure (results are valid); no operation traps *)
Theorem C06_checked_add : forall a b, valid a -> valid b ->
  exists r, td_checked_add a b = Val r /\
  match r with Some d => ns d = ns a + ns b /\ valid d | None => ~ in_rng (ns a + ns b) end.
Proof. exact checked_add_spec. Qed.
Print Assumptions C06_checked_add.
Theorem C06_checked_sub : forall a b, valid a -> valid b ->
  exists r, td_checked_sub a b = Val r /\
  match r with Some d => ns d = ns a - ns b /\ valid d | None => ~ in_rng (ns a - ns b) end.
Proof. exact checked_sub_spec. Qed.
Print Assumptions C06_checked_sub.
Theorem C06_checked_mul : forall a k, valid a -> in_i32 k = true ->
  exists r, td_checked_mul a k = Val r /\
  match r with Some d => ns d = ns a * k /\ valid d | None => ~ in_rng (ns a * k) end.
Proof. exact checked_mul_spec. Qed.
Print Assumptions C06_checked_mul.
Theorem C06_checked_div : forall a k, valid a -> in_i32 k = true -> k <> 0 ->
  exists d, td_checked_div a k = Val (Some d) /\ valid d /\ Z.abs (ns d * k - ns a) < 2 * Z.abs k.
Proof. exact checked_div_spec. Qed.
Print Assumptions C06_checked_div.
Theorem C06_neg : forall a, valid a -> exists d, td_neg a = Val d /\ ns d = - ns a /\ valid d.
Proof. exact neg_spec. Qed.
Print Assumptions C06_neg.
Theorem C06_abs : forall a, valid a -> exists d, td_abs a = Val d /\ ns d = Z.abs (ns a) /\ valid d.
Proof. exact abs_spec. Qed.
Print Assumptions C06_abs.
Theorem C06_cmp : forall a b, valid a -> valid b -> td_cmp a b = cmpZ (ns a) (ns b).
Proof. exact cmp_spec. Qed.
Print Assumptions C06_cmp.
Theorem C06_op_add : forall a b, valid a -> valid b ->
  if Z.leb RMIN (ns a + ns b) && Z.leb (ns a + ns b) RMAX
  then exists d, op_add a b = Val d /\ ns d = ns a + ns b /\ valid d
  else op_add a b = Panic.
Proof. exact op_add_spec. Qed.
Print Assumptions C06_op_add.
Theorem C06_op_sub : forall a b, valid a -> valid b ->
  if Z.leb RMIN (ns a - ns b) && Z.leb (ns a - ns b) RMAX
  then exists d, op_sub a b = Val d /\ ns d = ns a - ns b /\ valid d
  else op_sub a b = Panic.
Proof. exact op_sub_spec. Qed.
Print Assumptions C06_op_sub.
Theorem C06_sum : forall l acc, valid acc -> Forall valid l ->
  match sum_spec l (ns acc) with
  | Some n => exists d, td_sum l acc = Val d /\ ns d = n /\ valid d
  | None => td_sum l acc = Panic
  end.
Proof. exact td_sum_spec. Qed.
Print Assumptions C06_sum.

(* std interop: exact or refused *)
Theorem C06_from_std : forall s n, in_u64 s = true -> 0 <= n < G ->
  match from_std s n with
  | Some d => ns d = s * G + n /\ valid d
  | None => ~ in_rng (s * G + n)
  end.
Proof. exact from_std_spec. Qed.
Print Assumptions C06_from_std.
Theorem C06_to_std : forall a, valid a ->
  match to_std a with
  | Some (s, n) => 0 <= ns a /\ s * G + n = ns a /\ 0 <= n < G /\ in_u64 s = true
  | None => ns a < 0
  end.
Proof. exact to_std_spec. Qed.
Print Assumptions C06_to_std.

(* text form: PARTIAL — proved: never traps and the digit loop terminates within its fuel; the
   equality with the exact decimal of |ns|/10^9 is decided by the judge on implementation and
   model outputs (correspondence), not by a theorem. *)
Theorem C06_display_total_partial : forall a, valid a -> exists s, td_display a = Val s.
Proof. exact td_display_total. Qed.
Print Assumptions C06_display_total_partial.

(* non-vacuity: the asymmetric extreme values satisfy [valid] *)
Example C06_valid_inhabited :
  valid (mk_td (-9223372036854776) 193000000) /\ valid (mk_td 9223372036854775 807000000) /\ valid (mk_td (-1) 999999999).
Proof. exact valid_examples. Qed.
Print Assumptions C06_valid_inhabited.
