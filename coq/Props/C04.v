(** C04 — Zone-aware date-times: one instant, many wall clocks.
    Property theorems only: each is closed by [exact] of a lemma from Proofs/C04.v / Proofs/C04Date.v
    and followed by [Print Assumptions].

    Reading.  A date-time is the record [dtz] = (UTC NaiveDateTime [dz_utc], offset seconds [dz_off])
    of Model/DateTime.v; the model functions are the line-by-line transcription of
    src/datetime/mod.rs, src/offset/mod.rs, src/offset/fixed.rs, src/naive/datetime/mod.rs with
    trapping integer arithmetic ([Val]/[Panic]).  Semantics (Proofs/C04.v):
      [dn d]      day number (Spec/Gregorian.v) of a date word,   [nominal d]  a supported date,
      [usecs u]   = dn * 86400 + seconds of day of a naive reading, [frac u] its sub-second field
                  (>= 10^9 encodes a leap second and is carried unchanged),
      [wall a]    = usecs (dz_utc a) + dz_off a   (the wall clock, as a second count),
      [in_rng t]  DN_MIN*86400 <= t <= DN_MAX*86400 + 86399   (the supported instants),
      [keep t f]  = in_rng t, minus the one reading chrono's filter also refuses: a leap fraction in
                  the very last second of the range (NaiveDateTime::MAX is 23:59:59.999999999),
      [ndt_ok], [dtz_ok]  well-formed values: nominal date, seconds < 86400, fraction < 2*10^9,
                  offset strictly between -86400 and 86400.
    The calendar-core facts these proofs need about Model/Date.v ([date_facts]: successor /
    predecessor = day number +- 1, order embedding, accessors) are discharged in Proofs/C04Date.v
    from the shared library Proofs/Date.v (C01/C08), and the ISO-week lemma for nominal dates from
    Proofs/DateIso.v (C04_iso_week_nominal), so the theorems below are unconditional (the older form
    of the ISO-week theorem, named _modulo_isoweek, which carries that lemma as an explicit premise,
    is kept under its name). *)
From Coq Require Import ZArith List Bool String.
From V Require Import Base.Int Base.IO Spec.Gregorian.
From V Require Model.Date Model.Time.
From V Require Model.DateExtra Model.C01 Model.Show Judge.C09 Judge.C04 Proofs.C04Show Proofs.C04Holds Proofs.C04HoldsOld Proofs.C04OpDays.
From V Require Import Model.DateTime Model.C04 Proofs.C04 Proofs.C04Date Proofs.C04Wide Proofs.C04Ops.
Import ListNotations.
Open Scope Z_scope.

(* ---- offsets: exactly the whole seconds strictly between -24h and +24h; west = negated east *)
Theorem C04_east_opt : forall s off, east_opt s = Some off <-> (off = s /\ off_ok s).
Proof. exact east_opt_some_iff. Qed.
Print Assumptions C04_east_opt.
Theorem C04_west_opt : forall s, in_i32 s = true ->
  west_opt s = Val (if (-86400 <? s) && (s <? 86400) then Some (- s) else None).
Proof. exact west_opt_spec. Qed.
Print Assumptions C04_west_opt.

(* ---- time of day under an offset: (secs + off) mod 86400 with a day carry in {-1,0,1}; fraction kept *)
Theorem C04_time_add_offset : forall t off, time_ok t -> off_ok off ->
  Time.overflowing_add_offset t off =
    Val (Time.mk_time ((Time.tsecs t + off) mod 86400) (Time.tfrac t), (Time.tsecs t + off) / 86400).
Proof. exact overflowing_add_offset_spec. Qed.
Print Assumptions C04_time_add_offset.
Theorem C04_time_sub_offset : forall t off, time_ok t -> off_ok off ->
  Time.overflowing_sub_offset t off =
    Val (Time.mk_time ((Time.tsecs t - off) mod 86400) (Time.tfrac t), (Time.tsecs t - off) / 86400).
Proof. exact overflowing_sub_offset_spec. Qed.
Print Assumptions C04_time_sub_offset.
Theorem C04_time_wallclock : forall a, time_ok (nd_time (dz_utc a)) -> off_ok (dz_off a) ->
  dz_time a = Val (Time.mk_time ((Time.tsecs (nd_time (dz_utc a)) + dz_off a) mod 86400)
                                (Time.tfrac (nd_time (dz_utc a)))).
Proof. exact dz_time_spec. Qed.
Print Assumptions C04_time_wallclock.

(* ---- building from UTC and reading UTC back is the identity (and never fails); its wall clock is UTC + offset *)
Theorem C04_utc_roundtrip : forall off u,
  naive_utc (from_utc_datetime off u) = u /\ dz_off (from_utc_datetime off u) = off.
Proof. exact utc_roundtrip. Qed.
Print Assumptions C04_utc_roundtrip.
Theorem C04_from_utc_wall : forall off u, ndt_ok u -> off_ok off ->
  dtz_ok (from_utc_datetime off u) /\ wall (from_utc_datetime off u) = usecs u + off.
Proof. exact from_utc_then_local. Qed.
Print Assumptions C04_from_utc_wall.

(* ---- building from a wall clock: Single with instant = wall clock - offset exactly when that instant is
        in the supported range, None otherwise (never Ambiguous, never a panic) *)
Theorem C04_from_local_fails_iff : forall off l, ndt_ok l -> off_ok off ->
  if in_rng (usecs l - off)
  then exists z, from_local_datetime off l = Val (MSingle z) /\ dtz_ok z /\ dz_off z = off /\
                 usecs (dz_utc z) = usecs l - off /\ frac (dz_utc z) = frac l
  else from_local_datetime off l = Val MNone.
Proof. exact from_local_fails_iff. Qed.
Print Assumptions C04_from_local_fails_iff.
(* ... and reading the wall clock back is the identity *)
Theorem C04_local_roundtrip : forall off l z, ndt_ok l -> off_ok off ->
  from_local_datetime off l = Val (MSingle z) -> naive_local z = Val l /\ overflowing_naive_local z = Val l.
Proof. exact local_roundtrip_u. Qed.
Print Assumptions C04_local_roundtrip.
(* UTC -> wall clock -> UTC, also when the wall clock is a headroom reading *)
Theorem C04_utc_local_utc : forall a l, dtz_ok a -> overflowing_naive_local a = Val l ->
  from_local_datetime (dz_off a) l = Val (MSingle a).
Proof. exact utc_local_utc_u. Qed.
Print Assumptions C04_utc_local_utc.

(* ---- reading the wall clock: naive_local panics exactly when the wall clock leaves the nominal range ... *)
Theorem C04_naive_local_panics_iff : forall a, dtz_ok a ->
  if in_rng (wall a)
  then exists l, naive_local a = Val l /\ ndt_ok l /\ usecs l = wall a /\ frac l = frac (dz_utc a)
  else naive_local a = Panic.
Proof. exact naive_local_panics_iff. Qed.
Print Assumptions C04_naive_local_panics_iff.
(* ... while overflowing_naive_local always returns the right reading (nominal date or one of the two headroom dates) *)
Theorem C04_overflowing_naive_local : forall a, dtz_ok a ->
  exists l, overflowing_naive_local a = Val l /\ ndt_wide l /\ usecs l = wall a /\ frac l = frac (dz_utc a).
Proof. exact overflowing_naive_local_u. Qed.
Print Assumptions C04_overflowing_naive_local.
(* the headroom dates: their literal year flags are those of the years MIN_YEAR-1 / MAX_YEAR+1, they are
   31 Dec / 1 Jan of those years, one day outside the range, and all accessors read them correctly (computed) *)
Theorem C04_headroom_flags :
  Date.yf_from_year (MIN_YEAR - 1) = Val (Date.d_year_flags Date.D_BEFORE_MIN) /\
  Date.yf_from_year (MAX_YEAR + 1) = Val (Date.d_year_flags Date.D_AFTER_MAX) /\
  Date.d_year Date.D_BEFORE_MIN = MIN_YEAR - 1 /\ Date.d_ordinal Date.D_BEFORE_MIN = days_in_year (MIN_YEAR - 1) /\
  Date.d_year Date.D_AFTER_MAX = MAX_YEAR + 1 /\ Date.d_ordinal Date.D_AFTER_MAX = 1.
Proof. exact headroom_flags. Qed.
Print Assumptions C04_headroom_flags.
Theorem C04_headroom_dates :
  dn Date.D_BEFORE_MIN = DN_MIN - 1 /\ dn Date.D_AFTER_MAX = DN_MAX + 1 /\
  fields_ok Date.D_BEFORE_MIN /\ fields_ok Date.D_AFTER_MAX /\ iso_ok Date.D_BEFORE_MIN /\ iso_ok Date.D_AFTER_MAX.
Proof. exact (conj dn_BEFORE_MIN (conj dn_AFTER_MAX (conj fields_BEFORE_MIN (conj fields_AFTER_MAX (conj iso_BEFORE_MIN iso_AFTER_MAX))))). Qed.
Print Assumptions C04_headroom_dates.

(* ---- equality, ordering and the hash key depend on the UTC reading only, agree with each other, and are the
        equality / order of the instants (second count, then fraction); offsets are ignored *)
Theorem C04_eq_ord_hash_utc_only : forall a b a' b', dz_utc a = dz_utc a' -> dz_utc b = dz_utc b' ->
  dz_eqb a b = dz_eqb a' b' /\ dz_cmp a b = dz_cmp a' b' /\ dz_hash_key a = dz_hash_key a'.
Proof. exact eq_ord_hash_utc_only. Qed.
Print Assumptions C04_eq_ord_hash_utc_only.
Theorem C04_eq_ord_hash_agree : forall a b,
  (dz_eqb a b = true <-> dz_cmp a b = 0) /\
  (dz_eqb a b = keys_eqb (dz_hash_key a) (dz_hash_key b)).
Proof. exact eq_ord_hash_agree. Qed.
Print Assumptions C04_eq_ord_hash_agree.
Theorem C04_eq_ord_instant : forall a b, dtz_ok a -> dtz_ok b ->
  dz_cmp a b = cmp_lex [usecs (dz_utc a); frac (dz_utc a)] [usecs (dz_utc b); frac (dz_utc b)] /\
  (dz_eqb a b = true <-> usecs (dz_utc a) = usecs (dz_utc b) /\ frac (dz_utc a) = frac (dz_utc b)).
Proof. exact eq_ord_instant. Qed.
Print Assumptions C04_eq_ord_instant.

(* ---- converting to another zone keeps the instant: equal, compares equal, same hash key *)
Theorem C04_with_timezone_instant : forall a off,
  dz_eqb (with_timezone a off) a = true /\ dz_cmp (with_timezone a off) a = 0 /\
  dz_hash_key (with_timezone a off) = dz_hash_key a.
Proof. exact with_timezone_same_instant. Qed.
Print Assumptions C04_with_timezone_instant.
Theorem C04_fixed_offset_id : forall a, dz_fixed_offset a = a.
Proof. exact fixed_offset_id. Qed.
Print Assumptions C04_fixed_offset_id.
Theorem C04_to_utc : forall a, dz_utc (dz_to_utc a) = dz_utc a /\ dz_off (dz_to_utc a) = 0.
Proof. exact to_utc_spec. Qed.
Print Assumptions C04_to_utc.

(* ---- every accessor returns the field of the wall clock W = UTC + offset, also in the one-day headroom *)
Theorem C04_accessors_wallclock : forall a, dtz_ok a ->
  let w := wall a in let n := w / 86400 in let sod := w mod 86400 in
  let '(y, m, d) := ymd_of_dn n in
  dz_year a = Val y /\ dz_month a = Val m /\ dz_month0 a = Val (m - 1) /\
  dz_day a = Val d /\ dz_day0 a = Val (d - 1) /\
  dz_ordinal a = Val (ordinal_of_dn n) /\ dz_ordinal0 a = Val (ordinal_of_dn n - 1) /\
  dz_weekday a = Val (weekday_of_dn n) /\
  dz_hour a = Val (sod / 3600) /\ dz_minute a = Val (sod / 60 mod 60) /\ dz_second a = Val (sod mod 60) /\
  dz_nanosecond a = Val (frac (dz_utc a)).
Proof. exact accessors_wallclock_u. Qed.
Print Assumptions C04_accessors_wallclock.
(* ISO week: the accessor returns the ISO year and week of the wall-clock day, also in the one-day headroom
   (nominal dates: Proofs/DateIso.v d_iso_week_spec; the two headroom dates: computed) *)
Theorem C04_iso_week_nominal : forall d, nominal d -> iso_ok d.
Proof. exact iso_ok_nominal. Qed.
Print Assumptions C04_iso_week_nominal.
Theorem C04_iso_week_wallclock : forall a, dtz_ok a ->
  exists w, dz_iso_week a = Val w /\ (Date.iw_year w, Date.iw_week w) = iso_of_dn (wall a / 86400).
Proof. exact iso_week_wallclock_full. Qed.
Print Assumptions C04_iso_week_wallclock.
(* the older form, with the lemma for nominal dates as a premise *)
Theorem C04_iso_week_wallclock_modulo_isoweek : forall a, (forall d, nominal d -> iso_ok d) -> dtz_ok a ->
  exists w, dz_iso_week a = Val w /\ (Date.iw_year w, Date.iw_week w) = iso_of_dn (wall a / 86400).
Proof. exact iso_week_wallclock_u. Qed.
Print Assumptions C04_iso_week_wallclock_modulo_isoweek.

(* ---- field replacement: the common layer (map_local): the new wall clock l' produced by the NaiveDateTime
        setter is re-resolved in the zone; None iff the setter fails or the instant l' - offset is refused *)
Theorem C04_map_local : forall a f l l', dtz_ok a -> overflowing_naive_local a = Val l ->
  f l = Val (Some l') -> ndt_wide l' ->
  if keep (usecs l' - dz_off a) (frac l')
  then exists z, map_local a f = Val (Some z) /\ dtz_ok z /\ dz_off z = dz_off a /\
                 usecs (dz_utc z) = usecs l' - dz_off a /\ frac (dz_utc z) = frac l'
  else map_local a f = Val None.
Proof. exact map_local_some_u. Qed.
Print Assumptions C04_map_local.
Theorem C04_map_local_none : forall a f l, overflowing_naive_local a = Val l -> f l = Val None ->
  map_local a f = Val None.
Proof. exact map_local_none. Qed.
Print Assumptions C04_map_local_none.

(* with_time (as repaired by 6a10a33): the wall-clock date is kept (also a headroom date), the time replaced *)
Theorem C04_with_time : forall a t, dtz_ok a -> time_ok t ->
  let w' := wall a / 86400 * 86400 + Time.tsecs t in
  if keep (w' - dz_off a) (Time.tfrac t)
  then exists z, dz_with_time a t = Val (MSingle z) /\ dtz_ok z /\ dz_off z = dz_off a /\
                 wall z = w' /\ frac (dz_utc z) = Time.tfrac t
  else dz_with_time a t = Val MNone.
Proof. exact with_time_u. Qed.
Print Assumptions C04_with_time.
(* the unrepaired with_time built values outside the range at both ends; the repaired one refuses them *)
Theorem C04_with_time_unfiltered_refuted :
  (exists z, with_time_unfiltered z_max_p2h noon = Val (MSingle z) /\ in_utc_range z = false /\ dz_cmp z (mk_dtz NDT_MAX 0) = 1) /\
  (exists z, with_time_unfiltered z_min_m2h noon = Val (MSingle z) /\ in_utc_range z = false /\ dz_cmp z (mk_dtz NDT_MIN 0) = -1).
Proof. exact with_time_unfiltered_escapes. Qed.
Print Assumptions C04_with_time_unfiltered_refuted.
Example C04_with_time_repaired_examples :
  dz_with_time z_max_p2h noon = Val MNone /\ dz_with_time z_min_m2h noon = Val MNone /\
  naive_local z_max_p2h = Panic /\ naive_local z_min_m2h = Panic.
Proof. exact with_time_repaired_refuses. Qed.
Print Assumptions C04_with_time_repaired_examples.
Example C04_hypotheses_inhabited :
  (dtz_ok z_max_p2h /\ in_rng (wall z_max_p2h) = false) /\ (dtz_ok z_min_m2h /\ in_rng (wall z_min_m2h) = false).
Proof. exact (conj z_max_ok z_min_ok). Qed.
Print Assumptions C04_hypotheses_inhabited.

(* hour (7) / minute (8) / second (9) / nanosecond (10): exactly that field of the wall clock is replaced
   (wall clock possibly in the headroom); None iff the field value is out of its range or the instant is refused *)
Theorem C04_replace_time_field : forall field a x, dtz_ok a -> 7 <= field <= 10 -> in_u32 x = true ->
  match new_time field (wall a mod 86400) (frac (dz_utc a)) x with
  | None => dz_with field a x = Val None
  | Some (s', f') =>
      let w' := wall a / 86400 * 86400 + s' in
      if keep (w' - dz_off a) f'
      then exists z, dz_with field a x = Val (Some z) /\ dtz_ok z /\ dz_off z = dz_off a /\
                     wall z = w' /\ frac (dz_utc z) = f'
      else dz_with field a x = Val None
  end.
Proof. exact with_timefield_u. Qed.
Print Assumptions C04_replace_time_field.

(* year (0) / month (1) / month0 (2) / day (3) / day0 (4) / ordinal (5) / ordinal0 (6): exactly that field of
   the wall-clock date is replaced, time of day kept; None iff no such date exists in the supported years or
   the instant is refused.  This older form is stated for a nominal wall clock ([in_rng (wall a)]); the form
   over every well-formed date-time is C04_replace_date_field below. *)
Theorem C04_replace_date_field_partial : forall field a x, dtz_ok a -> in_rng (wall a) = true -> 0 <= field <= 6 ->
  (if field =? 0 then in_i32 x else in_u32 x) = true ->
  match new_dn field (wall a / 86400) x with
  | None => dz_with field a x = Val None
  | Some n' =>
      let w' := n' * 86400 + wall a mod 86400 in
      if keep (w' - dz_off a) (frac (dz_utc a))
      then exists z, dz_with field a x = Val (Some z) /\ dtz_ok z /\ dz_off z = dz_off a /\
                     wall z = w' /\ frac (dz_utc z) = frac (dz_utc a)
      else dz_with field a x = Val None
  end.
Proof. exact with_datefield_spec. Qed.
Print Assumptions C04_replace_date_field_partial.
(* ... and for EVERY well-formed date-time, wall clock nominal or in the one-day headroom (Proofs/C04Wide.v:
   the NaiveDate setters on the two headroom words are evaluated by the kernel, exhaustively up to 400 and
   symbolically above).  [new_dn_id] is [new_dn] plus the one case where the setter is the identity although the
   calendar has no such supported date: with_year with the unchanged year of a headroom date.  On a headroom
   wall clock every other outcome is None (another day of the headroom year is never a supported instant). *)
Theorem C04_replace_date_field : forall field a x, dtz_ok a -> 0 <= field <= 6 ->
  (if field =? 0 then in_i32 x else in_u32 x) = true ->
  match new_dn_id field (wall a / 86400) x with
  | None => dz_with field a x = Val None
  | Some n' =>
      let w' := n' * 86400 + wall a mod 86400 in
      if keep (w' - dz_off a) (frac (dz_utc a))
      then exists z, dz_with field a x = Val (Some z) /\ dtz_ok z /\ dz_off z = dz_off a /\
                     wall z = w' /\ frac (dz_utc z) = frac (dz_utc a)
      else dz_with field a x = Val None
  end.
Proof. exact with_datefield_all. Qed.
Print Assumptions C04_replace_date_field.
Theorem C04_new_dn_id_nominal : forall field a x, dtz_ok a -> in_rng (wall a) = true ->
  new_dn_id field (wall a / 86400) x = new_dn field (wall a / 86400) x.
Proof. exact new_dn_id_nominal. Qed.
Print Assumptions C04_new_dn_id_nominal.
(* the NaiveDate layer on the two headroom dates ([hb] = true: BEFORE_MIN, false: AFTER_MAX): a setter gives no
   date, the date itself, or another day of the headroom year ([outb]) with the day number of the calendar *)
Theorem C04_setter_on_headroom_date : forall hb field x, 1 <= field <= 6 -> in_u32 x = true ->
  exists r, date_setter field (HW hb) x = Val r /\
  match new_dn field (HN hb) x with
  | None => r = None
  | Some n' => exists d', r = Some d' /\ dn d' = n' /\ (d' = HW hb \/ outb hb d' = true)
  end.
Proof. exact setter_headroom. Qed.
Print Assumptions C04_setter_on_headroom_date.
(* ... and re-resolving a wall clock on such a day never yields a value that passes a range filter *)
Theorem C04_other_headroom_day_is_refused : forall hb off d t, outb hb d = true -> time_ok t -> off_ok off ->
  exists r, from_local_datetime off (mk_ndt d t) = Val r /\ escaped off r hb /\
            (if hb then usecs (mk_ndt d t) - off < TMIN else TMAX < usecs (mk_ndt d t) - off).
Proof. exact from_local_out. Qed.
Print Assumptions C04_other_headroom_day_is_refused.
Theorem C04_replace_date_field_glue : forall field a x l, dtz_ok a -> 1 <= field <= 6 ->
  overflowing_naive_local a = Val l ->
  match ndt_with field l x with
  | Val None => dz_with field a x = Val None
  | Val (Some l') =>
      ndt_wide l' ->
      if keep (usecs l' - dz_off a) (frac l')
      then exists z, dz_with field a x = Val (Some z) /\ dtz_ok z /\ dz_off z = dz_off a /\
                     wall z = usecs l' /\ frac (dz_utc z) = frac l'
      else dz_with field a x = Val None
  | _ => True
  end.
Proof. exact with_datefield_glue_u. Qed.
Print Assumptions C04_replace_date_field_glue.
Theorem C04_with_year_same : forall a l, dtz_ok a -> overflowing_naive_local a = Val l ->
  negb (leap_at_max (usecs (dz_utc a)) (frac (dz_utc a))) = true ->
  dz_with 0 a (Date.d_year (nd_date l)) = Val (Some a).
Proof. exact with_year_same_u. Qed.
Print Assumptions C04_with_year_same.

(* ---- day stepping: the wall-clock date moves by n days, time of day kept.  PARTIAL in the same sense
        (nominal wall clock); the layer theorems hold for any wall clock *)
Theorem C04_add_days_partial : forall a n, dtz_ok a -> in_rng (wall a) = true -> in_u64 n = true -> n <> 0 ->
  let n' := wall a / 86400 + n in
  let w' := n' * 86400 + wall a mod 86400 in
  if dn_in_range n' && keep (w' - dz_off a) (frac (dz_utc a))
  then exists z, dz_checked_add_days a n = Val (Some z) /\ dtz_ok z /\ dz_off z = dz_off a /\
                 wall z = w' /\ frac (dz_utc z) = frac (dz_utc a)
  else dz_checked_add_days a n = Val None.
Proof. exact add_days_spec. Qed.
Print Assumptions C04_add_days_partial.
Theorem C04_add_days_zero : forall a, dz_checked_add_days a 0 = Val (Some a).
Proof. exact add_days_zero. Qed.
Print Assumptions C04_add_days_zero.
Theorem C04_sub_days_partial : forall a n, dtz_ok a -> in_rng (wall a) = true -> in_u64 n = true ->
  let n' := wall a / 86400 - n in
  let w' := n' * 86400 + wall a mod 86400 in
  if dn_in_range n' && in_rng (w' - dz_off a)
  then exists z, dz_checked_sub_days a n = Val (Some z) /\ dtz_ok z /\ dz_off z = dz_off a /\
                 wall z = w' /\ frac (dz_utc z) = frac (dz_utc a)
  else dz_checked_sub_days a n = Val None.
Proof. exact sub_days_spec. Qed.
Print Assumptions C04_sub_days_partial.
(* ... and for EVERY well-formed date-time (Proofs/DateWide.v: NaiveDate::add_days for the two headroom words,
   same proof steps as the shared add_days_spec).  Subtracting zero days is the identity also on a headroom wall
   clock (checked_sub_days has no zero guard: the value itself is re-resolved), hence the [n =? 0] disjunct. *)
Theorem C04_add_days : forall a n, dtz_ok a -> in_u64 n = true -> n <> 0 ->
  let n' := wall a / 86400 + n in
  let w' := n' * 86400 + wall a mod 86400 in
  if dn_in_range n' && keep (w' - dz_off a) (frac (dz_utc a))
  then exists z, dz_checked_add_days a n = Val (Some z) /\ dtz_ok z /\ dz_off z = dz_off a /\
                 wall z = w' /\ frac (dz_utc z) = frac (dz_utc a)
  else dz_checked_add_days a n = Val None.
Proof. exact add_days_all. Qed.
Print Assumptions C04_add_days.
Theorem C04_sub_days : forall a n, dtz_ok a -> in_u64 n = true ->
  let n' := wall a / 86400 - n in
  let w' := n' * 86400 + wall a mod 86400 in
  if ((n =? 0) || dn_in_range n') && in_rng (w' - dz_off a)
  then exists z, dz_checked_sub_days a n = Val (Some z) /\ dtz_ok z /\ dz_off z = dz_off a /\
                 wall z = w' /\ frac (dz_utc z) = frac (dz_utc a)
  else dz_checked_sub_days a n = Val None.
Proof. exact sub_days_all. Qed.
Print Assumptions C04_sub_days.
Theorem C04_add_days_glue : forall a n l d', dtz_ok a -> n <> 0 -> overflowing_naive_local a = Val l ->
  Date.checked_add_days (nd_date l) n = Val (Some d') -> dateok d' -> dn (nd_date l) <= dn d' ->
  let w' := dn d' * 86400 + wall a mod 86400 in
  if keep (w' - dz_off a) (frac (dz_utc a))
  then exists z, dz_checked_add_days a n = Val (Some z) /\ dtz_ok z /\ dz_off z = dz_off a /\
                 wall z = w' /\ frac (dz_utc z) = frac (dz_utc a)
  else dz_checked_add_days a n = Val None.
Proof. exact add_days_glue_u. Qed.
Print Assumptions C04_add_days_glue.
Theorem C04_sub_days_glue : forall a n l d', dtz_ok a -> overflowing_naive_local a = Val l ->
  Date.checked_sub_days (nd_date l) n = Val (Some d') -> dateok d' -> dn d' <= dn (nd_date l) ->
  let w' := dn d' * 86400 + wall a mod 86400 in
  if in_rng (w' - dz_off a)
  then exists z, dz_checked_sub_days a n = Val (Some z) /\ dtz_ok z /\ dz_off z = dz_off a /\
                 wall z = w' /\ frac (dz_utc z) = frac (dz_utc a)
  else dz_checked_sub_days a n = Val None.
Proof. exact sub_days_glue_u. Qed.
Print Assumptions C04_sub_days_glue.

(* ---- month stepping ([add] = true: checked_add_months, false: checked_sub_months): calendar month arithmetic
        on the wall-clock date with the day clamped, time of day kept.  PARTIAL in the same sense.  Month
        stepping has no range filter of its own; the layer theorem shows why it cannot build an out-of-range
        value (the sibling question of the with_time finding): the NaiveDate step returns a nominal date or,
        for zero months, the unchanged date, for which re-resolution gives the value itself back *)
Theorem C04_months_partial : forall (add : bool) a m, dtz_ok a -> in_rng (wall a) = true -> in_u32 m = true ->
  let step := if add then dz_checked_add_months a m else dz_checked_sub_months a m in
  match month_target (wall a / 86400) (if add then m else - m) with
  | None => step = Val None
  | Some n' =>
      let w' := n' * 86400 + wall a mod 86400 in
      if in_rng (w' - dz_off a)
      then exists z, step = Val (Some z) /\ dtz_ok z /\ dz_off z = dz_off a /\
                     wall z = w' /\ frac (dz_utc z) = frac (dz_utc a)
      else step = Val None
  end.
Proof. exact months_spec. Qed.
Print Assumptions C04_months_partial.
(* ... and for EVERY well-formed date-time; [month_target_id]: zero months is the identity (the value itself,
   whatever its wall clock), otherwise [month_target] *)
Theorem C04_months : forall (add : bool) a m, dtz_ok a -> in_u32 m = true ->
  let step := if add then dz_checked_add_months a m else dz_checked_sub_months a m in
  match month_target_id (wall a / 86400) m (if add then m else - m) with
  | None => step = Val None
  | Some n' =>
      let w' := n' * 86400 + wall a mod 86400 in
      if in_rng (w' - dz_off a)
      then exists z, step = Val (Some z) /\ dtz_ok z /\ dz_off z = dz_off a /\
                     wall z = w' /\ frac (dz_utc z) = frac (dz_utc a)
      else step = Val None
  end.
Proof. exact months_all. Qed.
Print Assumptions C04_months.
Example C04_headroom_examples :
  in_rng (wall z_max_p2h) = false /\ in_rng (wall z_min_m2h) = false /\
  dz_with 1 z_max_p2h 1 = Val (Some z_max_p2h) /\ dz_with 1 z_max_p2h 2 = Val None /\
  dz_with 0 z_max_p2h 262143 = Val (Some z_max_p2h) /\
  dz_with 3 z_min_m2h 31 = Val (Some z_min_m2h) /\ dz_with 3 z_min_m2h 30 = Val None /\
  dz_checked_sub_days z_max_p2h 0 = Val (Some z_max_p2h) /\ dz_checked_add_days z_max_p2h 1 = Val None /\
  (exists z, dz_checked_sub_days z_max_p2h 1 = Val (Some z) /\ wall z = wall z_max_p2h - 86400) /\
  (exists z, dz_checked_add_days z_min_m2h 1 = Val (Some z) /\ wall z = wall z_min_m2h + 86400) /\
  (exists z, dz_checked_sub_months z_max_p2h 1 = Val (Some z) /\ wall z = wall z_max_p2h - 31 * 86400) /\
  dz_checked_add_months z_max_p2h 1 = Val None.
Proof. exact headroom_examples. Qed.
Print Assumptions C04_headroom_examples.
Theorem C04_add_months_glue : forall a m l d', dtz_ok a -> overflowing_naive_local a = Val l ->
  Date.checked_add_months (nd_date l) m = Val (Some d') -> nominal d' \/ d' = nd_date l ->
  let w' := dn d' * 86400 + wall a mod 86400 in
  if in_rng (w' - dz_off a)
  then exists z, dz_checked_add_months a m = Val (Some z) /\ dtz_ok z /\ dz_off z = dz_off a /\
                 wall z = w' /\ frac (dz_utc z) = frac (dz_utc a)
  else dz_checked_add_months a m = Val None.
Proof. exact add_months_glue_u. Qed.
Print Assumptions C04_add_months_glue.
Theorem C04_sub_months_glue : forall a m l d', dtz_ok a -> overflowing_naive_local a = Val l ->
  Date.checked_sub_months (nd_date l) m = Val (Some d') -> nominal d' \/ d' = nd_date l ->
  let w' := dn d' * 86400 + wall a mod 86400 in
  if in_rng (w' - dz_off a)
  then exists z, dz_checked_sub_months a m = Val (Some z) /\ dtz_ok z /\ dz_off z = dz_off a /\
                 wall z = w' /\ frac (dz_utc z) = frac (dz_utc a)
  else dz_checked_sub_months a m = Val None.
Proof. exact sub_months_glue_u. Qed.
Print Assumptions C04_sub_months_glue.
Theorem C04_months_zero : forall a, dtz_ok a ->
  dz_checked_add_months a 0 = Val (Some a) /\ dz_checked_sub_months a 0 = Val (Some a).
Proof. exact months_zero_u. Qed.
Print Assumptions C04_months_zero.

(* ---- with_ymd_and_hms: the date / time constructors' results (C01 / C07) re-resolved as a wall clock *)
Theorem C04_with_ymd_and_hms : forall off y m d h mi s dd t, off_ok off ->
  Date.from_ymd_opt y m d = Val (Some dd) -> nominal dd -> Time.from_hms_opt h mi s = Val (Some t) -> time_ok t ->
  let w := dn dd * 86400 + Time.tsecs t in
  if in_rng (w - off)
  then exists z, with_ymd_and_hms off y m d h mi s = Val (MSingle z) /\ dtz_ok z /\ dz_off z = off /\
                 wall z = w /\ frac (dz_utc z) = Time.tfrac t
  else with_ymd_and_hms off y m d h mi s = Val MNone.
Proof. exact ymdhms_glue_u. Qed.
Print Assumptions C04_with_ymd_and_hms.
Theorem C04_with_ymd_and_hms_invalid : forall off y m d h mi s,
  (Date.from_ymd_opt y m d = Val None \/
   exists dd, Date.from_ymd_opt y m d = Val (Some dd) /\ Time.from_hms_opt h mi s = Val None) ->
  with_ymd_and_hms off y m d h mi s = Val MNone.
Proof. exact ymdhms_invalid. Qed.
Print Assumptions C04_with_ymd_and_hms_invalid.

(* ================================================================================================
   The ops added by the API-coverage sweep (Proofs/C04Ops.v); coverage/OPS_THEOREMS_C04.md maps every
   op of the dispatcher to the theorems of this file. *)

(* ---- z.uml: FixedOffset::utc_minus_local is the negated offset and never traps, for every offset a
        FixedOffset can hold (the values east_opt accepts) *)
Theorem C04_utc_minus_local : forall off, off_ok off -> fo_utc_minus_local off = Val (- off).
Proof. exact uml_spec. Qed.
Print Assumptions C04_utc_minus_local.
Theorem C04_utc_minus_local_of_east : forall s off, east_opt s = Some off -> fo_utc_minus_local off = Val (- s).
Proof. exact uml_of_east. Qed.
Print Assumptions C04_utc_minus_local_of_east.

(* ---- z.peast / z.pwest: the deprecated FixedOffset::east / west are the checked forms' values, Panic
        exactly when those are None, i.e. exactly outside (-86400, 86400) *)
Theorem C04_east_panicking : forall s,
  unwrap (east_opt s) = if (-86400 <? s) && (s <? 86400) then Val s else Panic.
Proof. exact peast_spec. Qed.
Print Assumptions C04_east_panicking.
Theorem C04_east_panicking_checked : forall s,
  match east_opt s with
  | Some off => unwrap (east_opt s) = Val off /\ off = s /\ off_ok s
  | None => unwrap (east_opt s) = Panic /\ ~ off_ok s
  end.
Proof. exact peast_checked. Qed.
Print Assumptions C04_east_panicking_checked.
Theorem C04_west_panicking : forall s, in_i32 s = true ->
  unwrap_r (west_opt s) = if (-86400 <? s) && (s <? 86400) then Val (- s) else Panic.
Proof. exact pwest_spec. Qed.
Print Assumptions C04_west_panicking.
Theorem C04_west_panicking_checked : forall s, in_i32 s = true ->
  exists o, west_opt s = Val o /\
  match o with
  | Some off => unwrap_r (west_opt s) = Val off /\ off = - s /\ off_ok s /\ east_opt (- s) = Some off
  | None => unwrap_r (west_opt s) = Panic /\ ~ off_ok s
  end.
Proof. exact pwest_checked. Qed.
Print Assumptions C04_west_panicking_checked.

(* ---- z.mk: DateTime::from_naive_utc_and_offset / deprecated from_utc build exactly the pair (UTC reading,
        offset) = TimeZone::from_utc_datetime; timezone() / offset() read the offset back *)
Theorem C04_from_naive_utc_and_offset : forall u off,
  dz_utc (mk_dtz u off) = u /\ dz_off (mk_dtz u off) = off /\ naive_utc (mk_dtz u off) = u /\
  mk_dtz u off = from_utc_datetime off u /\
  (ndt_ok u -> off_ok off -> dtz_ok (mk_dtz u off) /\ wall (mk_dtz u off) = usecs u + off).
Proof. exact mk_spec. Qed.
Print Assumptions C04_from_naive_utc_and_offset.

(* ---- z.pfromlocal: deprecated DateTime::from_local ([dz_from_local] = the dispatcher's expression
        [datetime - offset.fix()] with the panicking operator): the Single of from_local_datetime, Panic where
        that is None ... *)
Theorem C04_from_local_panicking_checked : forall off l,
  match from_local_datetime off l with
  | Val (MSingle z) => dz_from_local l off = Val z
  | Val MNone => dz_from_local l off = Panic
  | Val (MAmbiguous _ _) => False
  | Panic => dz_from_local l off = Panic
  | OutOfFuel => dz_from_local l off = OutOfFuel
  end.
Proof. exact pfromlocal_checked. Qed.
Print Assumptions C04_from_local_panicking_checked.
(* ... i.e. the date-time whose instant is the reading minus the offset, Panic exactly when that instant is
   outside the supported range.  The condition is [in_rng], not [keep]: like from_local_datetime, this
   constructor has no MIN_UTC..=MAX_UTC filter, so a leap fraction in the very last second of the range is
   built (model, judge and the real code agree: z.pfromlocal 0 (262142,365,86399,1999999999)). *)
Theorem C04_from_local_panicking : forall off l, ndt_ok l -> off_ok off ->
  if in_rng (usecs l - off)
  then exists z, dz_from_local l off = Val z /\ from_local_datetime off l = Val (MSingle z) /\
                 dtz_ok z /\ dz_off z = off /\ usecs (dz_utc z) = usecs l - off /\ frac (dz_utc z) = frac l /\
                 wall z = usecs l /\ naive_local z = Val l
  else dz_from_local l off = Panic /\ from_local_datetime off l = Val MNone.
Proof. exact pfromlocal_spec. Qed.
Print Assumptions C04_from_local_panicking.

(* ---- z.pcmp: PartialOrd<DateTime<Tz2>> / PartialEq<DateTime<Tz2>>: partial_cmp is always Some of the order
        of the instants (second count, then fraction), whatever the two offsets / zone types (also against the
        Utc view of the right operand); <, <=, >, >=, ==, != read it *)
Theorem C04_partial_cmp_instant : forall a b, dtz_ok a -> dtz_ok b ->
  let c := cmp_lex [usecs (dz_utc a); frac (dz_utc a)] [usecs (dz_utc b); frac (dz_utc b)] in
  let p := dz_partial_cmp a b in
  p = Some c /\ dz_partial_cmp a (dz_to_utc b) = Some c /\ p = Some (dz_cmp a b) /\
  (c = -1 \/ c = 0 \/ c = 1) /\
  pc_lt p = (c =? -1) /\ pc_le p = (c <=? 0) /\ pc_gt p = (c =? 1) /\ pc_ge p = (0 <=? c) /\
  dz_eqb a b = (c =? 0) /\ dz_eqb a (dz_to_utc b) = (c =? 0) /\ negb (dz_eqb a b) = negb (c =? 0) /\
  (c = 0 <-> usecs (dz_utc a) = usecs (dz_utc b) /\ frac (dz_utc a) = frac (dz_utc b)).
Proof. exact pcmp_spec. Qed.
Print Assumptions C04_partial_cmp_instant.

(* ---- z.conv: From<DateTime<FixedOffset>> for DateTime<Utc> and From<DateTime<Utc>> for DateTime<FixedOffset>:
        same UTC reading, offset 0, never a panic; equal / same order / same hash key as the source *)
Theorem C04_conversions : forall a,
  dz_into_utc a = mk_dtz (dz_utc a) 0 /\ dz_utc_into_fixed a = Val (mk_dtz (dz_utc a) 0) /\
  dz_utc_into_fixed (dz_into_utc a) = Val (mk_dtz (dz_utc a) 0) /\
  dz_eqb (dz_into_utc a) a = true /\ dz_cmp (dz_into_utc a) a = 0 /\
  dz_hash_key (dz_into_utc a) = dz_hash_key a /\
  (dtz_ok a -> dtz_ok (dz_into_utc a) /\ wall (dz_into_utc a) = usecs (dz_utc a)).
Proof. exact conv_spec. Qed.
Print Assumptions C04_conversions.

(* ---- z.opmonths: Add<Months> / Sub<Months> ([add] = true / false): the value of the checked form, Panic
        exactly where it is None ... *)
Theorem C04_op_months_checked : forall (add : bool) a m,
  let op := if add then dz_op_add_months a m else dz_op_sub_months a m in
  match (if add then dz_checked_add_months a m else dz_checked_sub_months a m) with
  | Val (Some z) => op = Val z
  | Val None => op = Panic
  | Panic => op = Panic
  | OutOfFuel => op = OutOfFuel
  end.
Proof. exact opmonths_checked. Qed.
Print Assumptions C04_op_months_checked.
(* ... hence (C04_months), for every well-formed date-time: calendar month arithmetic on the wall-clock date,
   Panic exactly when there is no such supported date or the instant leaves the range *)
Theorem C04_op_months : forall (add : bool) a m, dtz_ok a -> in_u32 m = true ->
  let op := if add then dz_op_add_months a m else dz_op_sub_months a m in
  match month_target_id (wall a / 86400) m (if add then m else - m) with
  | None => op = Panic
  | Some n' =>
      let w' := n' * 86400 + wall a mod 86400 in
      if in_rng (w' - dz_off a)
      then exists z, op = Val z /\ dtz_ok z /\ dz_off z = dz_off a /\
                     wall z = w' /\ frac (dz_utc z) = frac (dz_utc a)
      else op = Panic
  end.
Proof. exact opmonths_spec. Qed.
Print Assumptions C04_op_months.

(* ---- z.prov: the provided methods of Datelike / Timelike on DateTime<Tz> (year_ce, quarter, num_days_from_ce,
        num_days_in_month, hour12, num_seconds_from_midnight, iso_week().week0()) return the field of the wall
        clock W = UTC + offset, also in the one-day headroom, and never panic.  Nominal dates: C08's theorems on
        year_ce / quarter / num_days_in_month and C01's on num_days_from_ce; the two headroom dates: computed. *)
Theorem C04_provided_date_fields : forall d, dateok d -> prov_ok d.
Proof. exact prov_ok_dateok. Qed.
Print Assumptions C04_provided_date_fields.
Theorem C04_provided_wallclock : forall a, dtz_ok a ->
  let w := wall a in let n := w / 86400 in let sod := w mod 86400 in
  let '(y, m, d) := ymd_of_dn n in let h := sod / 3600 in
  dz_prov a = Val (VTup [val_of_bool (1 <=? y); VInt (if 1 <=? y then y else 1 - y); VInt ((m - 1) / 3 + 1);
                         VInt n; VInt (days_in_month (is_leap y) m);
                         val_of_bool (12 <=? h); VInt (if h mod 12 =? 0 then 12 else h mod 12);
                         VInt sod; VInt (snd (iso_of_dn n) - 1)]).
Proof. exact prov_wallclock. Qed.
Print Assumptions C04_provided_wallclock.

(* ---- z.show: Display / Debug of a zone-aware date-time ([utc] = true: DateTime<Utc>) print the documented
        text (Judge/C09.v: date_text, time_text, offset_text) of the WALL-CLOCK reading, for every well-formed
        value: wall clock nominal or in the one-day headroom, any fraction, any offset ([zone_text] = the judge's
        offset_text, followed by ":ss" when the offset has a seconds part).  C09's C09_shape_dt is the case
        "nominal wall clock, whole-minute offset, leap fraction only on second 59" (the domain in which the text
        parses back); this theorem is built from the same writer lemmas of C09 (time_debug_text, time_shape,
        year_shape, pad_dec_low, off_shape; the proof patterns of date_debug_text / fixed_debug_text without the
        representation / whole-minute premises) and C04's reading of the wall clock. *)
Theorem C04_show_wallclock : forall a utc, dtz_ok a ->
  let n := wall a / 86400 in let sod := wall a mod 86400 in let f := frac (dz_utc a) in
  let y := fst (yo_of_dn n) in let o := snd (yo_of_dn n) in
  Show.to_text (Show.dtz_display utc [] a) =
    Val (Judge.C09.date_text y o ++ B" " ++ Judge.C09.time_text sod f ++ B" " ++
         (if utc then B"UTC" else C04Show.zone_text (dz_off a))) /\
  Show.to_text (Show.dtz_debug utc [] a) =
    Val (Judge.C09.date_text y o ++ B"T" ++ Judge.C09.time_text sod f ++
         (if utc then B"Z" else C04Show.zone_text (dz_off a))).
Proof. exact C04Show.show_wallclock. Qed.
Print Assumptions C04_show_wallclock.
Theorem C04_show_zone_whole_minute : forall off, off mod 60 = 0 -> C04Show.zone_text off = Judge.C09.offset_text off.
Proof. exact C04Show.zone_text_whole_minute. Qed.
Print Assumptions C04_show_zone_whole_minute.

(* ---- z.datenaive: date_naive is the date of the panicking wall-clock reading: the supported date with the
        wall clock's day number, Panic exactly when the wall clock is in the headroom *)
Theorem C04_date_naive : forall a, dtz_ok a ->
  if in_rng (wall a)
  then exists d, dz_date_naive a = Val d /\ nominal d /\ dn d = wall a / 86400
  else dz_date_naive a = Panic.
Proof. exact date_naive_spec. Qed.
Print Assumptions C04_date_naive.
(* ---- z.withtz: the fields of with_timezone (its instant: C04_with_timezone_instant) *)
Theorem C04_with_timezone_fields : forall a off,
  dz_utc (with_timezone a off) = dz_utc a /\ dz_off (with_timezone a off) = off.
Proof. exact with_timezone_utc. Qed.
Print Assumptions C04_with_timezone_fields.
(* ---- z.acc: the tuple of the dispatcher = the 14 fields of the wall clock (C04_accessors_wallclock and
        C04_iso_week_wallclock assembled), headroom included *)
Theorem C04_acc_tuple : forall a, dtz_ok a ->
  let w := wall a in let n := w / 86400 in let sod := w mod 86400 in
  let '(y, m, d) := ymd_of_dn n in
  dz_acc a = Val (VTup [VInt y; VInt m; VInt (m - 1); VInt d; VInt (d - 1);
                        VInt (ordinal_of_dn n); VInt (ordinal_of_dn n - 1); VInt (weekday_of_dn n);
                        VInt (sod / 3600); VInt (sod / 60 mod 60); VInt (sod mod 60); VInt (frac (dz_utc a));
                        VInt (fst (iso_of_dn n)); VInt (snd (iso_of_dn n))]).
Proof. exact acc_tuple. Qed.
Print Assumptions C04_acc_tuple.

(* ================================================================================================
   The executable property (Judge/C04.v, the oracle applied to the implementation's outputs) accepts the
   model's output on every case of its domain, for the ops below (Proofs/C04Holds.v).  Date-times / naive
   readings are given in their canonical encoding ([enc_dtz] / [enc_ndt]); [dtz_ok] / [ndt_ok] / [off_ok] are
   exactly the judge's domain (C04Holds.j_z / j_naive / j_off: the judge decodes such an argument to the
   instant, fraction and offset the theorems above speak about). *)
Theorem C04_holds_uml : forall s, Judge.C04.off_ok s = true ->
  Judge.C04.judge B"z.uml" [VInt s] (run B"z.uml" [VInt s]) = JOk.
Proof. exact C04Holds.holds_uml. Qed.
Print Assumptions C04_holds_uml.
Theorem C04_holds_peast : forall s, in_i32 s = true ->
  Judge.C04.judge B"z.peast" [VInt s] (run B"z.peast" [VInt s]) = JOk.
Proof. exact C04Holds.holds_peast. Qed.
Print Assumptions C04_holds_peast.
Theorem C04_holds_pwest : forall s, in_i32 s = true ->
  Judge.C04.judge B"z.pwest" [VInt s] (run B"z.pwest" [VInt s]) = JOk.
Proof. exact C04Holds.holds_pwest. Qed.
Print Assumptions C04_holds_pwest.
Theorem C04_holds_mk : forall off u, ndt_ok u -> off_ok off ->
  Judge.C04.judge B"z.mk" [VInt off; enc_ndt u] (run B"z.mk" [VInt off; enc_ndt u]) = JOk.
Proof. exact C04Holds.holds_mk. Qed.
Print Assumptions C04_holds_mk.
Theorem C04_holds_conv : forall a, dtz_ok a ->
  Judge.C04.judge B"z.conv" [enc_dtz a] (run B"z.conv" [enc_dtz a]) = JOk.
Proof. exact C04Holds.holds_conv. Qed.
Print Assumptions C04_holds_conv.
Theorem C04_holds_pcmp : forall a b, dtz_ok a -> dtz_ok b ->
  Judge.C04.judge B"z.pcmp" [enc_dtz a; enc_dtz b] (run B"z.pcmp" [enc_dtz a; enc_dtz b]) = JOk.
Proof. exact C04Holds.holds_pcmp. Qed.
Print Assumptions C04_holds_pcmp.
Theorem C04_holds_prov : forall a, dtz_ok a ->
  Judge.C04.judge B"z.prov" [enc_dtz a] (run B"z.prov" [enc_dtz a]) = JOk.
Proof. exact C04Holds.holds_prov. Qed.
Print Assumptions C04_holds_prov.
Theorem C04_holds_pfromlocal : forall off l, ndt_ok l -> off_ok off ->
  Judge.C04.judge B"z.pfromlocal" [VInt off; enc_ndt l] (run B"z.pfromlocal" [VInt off; enc_ndt l]) = JOk.
Proof. exact C04Holds.holds_pfromlocal. Qed.
Print Assumptions C04_holds_pfromlocal.
(* z.show on the domain of the judge's documented text (C09.judge_show 3: whole-minute offset, leap fraction only
   on second 59; wall clock nominal or in the headroom), Display (form 0) and Debug (form 1) *)
Theorem C04_holds_show : forall a form, dtz_ok a -> dz_off a mod 60 = 0 ->
  (frac (dz_utc a) < 1000000000 \/ Time.tsecs (nd_time (dz_utc a)) mod 60 = 59) -> form = 0 \/ form = 1 ->
  Judge.C04.judge B"z.show" [enc_dtz a; VInt form] (run B"z.show" [enc_dtz a; VInt form]) = JOk.
Proof. exact C04Holds.holds_show. Qed.
Print Assumptions C04_holds_show.
Example C04_show_inhabited :
  dtz_ok z_max_p2h /\ dz_off z_max_p2h mod 60 = 0 /\ frac (dz_utc z_max_p2h) < 1000000000 /\
  in_rng (wall z_max_p2h) = false /\
  Show.to_text (Show.dtz_display false [] z_max_p2h) = Val (B"+262143-01-01 01:59:59.999999999 +02:00").
Proof. exact C04Holds.show_inhabited. Qed.
Print Assumptions C04_show_inhabited.
(* the premises are satisfiable, also by values whose wall clock is in the headroom *)
Example C04_ops_inhabited :
  off_ok 3600 /\ Judge.C04.off_ok (-86399) = true /\ in_i32 86400 = true /\
  dtz_ok z_max_p2h /\ dtz_ok z_min_m2h /\ ndt_ok NDT_MAX /\ ndt_ok NDT_MIN /\
  in_rng (usecs NDT_MAX - 3600) = true /\ in_rng (usecs NDT_MAX - -1) = false.
Proof. exact C04Holds.ops_inhabited. Qed.
Print Assumptions C04_ops_inhabited.

(* ================================================================================================
   Judge acceptance for the older ops whose expected output is a function of the instant and the wall clock
   alone (Proofs/C04HoldsOld.v; same conventions as the C04_holds_* theorems above).  Without a holds theorem
   remain the ops whose judge has an open class (z.with, z.withtime, z.days, z.months, z.opmonths, z.ymdhms);
   their results are pinned by the functional theorems above. *)
Theorem C04_holds_east : forall s, in_i32 s = true ->
  Judge.C04.judge B"z.east" [VInt s] (run B"z.east" [VInt s]) = JOk.
Proof. exact C04HoldsOld.holds_east. Qed.
Print Assumptions C04_holds_east.
Theorem C04_holds_west : forall s, in_i32 s = true ->
  Judge.C04.judge B"z.west" [VInt s] (run B"z.west" [VInt s]) = JOk.
Proof. exact C04HoldsOld.holds_west. Qed.
Print Assumptions C04_holds_west.
Theorem C04_holds_fromutc : forall off u, ndt_ok u -> off_ok off ->
  Judge.C04.judge B"z.fromutc" [VInt off; enc_ndt u] (run B"z.fromutc" [VInt off; enc_ndt u]) = JOk.
Proof. exact C04HoldsOld.holds_fromutc. Qed.
Print Assumptions C04_holds_fromutc.
Theorem C04_holds_fromlocal : forall off l, ndt_ok l -> off_ok off ->
  Judge.C04.judge B"z.fromlocal" [VInt off; enc_ndt l] (run B"z.fromlocal" [VInt off; enc_ndt l]) = JOk.
Proof. exact C04HoldsOld.holds_fromlocal. Qed.
Print Assumptions C04_holds_fromlocal.
Theorem C04_holds_nutc : forall a, dtz_ok a ->
  Judge.C04.judge B"z.nutc" [enc_dtz a] (run B"z.nutc" [enc_dtz a]) = JOk.
Proof. exact C04HoldsOld.holds_nutc. Qed.
Print Assumptions C04_holds_nutc.
Theorem C04_holds_nlocal : forall a, dtz_ok a ->
  Judge.C04.judge B"z.nlocal" [enc_dtz a] (run B"z.nlocal" [enc_dtz a]) = JOk.
Proof. exact C04HoldsOld.holds_nlocal. Qed.
Print Assumptions C04_holds_nlocal.
Theorem C04_holds_datenaive : forall a, dtz_ok a ->
  Judge.C04.judge B"z.datenaive" [enc_dtz a] (run B"z.datenaive" [enc_dtz a]) = JOk.
Proof. exact C04HoldsOld.holds_datenaive. Qed.
Print Assumptions C04_holds_datenaive.
Theorem C04_holds_time : forall a, dtz_ok a ->
  Judge.C04.judge B"z.time" [enc_dtz a] (run B"z.time" [enc_dtz a]) = JOk.
Proof. exact C04HoldsOld.holds_time. Qed.
Print Assumptions C04_holds_time.
Theorem C04_holds_acc : forall a, dtz_ok a ->
  Judge.C04.judge B"z.acc" [enc_dtz a] (run B"z.acc" [enc_dtz a]) = JOk.
Proof. exact C04HoldsOld.holds_acc. Qed.
Print Assumptions C04_holds_acc.
Theorem C04_holds_withtz : forall a off, dtz_ok a -> off_ok off ->
  Judge.C04.judge B"z.withtz" [enc_dtz a; VInt off] (run B"z.withtz" [enc_dtz a; VInt off]) = JOk.
Proof. exact C04HoldsOld.holds_withtz. Qed.
Print Assumptions C04_holds_withtz.
Theorem C04_holds_fixed : forall a, dtz_ok a ->
  Judge.C04.judge B"z.fixed" [enc_dtz a] (run B"z.fixed" [enc_dtz a]) = JOk.
Proof. exact C04HoldsOld.holds_fixed. Qed.
Print Assumptions C04_holds_fixed.
Theorem C04_holds_toutc : forall a, dtz_ok a ->
  Judge.C04.judge B"z.toutc" [enc_dtz a] (run B"z.toutc" [enc_dtz a]) = JOk.
Proof. exact C04HoldsOld.holds_toutc. Qed.
Print Assumptions C04_holds_toutc.
Theorem C04_holds_eq : forall a b, dtz_ok a -> dtz_ok b ->
  Judge.C04.judge B"z.eq" [enc_dtz a; enc_dtz b] (run B"z.eq" [enc_dtz a; enc_dtz b]) = JOk.
Proof. exact C04HoldsOld.holds_eq. Qed.
Print Assumptions C04_holds_eq.
Theorem C04_holds_cmp : forall a b, dtz_ok a -> dtz_ok b ->
  Judge.C04.judge B"z.cmp" [enc_dtz a; enc_dtz b] (run B"z.cmp" [enc_dtz a; enc_dtz b]) = JOk.
Proof. exact C04HoldsOld.holds_cmp. Qed.
Print Assumptions C04_holds_cmp.
Theorem C04_holds_hasheq : forall a b, dtz_ok a -> dtz_ok b ->
  Judge.C04.judge B"z.hasheq" [enc_dtz a; enc_dtz b] (run B"z.hasheq" [enc_dtz a; enc_dtz b]) = JOk.
Proof. exact C04HoldsOld.holds_hasheq. Qed.
Print Assumptions C04_holds_hasheq.

(* ================================================================================================
   z.opdays: impl Add<Days> / Sub<Days> for DateTime<Tz> ([add] = true / false): the value of
   checked_add_days / checked_sub_days, Panic exactly where those are None ... *)
Theorem C04_op_days_checked : forall (add : bool) a n,
  let op := if add then dz_op_add_days a n else dz_op_sub_days a n in
  match (if add then dz_checked_add_days a n else dz_checked_sub_days a n) with
  | Val (Some z) => op = Val z
  | Val None => op = Panic
  | Panic => op = Panic
  | OutOfFuel => op = OutOfFuel
  end.
Proof. exact C04OpDays.opdays_checked. Qed.
Print Assumptions C04_op_days_checked.
(* ... hence (C04_add_days / C04_sub_days), for every well-formed date-time, wall clock nominal or in the
   headroom, leap-second fraction or not: the wall-clock DATE moves by n days, time of day, fraction and offset
   are kept (day stepping, not instant stepping); Panic exactly when the target date is not a supported date
   or the instant leaves the range *)
Theorem C04_op_add_days : forall a n, dtz_ok a -> in_u64 n = true -> n <> 0 ->
  let n' := wall a / 86400 + n in
  let w' := n' * 86400 + wall a mod 86400 in
  if dn_in_range n' && keep (w' - dz_off a) (frac (dz_utc a))
  then exists z, dz_op_add_days a n = Val z /\ dtz_ok z /\ dz_off z = dz_off a /\
                 wall z = w' /\ frac (dz_utc z) = frac (dz_utc a)
  else dz_op_add_days a n = Panic.
Proof. exact C04OpDays.op_add_days_spec. Qed.
Print Assumptions C04_op_add_days.
Theorem C04_op_add_days_zero : forall a, dz_op_add_days a 0 = Val a.
Proof. exact C04OpDays.op_add_days_zero. Qed.
Print Assumptions C04_op_add_days_zero.
Theorem C04_op_sub_days : forall a n, dtz_ok a -> in_u64 n = true ->
  let n' := wall a / 86400 - n in
  let w' := n' * 86400 + wall a mod 86400 in
  if ((n =? 0) || dn_in_range n') && in_rng (w' - dz_off a)
  then exists z, dz_op_sub_days a n = Val z /\ dtz_ok z /\ dz_off z = dz_off a /\
                 wall z = w' /\ frac (dz_utc z) = frac (dz_utc a)
  else dz_op_sub_days a n = Panic.
Proof. exact C04OpDays.op_sub_days_spec. Qed.
Print Assumptions C04_op_sub_days.
(* a leap-second wall clock (09:59:59 + 1.5 s at +01:00 on the last day) keeps its fraction one day back; one
   day forward panics; zero days is the identity *)
Example C04_op_days_example :
  let a := mk_dtz (mk_ndt (Date.D_MAX) (Time.mk_time 32399 1500000000)) 3600 in
  dz_op_sub_days a 1 = Val (mk_dtz (mk_ndt (Date.D_MAX - 16) (Time.mk_time 32399 1500000000)) 3600) /\
  dz_op_add_days a 1 = Panic /\ dz_op_add_days a 0 = Val a.
Proof. exact C04OpDays.opdays_examples. Qed.
Print Assumptions C04_op_days_example.

(* ---- round E04.  C04_holds below supersedes the per-op C04_holds_* theorems above (canonical encodings only); they are kept under their names *)
(* ================================================================================================
   ADDITIONS for coq/Props/C04.v (append at the end of the file).
   Judge acceptance for the seven ops whose judge has an open class ([Judge.C04.moved] /
   [judge_either]): z.days z.opdays z.withtime z.months z.opmonths z.with z.ymdhms
   (Proofs/C04HoldsMoved.v, C04HoldsMonths.v, C04HoldsWith.v), the inversion of the judge's decoders
   (an argument the judge accepts IS the canonical encoding of a well-formed value), and the top-level
   theorem over every op and every argument list (Proofs/C04HoldsAll.v). *)
From V Require Proofs.HoldsLib Proofs.C04HoldsMoved Proofs.C04HoldsMonths Proofs.C04HoldsWith Proofs.C04HoldsAll.

(* the generic fact about [moved]: the strict value is always accepted; "nothing" is accepted inside the two
   open classes (new wall-clock date different from the old one and outside the nominal range; last second of
   the range with a leap fraction) *)
Theorem C04_moved_accepts : forall mk none u off w' f' got,
  got = (if Judge.C04.in_rng (w' - off) then mk (Judge.C04.enc_z (w' - off) f' off) else none) \/
  ((C04HoldsMoved.open1 u off w' = true \/ C04HoldsMoved.open2 off w' f' = true) /\ got = none) ->
  Judge.C04.moved mk none u off w' f' got = JOk.
Proof. exact C04HoldsMoved.moved_ok. Qed.
Print Assumptions C04_moved_accepts.

Theorem C04_holds_days : forall a sign n, dtz_ok a -> (sign =? 1) || (sign =? -1) = true -> in_u64 n = true ->
  Judge.C04.judge B"z.days" [enc_dtz a; VInt sign; VInt n] (run B"z.days" [enc_dtz a; VInt sign; VInt n]) = JOk.
Proof. exact C04HoldsMoved.holds_days. Qed.
Print Assumptions C04_holds_days.
Theorem C04_holds_opdays : forall a sign n, dtz_ok a -> (sign =? 1) || (sign =? -1) = true -> in_u64 n = true ->
  Judge.C04.judge B"z.opdays" [enc_dtz a; VInt sign; VInt n] (run B"z.opdays" [enc_dtz a; VInt sign; VInt n]) = JOk.
Proof. exact C04HoldsMoved.holds_opdays. Qed.
Print Assumptions C04_holds_opdays.
(* z.withtime: the model is with_time as repaired by fixes/C04-with-time-range.diff (known finding) *)
Theorem C04_holds_withtime : forall a t, dtz_ok a -> time_ok t ->
  Judge.C04.judge B"z.withtime" [enc_dtz a; Time.enc_time t] (run B"z.withtime" [enc_dtz a; Time.enc_time t]) = JOk.
Proof. exact C04HoldsMoved.holds_withtime. Qed.
Print Assumptions C04_holds_withtime.
Theorem C04_holds_months : forall a sign n, dtz_ok a -> (sign =? 1) || (sign =? -1) = true -> in_u32 n = true ->
  Judge.C04.judge B"z.months" [enc_dtz a; VInt sign; VInt n] (run B"z.months" [enc_dtz a; VInt sign; VInt n]) = JOk.
Proof. exact C04HoldsMonths.holds_months. Qed.
Print Assumptions C04_holds_months.
Theorem C04_holds_opmonths : forall a sign n, dtz_ok a -> (sign =? 1) || (sign =? -1) = true -> in_u32 n = true ->
  Judge.C04.judge B"z.opmonths" [enc_dtz a; VInt sign; VInt n] (run B"z.opmonths" [enc_dtz a; VInt sign; VInt n]) = JOk.
Proof. exact C04HoldsMonths.holds_opmonths. Qed.
Print Assumptions C04_holds_opmonths.
(* all 11 fields (0 year ... 6 ordinal0, 7 hour ... 10 nanosecond); the premise is the judge's own domain test *)
Theorem C04_holds_with : forall a field x, dtz_ok a ->
  (0 <=? field) && (field <=? 10) && (if field =? 0 then in_i32 x else in_u32 x) = true ->
  Judge.C04.judge B"z.with" [VInt field; enc_dtz a; VInt x] (run B"z.with" [VInt field; enc_dtz a; VInt x]) = JOk.
Proof. exact C04HoldsWith.holds_with. Qed.
Print Assumptions C04_holds_with.
Theorem C04_holds_ymdhms : forall off y m d h mi s, off_ok off ->
  in_i32 y && in_u32 m && in_u32 d && in_u32 h && in_u32 mi && in_u32 s = true ->
  Judge.C04.judge B"z.ymdhms" [VInt off; VInt y; VInt m; VInt d; VInt h; VInt mi; VInt s]
    (run B"z.ymdhms" [VInt off; VInt y; VInt m; VInt d; VInt h; VInt mi; VInt s]) = JOk.
Proof. exact C04HoldsWith.holds_ymdhms. Qed.
Print Assumptions C04_holds_ymdhms.

(* ---- the judge's decoders accept exactly the canonical encodings of well-formed values *)
Theorem C04_judge_domain_z : forall v u f off, Judge.C04.z_of_arg v = Some (u, f, off) ->
  exists a, v = enc_dtz a /\ dtz_ok a /\ u = usecs (dz_utc a) /\ f = frac (dz_utc a) /\ off = dz_off a.
Proof. exact C04HoldsAll.z_inv. Qed.
Print Assumptions C04_judge_domain_z.
Theorem C04_judge_domain_naive : forall v u f, Judge.C04.naive_of_arg v = Some (u, f) ->
  exists n, v = enc_ndt n /\ ndt_ok n /\ u = usecs n /\ f = frac n.
Proof. exact C04HoldsAll.naive_inv. Qed.
Print Assumptions C04_judge_domain_naive.
Theorem C04_judge_domain_off : forall v off, Judge.C04.off_of_arg v = Some off -> v = VInt off /\ off_ok off.
Proof. exact C04HoldsAll.off_inv. Qed.
Print Assumptions C04_judge_domain_off.
Theorem C04_judge_domain_time : forall v s f, Judge.C04.time_of_arg v = Some (s, f) ->
  exists t, v = Time.enc_time t /\ time_ok t /\ s = Time.tsecs t /\ f = Time.tfrac t.
Proof. exact C04HoldsAll.time_inv. Qed.
Print Assumptions C04_judge_domain_time.
(* z.show: the domain of the judge's documented text is the side conditions of C04_holds_show *)
Theorem C04_judge_domain_show : forall form v out, Judge.C09.judge_show 3 form v out <> JSkip ->
  exists a, v = enc_dtz a /\ dtz_ok a /\ dz_off a mod 60 = 0 /\
    (frac (dz_utc a) < 1000000000 \/ Time.tsecs (nd_time (dz_utc a)) mod 60 = 59) /\ (form = 0 \/ form = 1).
Proof. exact C04HoldsAll.show_dom. Qed.
Print Assumptions C04_judge_domain_show.

(* ---- top level: every op of the dispatcher (31), every argument list, no premise: whenever the judge has an
        opinion on the model's output it accepts it; in particular the judge never says "bad" on the model *)
Theorem C04_holds : forall op args,
  Judge.C04.judge op args (run op args) <> JSkip -> Judge.C04.judge op args (run op args) = JOk.
Proof. exact C04HoldsAll.C04_holds. Qed.
Print Assumptions C04_holds.
Theorem C04_never_bad : forall op args, HoldsLib.not_bad (Judge.C04.judge op args (run op args)).
Proof. exact C04HoldsAll.C04_never_bad. Qed.
Print Assumptions C04_never_bad.
(* not vacuous: an in-domain case of the first open class (the model answers "nothing", the judge has an
   opinion on that case line), and a with_year on a headroom wall clock *)
Example C04_holds_inhabited :
  Judge.C04.judge B"z.days" [enc_dtz z_max_p2h; VInt 1; VInt 1] (run B"z.days" [enc_dtz z_max_p2h; VInt 1; VInt 1]) = JOk /\
  run B"z.days" [enc_dtz z_max_p2h; VInt 1; VInt 1] = VNone /\
  Judge.C04.judge B"z.days" [enc_dtz z_max_p2h; VInt 1; VInt 1] (VSome (VInt 0)) <> JSkip /\
  Judge.C04.judge B"z.with" [VInt 0; enc_dtz z_min_m2h; VInt 1970] (run B"z.with" [VInt 0; enc_dtz z_min_m2h; VInt 1970]) = JOk.
Proof. exact C04HoldsAll.holds_examples. Qed.
Print Assumptions C04_holds_inhabited.
Example C04_moved_hypotheses_inhabited :
  dtz_ok z_max_p2h /\ (1 =? 1) || (1 =? -1) = true /\ (-1 =? 1) || (-1 =? -1) = true /\ in_u64 18446744073709551615 = true /\
  in_u32 4294967295 = true /\ time_ok noon /\ off_ok (-86399) /\
  (0 <=? 10) && (10 <=? 10) && (if 10 =? 0 then in_i32 1999999999 else in_u32 1999999999) = true /\
  in_i32 (-262144) && in_u32 12 && in_u32 31 && in_u32 23 && in_u32 59 && in_u32 59 = true.
Proof. exact C04HoldsAll.moved_hyps_inhabited. Qed.
Print Assumptions C04_moved_hypotheses_inhabited.
