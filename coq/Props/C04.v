(** C04 — Zone-aware date-times: one instant, many wall clocks.
    Property theorems only: each is closed by [exact] of a lemma from Proofs/C04.v and followed by
    [Print Assumptions].  A date-time is the record [dtz] = (UTC NaiveDateTime [dz_utc], offset seconds
    [dz_off]) of Model/DateTime.v; model functions are the line-by-line transcription of
    src/datetime/mod.rs, src/offset/mod.rs, src/offset/fixed.rs, src/naive/datetime/mod.rs with trapping
    integer arithmetic ([Val]/[Panic]). *)
From Coq Require Import ZArith List Bool.
From V Require Import Base.Int Base.IO Spec.Gregorian.
From V Require Model.Date Model.Time.
From V Require Import Model.DateTime Model.C04 Proofs.C04.
Open Scope Z_scope.

(* offsets: exactly the whole seconds strictly between -24h and +24h; west = negated east *)
Theorem C04_east_opt : forall s off, east_opt s = Some off <-> (off = s /\ off_ok s).
Proof. exact east_opt_some_iff. Qed.
Print Assumptions C04_east_opt.
Theorem C04_west_opt : forall s, in_i32 s = true ->
  west_opt s = Val (if (-86400 <? s) && (s <? 86400) then Some (- s) else None).
Proof. exact west_opt_spec. Qed.
Print Assumptions C04_west_opt.

(* time of day under an offset: (secs + off) mod 86400 with a day carry in {-1,0,1}; fraction kept *)
Theorem C04_time_add_offset : forall t off, time_ok t -> off_ok off ->
  Time.overflowing_add_offset t off =
    Val (Time.mk_time ((Time.tsecs t + off) mod 86400) (Time.tfrac t), (Time.tsecs t + off) / 86400).
Proof. exact overflowing_add_offset_spec. Qed.
Print Assumptions C04_time_add_offset.
Theorem C04_time_sub_offset : forall t off, time_ok t -> off_ok off ->
  Time.overflowing_sub_offset t off =
    Val (Time.mk_time ((Time.tsecs t - off) mod 86400) (Time.tfrac t), (Time.tsecs t - off) / 86400).
Proof. exact overflowing_sub_offset_spec. Qed.
Print Assumptions C04_time_sub_offset.
Theorem C04_time_wallclock : forall a, time_ok (nd_time (dz_utc a)) -> off_ok (dz_off a) ->
  dz_time a = Val (Time.mk_time ((Time.tsecs (nd_time (dz_utc a)) + dz_off a) mod 86400)
                                (Time.tfrac (nd_time (dz_utc a)))).
Proof. exact dz_time_spec. Qed.
Print Assumptions C04_time_wallclock.

(* building from UTC and reading UTC back is the identity (and never fails) *)
Theorem C04_utc_roundtrip : forall off u,
  naive_utc (from_utc_datetime off u) = u /\ dz_off (from_utc_datetime off u) = off.
Proof. exact utc_roundtrip. Qed.
Print Assumptions C04_utc_roundtrip.

(* equality, ordering and the hash key depend on the UTC reading only, and agree with each other *)
Theorem C04_eq_ord_hash_utc_only : forall a b a' b', dz_utc a = dz_utc a' -> dz_utc b = dz_utc b' ->
  dz_eqb a b = dz_eqb a' b' /\ dz_cmp a b = dz_cmp a' b' /\ dz_hash_key a = dz_hash_key a'.
Proof. exact eq_ord_hash_utc_only. Qed.
Print Assumptions C04_eq_ord_hash_utc_only.
Theorem C04_eq_ord_hash_agree : forall a b,
  (dz_eqb a b = true <-> dz_cmp a b = 0) /\
  (dz_eqb a b = keys_eqb (dz_hash_key a) (dz_hash_key b)).
Proof. exact eq_ord_hash_agree. Qed.
Print Assumptions C04_eq_ord_hash_agree.

(* converting to another zone keeps the UTC reading: equal, compares equal, same hash key *)
Theorem C04_with_timezone_instant : forall a off,
  dz_eqb (with_timezone a off) a = true /\ dz_cmp (with_timezone a off) a = 0 /\
  dz_hash_key (with_timezone a off) = dz_hash_key a.
Proof. exact with_timezone_same_instant. Qed.
Print Assumptions C04_with_timezone_instant.
Theorem C04_fixed_offset_id : forall a, dz_fixed_offset a = a.
Proof. exact fixed_offset_id. Qed.
Print Assumptions C04_fixed_offset_id.
Theorem C04_to_utc : forall a, dz_utc (dz_to_utc a) = dz_utc a /\ dz_off (dz_to_utc a) = 0.
Proof. exact to_utc_spec. Qed.
Print Assumptions C04_to_utc.
