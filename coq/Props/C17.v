(** C17 — Rounding and truncation land on the right multiple.
    Property theorems only: each is closed by [exact] of a lemma from Proofs/C17.v and followed by
    [Print Assumptions].

    Vocabulary.  [m_trunc s k = k*floor(s/k)], [m_up s k = k*ceil(s/k)], [m_round s k] = the nearer
    of the two, ties up: the definitions of the *judge* (Judge/C17.v), so the theorems and the
    executable oracle speak about the same functions.  [ns d] is the nanosecond count of a duration,
    [valid d] its well-formedness (Proofs/C06.v).  Model functions are the line-by-line
    transcription of src/round.rs (Model/Round.v): [duration_trunc / duration_round_up /
    duration_round] are the three generic helpers, [ndt_op m] / [dz_op m] the trait methods for
    NaiveDateTime / DateTime<FixedOffset> ([m : mode] = MTrunc | MUp | MRound, [spec_of m] the
    corresponding multiple), [round_subsecs / trunc_subsecs] the SubsecRound methods.

    Links to the neighbouring properties.  The instance theorems were first proved from explicit
    premises (never axioms): [ndt_links stamp good] says that on well-formed non-leap values [good],
    [timestamp_nanos_opt] reads the wall-clock stamp ([None] exactly outside i64; C02) and
    [checked_add_signed] / [checked_sub_signed] move it by exactly the duration inside
    (-2^64, 2^64) ns (C03); [dz_links wall goodz] says the same for DateTime<FixedOffset> with the
    wall clock read through [overflowing_naive_local] (C04).  Those forms are kept under the names
    *_modulo_add_exact.  Proofs/C17Links.v discharges the premises with the owners' theorems
    (C02_timestamp_nanos_opt_spec; C03_ndt_add_exact / _sub_exact / C03_zone_add_exact / _sub_exact;
    the wall-clock reading of C04_overflowing_naive_local re-derived in C03's nanosecond vocabulary,
    with the timestamps of the two headroom date words computed), see [C17_links_discharged]; the
    theorems C17_naive_* / C17_zoned_* WITHOUT the suffix are the unconditional statements, over
      [nvalid a]  (Proofs/C03.v) date word produced by the checked constructor, non-leap time of day,
      [inst a]    its instant: nanoseconds since 1970-01-01T00:00:00 read through Spec/Gregorian.v,
      [zgood z]   nvalid UTC part and offset strictly between -86400 and 86400 seconds,
      [zwall z]   = inst (UTC part) + offset * 10^9, the wall-clock stamp.
    The arithmetic core — the deltas derived from Rust's truncating [stamp % span] in the separate
    negative branches reach the specified multiple — is proved outright. *)
From Coq Require Import ZArith List Bool.
From V Require Import Base.Int Base.IO Spec.Gregorian Model.TimeDelta Model.DateTime Model.Round Proofs.C17.
From V Require Model.Time Judge.C17 Proofs.C06 Proofs.C03 Proofs.C17Links.
Open Scope Z_scope.

(** ** the specification is what the text says *)
Theorem C17_floor_multiple : forall s k, 0 < k ->
  (k | m_trunc s k) /\ m_trunc s k <= s < m_trunc s k + k.
Proof. exact m_trunc_spec. Qed.
Print Assumptions C17_floor_multiple.
Theorem C17_ceiling_multiple : forall s k, 0 < k ->
  (k | m_up s k) /\ m_up s k - k < s <= m_up s k.
Proof. exact m_up_spec. Qed.
Print Assumptions C17_ceiling_multiple.
Theorem C17_nearest_ties_up : forall s k, 0 < k ->
  (m_round s k = m_trunc s k \/ m_round s k = m_up s k) /\
  Z.abs (m_round s k - s) <= Z.abs (m_trunc s k - s) /\
  Z.abs (m_round s k - s) <= Z.abs (m_up s k - s) /\
  (Z.abs (m_trunc s k - s) = Z.abs (m_up s k - s) -> m_round s k = m_up s k).
Proof. exact m_round_spec. Qed.
Print Assumptions C17_nearest_ties_up.
Theorem C17_distance_bound : forall s k, 0 < k ->
  Z.abs (m_trunc s k - s) < k /\ Z.abs (m_up s k - s) < k /\ Z.abs (m_round s k - s) < k.
Proof. exact distance_bound. Qed.
Print Assumptions C17_distance_bound.

(** ** arithmetic core on stamps (outright): with r = stamp % span (truncating), the amounts the
    code subtracts / adds in its Equal / Greater / Less branches give the floor / ceiling multiple,
    and duration_round's comparison [delta_up <= delta_down] picks the nearest, ties up *)
Theorem C17_stamp_trunc : forall s k, 0 < k ->
  s - (let r := Z.rem s k in if r =? 0 then 0 else if 0 <? r then r else k - Z.abs r) = m_trunc s k.
Proof. exact trunc_delta_spec. Qed.
Print Assumptions C17_stamp_trunc.
Theorem C17_stamp_round_up : forall s k, 0 < k ->
  s + (let r := Z.rem s k in if r =? 0 then 0 else if 0 <? r then k - r else Z.abs r) = m_up s k.
Proof. exact up_delta_spec. Qed.
Print Assumptions C17_stamp_round_up.
Theorem C17_stamp_round : forall s k, 0 < k -> Z.rem s k <> 0 ->
  m_round s k = if up_delta k (Z.rem s k) <=? trunc_delta k (Z.rem s k)
                then s + up_delta k (Z.rem s k) else s - trunc_delta k (Z.rem s k).
Proof. exact round_choice. Qed.
Print Assumptions C17_stamp_round.
Theorem C17_stamp_multiple_fixed : forall s k, 0 < k -> Z.rem s k = 0 ->
  m_round s k = s /\ m_trunc s k = s /\ m_up s k = s.
Proof. exact m_round_fix. Qed.
Print Assumptions C17_stamp_multiple_fixed.

(** ** the three generic helpers over any carrier T whose + / - TimeDelta move a stamp exactly:
    result, error classification and "multiples unchanged" in one post-condition [helper_post] *)
Theorem C17_helper_trunc : forall (T : Type) (ops : tl T) (stampT : T -> Z) (goodT : T -> Prop),
  (forall x d, goodT x -> valid d -> W_LO <= stampT x + ns d <= W_HI ->
     exists r, tl_add ops x d = Val r /\ goodT r /\ stampT r = stampT x + ns d) ->
  (forall x d, goodT x -> valid d -> W_LO <= stampT x - ns d <= W_HI ->
     exists r, tl_sub ops x d = Val r /\ goodT r /\ stampT r = stampT x - ns d) ->
  forall naive x d, goodT x -> valid d ->
  dt_timestamp_nanos_opt naive = Val (chko in_i64 (stampT x)) ->
  exists out, duration_trunc ops naive x d = Val out /\
    (if span_bad (ns d) then out = inr DurationExceedsLimit
     else if negb (in_i64 (stampT x)) then out = inr TimestampExceedsLimit
     else exists r, out = inl r /\ goodT r /\ stampT r = m_trunc (stampT x) (ns d) /\
                    (Z.rem (stampT x) (ns d) = 0 -> r = x)).
Proof. exact duration_trunc_spec. Qed.
Print Assumptions C17_helper_trunc.
Theorem C17_helper_round_up : forall (T : Type) (ops : tl T) (stampT : T -> Z) (goodT : T -> Prop),
  (forall x d, goodT x -> valid d -> W_LO <= stampT x + ns d <= W_HI ->
     exists r, tl_add ops x d = Val r /\ goodT r /\ stampT r = stampT x + ns d) ->
  (forall x d, goodT x -> valid d -> W_LO <= stampT x - ns d <= W_HI ->
     exists r, tl_sub ops x d = Val r /\ goodT r /\ stampT r = stampT x - ns d) ->
  forall naive x d, goodT x -> valid d ->
  dt_timestamp_nanos_opt naive = Val (chko in_i64 (stampT x)) ->
  exists out, duration_round_up ops naive x d = Val out /\ helper_post T stampT goodT m_up x (ns d) out.
Proof. exact duration_round_up_spec. Qed.
Print Assumptions C17_helper_round_up.
Theorem C17_helper_round : forall (T : Type) (ops : tl T) (stampT : T -> Z) (goodT : T -> Prop),
  (forall x d, goodT x -> valid d -> W_LO <= stampT x + ns d <= W_HI ->
     exists r, tl_add ops x d = Val r /\ goodT r /\ stampT r = stampT x + ns d) ->
  (forall x d, goodT x -> valid d -> W_LO <= stampT x - ns d <= W_HI ->
     exists r, tl_sub ops x d = Val r /\ goodT r /\ stampT r = stampT x - ns d) ->
  forall naive x d, goodT x -> valid d ->
  dt_timestamp_nanos_opt naive = Val (chko in_i64 (stampT x)) ->
  exists out, duration_round ops naive x d = Val out /\ helper_post T stampT goodT m_round x (ns d) out.
Proof. exact duration_round_spec. Qed.
Print Assumptions C17_helper_round.

(** ** NaiveDateTime *)
(* on the domain (positive span expressible in i64 ns, stamp in i64) a value is returned: the right
   multiple, itself a multiple, less than one span from the input *)
Theorem C17_naive_value_modulo_add_exact : forall stamp good, ndt_links stamp good ->
  forall m a d, good a -> valid d -> 0 < ns d <= i64_max -> in_i64 (stamp a) = true ->
  exists r, ndt_op m a d = Val (inl r) /\ good r /\ stamp r = spec_of m (stamp a) (ns d) /\
            (ns d | stamp r) /\ Z.abs (stamp r - stamp a) < ns d.
Proof. exact ndt_value. Qed.
Print Assumptions C17_naive_value_modulo_add_exact.
(* failure is reported by value, exactly in the documented cases, with the documented variant *)
Theorem C17_naive_error_iff_modulo_add_exact : forall stamp good, ndt_links stamp good ->
  forall m a d, good a -> valid d ->
  exists out, ndt_op m a d = Val out /\ forall e, out = inr e <->
    (e = DurationExceedsLimit /\ (ns d <= 0 \/ i64_max < ns d)) \/
    (e = TimestampExceedsLimit /\ 0 < ns d <= i64_max /\ in_i64 (stamp a) = false).
Proof. exact ndt_error. Qed.
Print Assumptions C17_naive_error_iff_modulo_add_exact.
Theorem C17_naive_multiples_fixed_modulo_add_exact : forall stamp good, ndt_links stamp good ->
  forall m a d, good a -> valid d -> 0 < ns d <= i64_max -> in_i64 (stamp a) = true ->
  (ns d | stamp a) -> ndt_op m a d = Val (inl a).
Proof. exact ndt_fixed. Qed.
Print Assumptions C17_naive_multiples_fixed_modulo_add_exact.
(* idempotence (also across operations); a first result just below the i64 window gets the
   documented error on the second application *)
Theorem C17_naive_idempotent_modulo_add_exact : forall stamp good, ndt_links stamp good ->
  forall m m' a d r, good a -> valid d -> ndt_op m a d = Val (inl r) ->
  ndt_op m' r d = Val (if in_i64 (stamp r) then inl r else inr TimestampExceedsLimit).
Proof. exact ndt_idem. Qed.
Print Assumptions C17_naive_idempotent_modulo_add_exact.

(** ** DateTime<FixedOffset> / DateTime<Utc>: the same on the wall-clock reading (model of the
    repaired code, fixes/C17-round-naive-local.diff) *)
Theorem C17_zoned_value_modulo_add_exact : forall wall goodz, dz_links wall goodz ->
  forall m z d, goodz z -> valid d -> 0 < ns d <= i64_max -> in_i64 (wall z) = true ->
  exists r, dz_op m z d = Val (inl r) /\ goodz r /\ wall r = spec_of m (wall z) (ns d) /\
            (ns d | wall r) /\ Z.abs (wall r - wall z) < ns d.
Proof. exact dz_value. Qed.
Print Assumptions C17_zoned_value_modulo_add_exact.
Theorem C17_zoned_error_iff_modulo_add_exact : forall wall goodz, dz_links wall goodz ->
  forall m z d, goodz z -> valid d ->
  exists out, dz_op m z d = Val out /\ forall e, out = inr e <->
    (e = DurationExceedsLimit /\ (ns d <= 0 \/ i64_max < ns d)) \/
    (e = TimestampExceedsLimit /\ 0 < ns d <= i64_max /\ in_i64 (wall z) = false).
Proof. exact dz_error. Qed.
Print Assumptions C17_zoned_error_iff_modulo_add_exact.
Theorem C17_zoned_multiples_fixed_modulo_add_exact : forall wall goodz, dz_links wall goodz ->
  forall m z d, goodz z -> valid d -> 0 < ns d <= i64_max -> in_i64 (wall z) = true ->
  (ns d | wall z) -> dz_op m z d = Val (inl z).
Proof. exact dz_fixed. Qed.
Print Assumptions C17_zoned_multiples_fixed_modulo_add_exact.
Theorem C17_zoned_idempotent_modulo_add_exact : forall wall goodz, dz_links wall goodz ->
  forall m m' z d r, goodz z -> valid d -> dz_op m z d = Val (inl r) ->
  dz_op m' r d = Val (if in_i64 (wall r) then inl r else inr TimestampExceedsLimit).
Proof. exact dz_idem. Qed.
Print Assumptions C17_zoned_idempotent_modulo_add_exact.
(* the unrepaired code (self.naive_local()) traps where the error value is due: MAX_UTC read at
   +00:00:01; the repaired code returns Err(TimestampExceedsLimit) *)
Theorem C17_zoned_naive_local_refuted :
  dz_duration_trunc_orig z_witness d_witness = Panic /\
  dz_duration_round_orig z_witness d_witness = Panic /\
  dz_duration_round_up_orig z_witness d_witness = Panic /\
  dz_duration_trunc z_witness d_witness = Val (inr TimestampExceedsLimit).
Proof. exact dz_orig_refuted. Qed.
Print Assumptions C17_zoned_naive_local_refuted.

(** ** sub-second digits.  [sub_span N] = 10^(9-min(9,N)) ns is the judge's span; the code's lookup
    table [span_for_digits] (Gen/Round.v, regenerated from the source) agrees with it for every
    digit count, in particular for all of u16 *)
Theorem C17_span_for_digits : forall digits, 0 <= digits ->
  span_for_digits digits = V.Judge.C17.sub_span digits /\
  0 < V.Judge.C17.sub_span digits /\ (V.Judge.C17.sub_span digits | 1000000000).
Proof. exact (fun d H => conj (span_for_digits_spec d H) (sub_span_divides d H)). Qed.
Print Assumptions C17_span_for_digits.
Theorem C17_span_digits_ge9 : forall digits, 9 <= digits ->
  V.Judge.C17.sub_span digits = 1 /\ forall s, m_trunc s 1 = s /\ m_round s 1 = s /\ m_up s 1 = s.
Proof. exact (fun d H => conj (sub_span_ge9 d H) m_fix_span1). Qed.
Print Assumptions C17_span_digits_ge9.

(* NaiveTime, outright, leap-second fractions included: exactly the value the judge computes
   (rounding within the second, carry into the next second wrapping at midnight, a leap second is a
   second of its own); never traps; the result is a well-formed time; >= 9 digits: unchanged *)
Theorem C17_time_round_subsecs : forall t digits, time_ok t -> 0 <= digits ->
  round_subsecs time_ops t digits = Val (time_expected true digits t).
Proof. exact time_round_subsecs_spec. Qed.
Print Assumptions C17_time_round_subsecs.
Theorem C17_time_trunc_subsecs : forall t digits, time_ok t -> 0 <= digits ->
  trunc_subsecs time_ops t digits = Val (time_expected false digits t).
Proof. exact time_trunc_subsecs_spec. Qed.
Print Assumptions C17_time_trunc_subsecs.
Theorem C17_time_subsecs_closed : forall round digits t, time_ok t -> 0 <= digits ->
  time_ok (time_expected round digits t).
Proof. exact time_expected_ok. Qed.
Print Assumptions C17_time_subsecs_closed.
Theorem C17_time_subsecs_ge9_unchanged : forall round digits t, time_ok t -> 9 <= digits ->
  time_expected round digits t = t.
Proof. exact time_digits_ge9. Qed.
Print Assumptions C17_time_subsecs_ge9_unchanged.

(* any carrier whose + / - TimeDelta are exact on [LO..HI] and whose nanosecond field is the stamp's
   fraction (non-leap values): N-digit rounding / truncation IS rounding / truncation to the span
   10^(9-min(9,N)) ns — carry into the next second included — and multiples are returned unchanged *)
Theorem C17_subsec_round_generic_modulo_add_exact :
  forall (T : Type) (ops : tl T) (stampT : T -> Z) (goodT : T -> Prop) (LO HI : Z),
  (forall x, goodT x -> tl_nanosecond ops x = Val (stampT x mod 1000000000)) ->
  (forall x d, goodT x -> valid d -> LO <= stampT x + ns d <= HI ->
     exists r, tl_add ops x d = Val r /\ goodT r /\ stampT r = stampT x + ns d) ->
  (forall x d, goodT x -> valid d -> LO <= stampT x - ns d <= HI ->
     exists r, tl_sub ops x d = Val r /\ goodT r /\ stampT r = stampT x - ns d) ->
  forall x digits, goodT x -> 0 <= digits ->
  LO <= m_round (stampT x) (V.Judge.C17.sub_span digits) <= HI ->
  exists r, round_subsecs ops x digits = Val r /\ goodT r /\
            stampT r = m_round (stampT x) (V.Judge.C17.sub_span digits) /\
            (stampT x mod V.Judge.C17.sub_span digits = 0 -> r = x).
Proof. exact round_subsecs_spec. Qed.
Print Assumptions C17_subsec_round_generic_modulo_add_exact.
Theorem C17_subsec_trunc_generic_modulo_add_exact :
  forall (T : Type) (ops : tl T) (stampT : T -> Z) (goodT : T -> Prop) (LO HI : Z),
  (forall x, goodT x -> tl_nanosecond ops x = Val (stampT x mod 1000000000)) ->
  (forall x d, goodT x -> valid d -> LO <= stampT x + ns d <= HI ->
     exists r, tl_add ops x d = Val r /\ goodT r /\ stampT r = stampT x + ns d) ->
  (forall x d, goodT x -> valid d -> LO <= stampT x - ns d <= HI ->
     exists r, tl_sub ops x d = Val r /\ goodT r /\ stampT r = stampT x - ns d) ->
  forall x digits, goodT x -> 0 <= digits ->
  LO <= m_trunc (stampT x) (V.Judge.C17.sub_span digits) <= HI ->
  exists r, trunc_subsecs ops x digits = Val r /\ goodT r /\
            stampT r = m_trunc (stampT x) (V.Judge.C17.sub_span digits) /\
            (stampT x mod V.Judge.C17.sub_span digits = 0 -> r = x).
Proof. exact trunc_subsecs_spec. Qed.
Print Assumptions C17_subsec_trunc_generic_modulo_add_exact.
(* instances: NaiveDateTime and DateTime<FixedOffset> (links bundled as ndt_sub_links / dz_sub_links) *)
Theorem C17_naive_round_subsecs_modulo_add_exact : forall stamp good LO HI, ndt_sub_links stamp good LO HI ->
  forall a digits, good a -> 0 <= digits -> LO <= m_round (stamp a) (V.Judge.C17.sub_span digits) <= HI ->
  exists r, round_subsecs ndt_ops a digits = Val r /\ subsec_post stamp good m_round a digits r.
Proof. exact ndt_round_subsecs. Qed.
Print Assumptions C17_naive_round_subsecs_modulo_add_exact.
Theorem C17_naive_trunc_subsecs_modulo_add_exact : forall stamp good LO HI, ndt_sub_links stamp good LO HI ->
  forall a digits, good a -> 0 <= digits -> LO <= m_trunc (stamp a) (V.Judge.C17.sub_span digits) <= HI ->
  exists r, trunc_subsecs ndt_ops a digits = Val r /\ subsec_post stamp good m_trunc a digits r.
Proof. exact ndt_trunc_subsecs. Qed.
Print Assumptions C17_naive_trunc_subsecs_modulo_add_exact.
Theorem C17_zoned_round_subsecs_modulo_add_exact : forall wall goodz LO HI, dz_sub_links wall goodz LO HI ->
  forall z digits, goodz z -> 0 <= digits -> LO <= m_round (wall z) (V.Judge.C17.sub_span digits) <= HI ->
  exists r, round_subsecs dz_ops z digits = Val r /\ subsec_post wall goodz m_round z digits r.
Proof. exact dz_round_subsecs. Qed.
Print Assumptions C17_zoned_round_subsecs_modulo_add_exact.
Theorem C17_zoned_trunc_subsecs_modulo_add_exact : forall wall goodz LO HI, dz_sub_links wall goodz LO HI ->
  forall z digits, goodz z -> 0 <= digits -> LO <= m_trunc (wall z) (V.Judge.C17.sub_span digits) <= HI ->
  exists r, trunc_subsecs dz_ops z digits = Val r /\ subsec_post wall goodz m_trunc z digits r.
Proof. exact dz_trunc_subsecs. Qed.
Print Assumptions C17_zoned_trunc_subsecs_modulo_add_exact.

(** ** the links hold: the premises of the *_modulo_add_exact theorems, instantiated with the
    theorems of C02 / C03 / C04 (Proofs/C17Links.v).  For sub-second rounding the range on which
    + / - are exact is the whole range of representable instants [NS_MIN, NS_MAX] (for a zone-aware
    value: of its UTC instant, i.e. shifted by the offset on the wall-clock axis). *)
Notation nvalid := V.Proofs.C03.nvalid.
Notation inst := V.Proofs.C03.inst.
Notation zgood := V.Proofs.C17Links.zgood.
Notation zgood_at := V.Proofs.C17Links.zgood_at.
Notation zwall := V.Proofs.C17Links.zwall.
Theorem C17_links_discharged :
  ndt_links inst nvalid /\ dz_links zwall zgood /\
  ndt_sub_links inst nvalid NS_MIN NS_MAX /\
  (forall off, -86400 < off < 86400 ->
     dz_sub_links zwall (zgood_at off) (NS_MIN + off * 1000000000) (NS_MAX + off * 1000000000)).
Proof. exact (conj V.Proofs.C17Links.ndt_links_hold (conj V.Proofs.C17Links.dz_links_hold
         (conj V.Proofs.C17Links.ndt_sub_links_hold V.Proofs.C17Links.dz_sub_links_hold))). Qed.
Print Assumptions C17_links_discharged.
(* what the carriers mean, unfolded *)
Theorem C17_zoned_vocabulary : forall z,
  (zgood z <-> nvalid (dz_utc z) /\ -86400 < dz_off z < 86400) /\
  zwall z = inst (dz_utc z) + dz_off z * 1000000000 /\
  (forall off, zgood_at off z <-> nvalid (dz_utc z) /\ dz_off z = off).
Proof. exact (fun z => conj (conj (fun H => H) (fun H => H)) (conj eq_refl (fun off => conj (fun H => H) (fun H => H)))). Qed.
Print Assumptions C17_zoned_vocabulary.

(** ** NaiveDateTime, unconditional *)
(* on the domain (positive span expressible in i64 ns, instant in i64) a value is returned: the right
   multiple, itself a multiple, less than one span from the input *)
Theorem C17_naive_value : forall m a d, nvalid a -> valid d -> 0 < ns d <= i64_max -> in_i64 (inst a) = true ->
  exists r, ndt_op m a d = Val (inl r) /\ nvalid r /\ inst r = spec_of m (inst a) (ns d) /\
            (ns d | inst r) /\ Z.abs (inst r - inst a) < ns d.
Proof. exact V.Proofs.C17Links.ndt_value_u. Qed.
Print Assumptions C17_naive_value.
(* failure is reported by value (never a trap), exactly in the documented cases, with the documented variant *)
Theorem C17_naive_error_iff : forall m a d, nvalid a -> valid d ->
  exists out, ndt_op m a d = Val out /\ forall e, out = inr e <->
    (e = DurationExceedsLimit /\ (ns d <= 0 \/ i64_max < ns d)) \/
    (e = TimestampExceedsLimit /\ 0 < ns d <= i64_max /\ in_i64 (inst a) = false).
Proof. exact V.Proofs.C17Links.ndt_error_u. Qed.
Print Assumptions C17_naive_error_iff.
Theorem C17_naive_multiples_fixed : forall m a d, nvalid a -> valid d -> 0 < ns d <= i64_max ->
  in_i64 (inst a) = true -> (ns d | inst a) -> ndt_op m a d = Val (inl a).
Proof. exact V.Proofs.C17Links.ndt_fixed_u. Qed.
Print Assumptions C17_naive_multiples_fixed.
(* idempotence (also across operations); a first result just outside the i64 window gets the
   documented error on the second application *)
Theorem C17_naive_idempotent : forall m m' a d r, nvalid a -> valid d -> ndt_op m a d = Val (inl r) ->
  ndt_op m' r d = Val (if in_i64 (inst r) then inl r else inr TimestampExceedsLimit).
Proof. exact V.Proofs.C17Links.ndt_idem_u. Qed.
Print Assumptions C17_naive_idempotent.

(** ** DateTime<FixedOffset> / DateTime<Utc>, unconditional: the same on the wall-clock stamp, for
    every offset and every instant, including those whose wall clock leaves NaiveDateTime's range
    (there the stamp does not fit i64 and Err(TimestampExceedsLimit) is the result, by value) *)
Theorem C17_zoned_value : forall m z d, zgood z -> valid d -> 0 < ns d <= i64_max -> in_i64 (zwall z) = true ->
  exists r, dz_op m z d = Val (inl r) /\ zgood r /\ zwall r = spec_of m (zwall z) (ns d) /\
            (ns d | zwall r) /\ Z.abs (zwall r - zwall z) < ns d.
Proof. exact V.Proofs.C17Links.dz_value_u. Qed.
Print Assumptions C17_zoned_value.
Theorem C17_zoned_error_iff : forall m z d, zgood z -> valid d ->
  exists out, dz_op m z d = Val out /\ forall e, out = inr e <->
    (e = DurationExceedsLimit /\ (ns d <= 0 \/ i64_max < ns d)) \/
    (e = TimestampExceedsLimit /\ 0 < ns d <= i64_max /\ in_i64 (zwall z) = false).
Proof. exact V.Proofs.C17Links.dz_error_u. Qed.
Print Assumptions C17_zoned_error_iff.
Theorem C17_zoned_multiples_fixed : forall m z d, zgood z -> valid d -> 0 < ns d <= i64_max ->
  in_i64 (zwall z) = true -> (ns d | zwall z) -> dz_op m z d = Val (inl z).
Proof. exact V.Proofs.C17Links.dz_fixed_u. Qed.
Print Assumptions C17_zoned_multiples_fixed.
Theorem C17_zoned_idempotent : forall m m' z d r, zgood z -> valid d -> dz_op m z d = Val (inl r) ->
  dz_op m' r d = Val (if in_i64 (zwall r) then inl r else inr TimestampExceedsLimit).
Proof. exact V.Proofs.C17Links.dz_idem_u. Qed.
Print Assumptions C17_zoned_idempotent.

(** ** sub-second digits on NaiveDateTime and DateTime<FixedOffset>, unconditional: N-digit rounding /
    truncation is rounding / truncation of the instant to the span 10^(9-min(9,N)) ns (carry into the
    next second, minute, ... day included) whenever the target instant is representable; the result
    is well-formed, keeps the offset, and a value already on a multiple is returned unchanged
    ([subsec_post stamp good f x N r] = good r /\ stamp r = f (stamp x) (sub_span N) /\
     (stamp x mod sub_span N = 0 -> r = x)) *)
Theorem C17_naive_round_subsecs : forall a digits, nvalid a -> 0 <= digits ->
  NS_MIN <= m_round (inst a) (V.Judge.C17.sub_span digits) <= NS_MAX ->
  exists r, round_subsecs ndt_ops a digits = Val r /\ subsec_post inst nvalid m_round a digits r.
Proof. exact V.Proofs.C17Links.ndt_round_subsecs_u. Qed.
Print Assumptions C17_naive_round_subsecs.
Theorem C17_naive_trunc_subsecs : forall a digits, nvalid a -> 0 <= digits ->
  NS_MIN <= m_trunc (inst a) (V.Judge.C17.sub_span digits) <= NS_MAX ->
  exists r, trunc_subsecs ndt_ops a digits = Val r /\ subsec_post inst nvalid m_trunc a digits r.
Proof. exact V.Proofs.C17Links.ndt_trunc_subsecs_u. Qed.
Print Assumptions C17_naive_trunc_subsecs.
Theorem C17_zoned_round_subsecs : forall z digits, zgood z -> 0 <= digits ->
  NS_MIN <= m_round (zwall z) (V.Judge.C17.sub_span digits) - dz_off z * 1000000000 <= NS_MAX ->
  exists r, round_subsecs dz_ops z digits = Val r /\ subsec_post zwall (zgood_at (dz_off z)) m_round z digits r.
Proof. exact V.Proofs.C17Links.dz_round_subsecs_u. Qed.
Print Assumptions C17_zoned_round_subsecs.
Theorem C17_zoned_trunc_subsecs : forall z digits, zgood z -> 0 <= digits ->
  NS_MIN <= m_trunc (zwall z) (V.Judge.C17.sub_span digits) - dz_off z * 1000000000 <= NS_MAX ->
  exists r, trunc_subsecs dz_ops z digits = Val r /\ subsec_post zwall (zgood_at (dz_off z)) m_trunc z digits r.
Proof. exact V.Proofs.C17Links.dz_trunc_subsecs_u. Qed.
Print Assumptions C17_zoned_trunc_subsecs.
(* the carriers are inhabited at the range ends; the witness of the unrepaired trap (MAX_UTC read at
   +00:00:01) is [zgood] with a wall-clock stamp outside i64: C17_zoned_error_iff applies to it *)
Example C17_links_inhabited :
  nvalid NDT_MAX /\ nvalid NDT_MIN /\ inst NDT_MAX = NS_MAX /\
  zgood z_witness /\ in_i64 (zwall z_witness) = false /\ zwall z_witness = NS_MAX + 1000000000.
Proof. exact V.Proofs.C17Links.links_inhabited. Qed.
Print Assumptions C17_links_inhabited.

(** ** the hypotheses are inhabited / the operations are not vacuous: the crate's own test values *)
Example C17_examples :
  rmap (enc_res enc_ndt) (ndt_duration_trunc (ex_ndt 2012 347 66149 999000000) (mk_td 300 0))
    = Val (VTup (VInt 2012 :: VInt 347 :: VInt 66000 :: VInt 0 :: nil)) /\
  rmap (enc_res enc_ndt) (ndt_duration_round_up (ex_ndt 2012 347 66149 999000000) (mk_td 300 0))
    = Val (VTup (VInt 2012 :: VInt 347 :: VInt 66300 :: VInt 0 :: nil)) /\
  rmap (enc_res enc_ndt) (ndt_duration_round (ex_ndt 2012 347 66150 0) (mk_td 300 0))
    = Val (VTup (VInt 2012 :: VInt 347 :: VInt 66300 :: VInt 0 :: nil)) /\
  rmap (enc_res enc_ndt) (ndt_duration_trunc (ex_ndt 1969 346 43932 0) (mk_td 600 0))
    = Val (VTup (VInt 1969 :: VInt 346 :: VInt 43800 :: VInt 0 :: nil)) /\
  rmap (enc_res enc_ndt) (ndt_duration_round_up (ex_ndt 1969 346 43932 0) (mk_td 600 0))
    = Val (VTup (VInt 1969 :: VInt 346 :: VInt 44400 :: VInt 0 :: nil)) /\
  ndt_duration_round (ex_ndt 2300 346 0 0) (mk_td 86400 0) = Val (inr TimestampExceedsLimit) /\
  ndt_duration_round (ex_ndt 2012 347 0 0) (mk_td 0 0) = Val (inr DurationExceedsLimit) /\
  ndt_duration_round (ex_ndt 2012 347 0 0) (mk_td 9223372036854775 807000000) = Val (inr DurationExceedsLimit) /\
  rmap enc_ndt (round_subsecs ndt_ops (ex_ndt 2016 366 86399 1750500000) 0)
    = Val (VTup (VInt 2017 :: VInt 1 :: VInt 0 :: VInt 0 :: nil)) /\
  rmap enc_ndt (trunc_subsecs ndt_ops (ex_ndt 2016 366 86399 1750500000) 1)
    = Val (VTup (VInt 2016 :: VInt 366 :: VInt 86399 :: VInt 1700000000 :: nil)).
Proof. exact examples. Qed.
Print Assumptions C17_examples.

(** ** every dispatcher op: which model function answers it (coverage/OPS_THEOREMS_C17.md) *)
From Coq Require Import String.
From V Require Model.C17 Proofs.HoldsLib Proofs.C17Ops Proofs.C17Holds.
Import ListNotations.
Notation run := V.Model.C17.run.
Notation subsec_op := V.Model.C17.subsec_op.
Notation sh_n_td := V.Proofs.C17Ops.sh_n_td.
Notation sh_z_td := V.Proofs.C17Ops.sh_z_td.
Notation ndt_ok := V.Proofs.C17Ops.ndt_ok.
Notation dtz_ok := V.Proofs.C17Ops.dtz_ok.
Notation lim_of := V.Proofs.C17Ops.lim_of.
Notation sub_fn := V.Proofs.C17Holds.sub_fn.
Notation vdate := V.Proofs.C03.vdate.
Notation dnum := V.Proofs.C03.dn.
(* [sh_n_td f] / [sh_z_td f]: two arguments, decoded with dec_ndt / dec_dtz and dec_td, the result of
   [f] encoded with enc_res (value or err:<RoundingError variant>), PANIC where f traps, BADARGS
   otherwise *)
Theorem C17_dispatch : forall args,
  run (B"rd.trunc") args = sh_n_td ndt_duration_trunc args /\
  run (B"rd.round") args = sh_n_td ndt_duration_round args /\
  run (B"rd.up") args = sh_n_td ndt_duration_round_up args /\
  run (B"rd.ztrunc") args = sh_z_td dz_duration_trunc args /\
  run (B"rd.zround") args = sh_z_td dz_duration_round args /\
  run (B"rd.zup") args = sh_z_td dz_duration_round_up args /\
  run (B"rd.rsub") args = subsec_op (@round_subsecs) args /\
  run (B"rd.tsub") args = subsec_op (@trunc_subsecs) args.
Proof. exact V.Proofs.C17Ops.dispatch. Qed.
Print Assumptions C17_dispatch.
(* the three kinds of rd.rsub / rd.tsub for every digit count of u16; anything else is BADARGS *)
Theorem C17_subsec_dispatch : forall (f : forall T, tl T -> T -> Z -> R T) v digits,
  (in_u16 digits = true ->
   subsec_op f [VInt 1; v; VInt digits] =
     match Time.dec_time v with Some t => val_of_R Time.enc_time (f _ time_ops t digits) | None => VBad end /\
   subsec_op f [VInt 2; v; VInt digits] =
     match dec_ndt v with Some a => val_of_R enc_ndt (f _ ndt_ops a digits) | None => VBad end /\
   subsec_op f [VInt 3; v; VInt digits] =
     match dec_dtz v with Some a => val_of_R enc_dtz (f _ dz_ops a digits) | None => VBad end /\
   (forall kind, kind <> 1 -> kind <> 2 -> kind <> 3 -> subsec_op f [VInt kind; v; VInt digits] = VBad)) /\
  (in_u16 digits = false -> forall kind, subsec_op f [VInt kind; v; VInt digits] = VBad).
Proof. exact (fun f v digits => conj (V.Proofs.C17Ops.subsec_dispatch f v digits)
                                     (fun H kind => V.Proofs.C17Ops.subsec_bad_digits f kind v digits H)). Qed.
Print Assumptions C17_subsec_dispatch.

(** ** SubsecRound over ANY carrier, unfolded: one read of the nanosecond field, then at most one
    + or one - of a duration below one second (also inside a leap second: the field is below 2^32) *)
Theorem C17_round_subsecs_unfolded : forall (T : Type) (ops : tl T) x digits frac,
  0 <= digits -> tl_nanosecond ops x = Val frac -> 0 <= frac <= u32_max ->
  round_subsecs ops x digits =
    (if frac mod V.Judge.C17.sub_span digits >? 0 then
       (if V.Judge.C17.sub_span digits - frac mod V.Judge.C17.sub_span digits <=? frac mod V.Judge.C17.sub_span digits
        then tl_add ops x (mk_td 0 (V.Judge.C17.sub_span digits - frac mod V.Judge.C17.sub_span digits))
        else tl_sub ops x (mk_td 0 (frac mod V.Judge.C17.sub_span digits)))
     else Val x).
Proof. exact (@V.Proofs.C17Ops.round_subsecs_unfold). Qed.
Print Assumptions C17_round_subsecs_unfolded.
Theorem C17_trunc_subsecs_unfolded : forall (T : Type) (ops : tl T) x digits frac,
  0 <= digits -> tl_nanosecond ops x = Val frac -> 0 <= frac <= u32_max ->
  trunc_subsecs ops x digits =
    (if frac mod V.Judge.C17.sub_span digits >? 0
     then tl_sub ops x (mk_td 0 (frac mod V.Judge.C17.sub_span digits)) else Val x).
Proof. exact (@V.Proofs.C17Ops.trunc_subsecs_unfold). Qed.
Print Assumptions C17_trunc_subsecs_unfolded.

(** ** nine or more digits (9 ..= u16::MAX and beyond) return the value unchanged: for any carrier
    whose nanosecond field can be read, hence for all three kinds, leap-second readings included,
    with no range condition ([ndt_ok]: checked date word and secs < 86400, frac < 2*10^9;
    [dtz_ok]: the same for the UTC part and an offset strictly inside one day) *)
Theorem C17_subsecs_ge9_generic : forall (T : Type) (ops : tl T) x digits frac,
  9 <= digits -> tl_nanosecond ops x = Val frac -> 0 <= frac <= u32_max ->
  round_subsecs ops x digits = Val x /\ trunc_subsecs ops x digits = Val x.
Proof. exact (@V.Proofs.C17Ops.subsecs_ge9_generic). Qed.
Print Assumptions C17_subsecs_ge9_generic.
Theorem C17_subsecs_ge9_unchanged_all_kinds : forall digits, 9 <= digits ->
  (forall t, time_ok t ->
     round_subsecs time_ops t digits = Val t /\ trunc_subsecs time_ops t digits = Val t) /\
  (forall a, time_ok (nd_time a) ->
     round_subsecs ndt_ops a digits = Val a /\ trunc_subsecs ndt_ops a digits = Val a) /\
  (forall z, dtz_ok z ->
     round_subsecs dz_ops z digits = Val z /\ trunc_subsecs dz_ops z digits = Val z).
Proof. exact V.Proofs.C17Ops.subsecs_ge9_unchanged_all_kinds. Qed.
Print Assumptions C17_subsecs_ge9_unchanged_all_kinds.
Theorem C17_carriers_vocabulary : forall a z,
  (ndt_ok a <-> vdate (nd_date a) /\ time_ok (nd_time a)) /\
  (dtz_ok z <-> ndt_ok (dz_utc z) /\ -86400 < dz_off z < 86400) /\
  (time_ok (nd_time a) <-> 0 <= Time.tsecs (nd_time a) < 86400 /\ 0 <= Time.tfrac (nd_time a) < 2000000000).
Proof. exact (fun a z => conj (conj (fun H => H) (fun H => H)) (conj (conj (fun H => H) (fun H => H)) (conj (fun H => H) (fun H => H)))). Qed.
Print Assumptions C17_carriers_vocabulary.
(* at the level of the dispatcher ops (digits : u16): the argument comes back as it went in *)
Theorem C17_subsecs_ge9_ops : forall kind v digits, in_u16 digits = true -> 9 <= digits ->
  kind = 1 \/ kind = 2 \/ kind = 3 ->
  run (B"rd.rsub") [VInt kind; v; VInt digits] <> VBad ->
  run (B"rd.rsub") [VInt kind; v; VInt digits] = v /\ run (B"rd.tsub") [VInt kind; v; VInt digits] = v.
Proof. exact V.Proofs.C17Holds.subsecs_ge9_ops. Qed.
Print Assumptions C17_subsecs_ge9_ops.

(** ** one + / - of less than a second on NaiveTime / NaiveDateTime for EVERY well-formed value,
    leap-second readings included (C03's exactness theorems, used above, exclude them): within the
    second, or into the next second — out of a leap second into the next ordinary one — with the
    date moved by one day past midnight ([lim_of f] = 10^9, or 2*10^9 inside a leap second) *)
Theorem C17_time_add_small : forall t n, time_ok t -> 0 < n < 1000000000 ->
  Time.overflowing_add_signed t (mk_td 0 n) = Val (
    if lim_of (Time.tfrac t) <=? Time.tfrac t + n
    then (Time.mk_time ((Time.tsecs t + 1) mod 86400) (Time.tfrac t + n - lim_of (Time.tfrac t)),
          if Time.tsecs t + 1 =? 86400 then 86400 else 0)
    else (Time.mk_time (Time.tsecs t) (Time.tfrac t + n), 0)).
Proof. exact V.Proofs.C17Ops.oas_small. Qed.
Print Assumptions C17_time_add_small.
Theorem C17_time_sub_small : forall t n, time_ok t -> 0 < n < 1000000000 -> n <= Time.tfrac t mod 1000000000 ->
  Time.overflowing_sub_signed t (mk_td 0 n) = Val (Time.mk_time (Time.tsecs t) (Time.tfrac t - n), 0).
Proof. exact V.Proofs.C17Ops.osub_small. Qed.
Print Assumptions C17_time_sub_small.
Theorem C17_naive_add_small : forall a n, ndt_ok a -> 0 < n < 1000000000 ->
  let t := nd_time a in
  let carry := lim_of (Time.tfrac t) <=? Time.tfrac t + n in
  let k := if carry && (Time.tsecs t + 1 =? 86400) then 1 else 0 in
  exists r, ndt_checked_add_signed a (mk_td 0 n) = Val r /\
    match r with
    | Some b =>
        nd_time b = (if carry then Time.mk_time ((Time.tsecs t + 1) mod 86400) (Time.tfrac t + n - lim_of (Time.tfrac t))
                     else Time.mk_time (Time.tsecs t) (Time.tfrac t + n)) /\
        vdate (nd_date b) /\ dnum (nd_date b) = dnum (nd_date a) + k
    | None => dn_in_range (dnum (nd_date a) + k) = false
    end.
Proof. exact V.Proofs.C17Ops.ndt_add_small. Qed.
Print Assumptions C17_naive_add_small.
Theorem C17_naive_sub_small : forall a n, ndt_ok a -> 0 < n < 1000000000 ->
  n <= Time.tfrac (nd_time a) mod 1000000000 ->
  exists b, ndt_checked_sub_signed a (mk_td 0 n) = Val (Some b) /\
    nd_time b = Time.mk_time (Time.tsecs (nd_time a)) (Time.tfrac (nd_time a) - n) /\
    vdate (nd_date b) /\ dnum (nd_date b) = dnum (nd_date a).
Proof. exact V.Proofs.C17Ops.ndt_sub_small. Qed.
Print Assumptions C17_naive_sub_small.
Theorem C17_zoned_nanosecond : forall z, dtz_ok z -> dz_nanosecond z = Val (Time.tfrac (nd_time (dz_utc z))).
Proof. exact V.Proofs.C17Ops.dz_nano_any. Qed.
Print Assumptions C17_zoned_nanosecond.

(** ** the judge accepts the model: for every op name and every argument list, whenever the
    independent judge (Judge/C17.v) has an opinion on the model's output, the opinion is JOk.
    No premise is needed: on every argument list in the judge's domain the dispatcher decodes.
    Covers: all six span ops on every non-leap date-time, every offset, every span (error cases
    included, either error where both are due); rd.rsub / rd.tsub for kinds 1, 2, 3, every digit
    count of u16 and every value INCLUDING leap-second readings and carries across midnight / the end
    of the year (the judge skips only when the carried value leaves the range of dates). *)
Theorem C17_holds : forall op args,
  V.Judge.C17.judge op args (run op args) <> JSkip -> V.Judge.C17.judge op args (run op args) = JOk.
Proof. exact V.Proofs.C17Holds.C17_holds. Qed.
Print Assumptions C17_holds.
Theorem C17_never_bad : forall op args, V.Proofs.HoldsLib.not_bad (V.Judge.C17.judge op args (run op args)).
Proof. exact V.Proofs.C17Holds.C17_never_bad. Qed.
Print Assumptions C17_never_bad.
(* the whole u16 range of digit counts in one statement ([sub_fn true] = round_subsecs,
   [sub_fn false] = trunc_subsecs) *)
Theorem C17_subsecs_whole_u16 : forall digits, in_u16 digits = true ->
  span_for_digits digits = 10 ^ (9 - Z.min 9 digits) /\
  (forall round kind v,
     let args := [VInt kind; v; VInt digits] in
     V.Judge.C17.judge_sub round args (subsec_op (sub_fn round) args) <> JSkip ->
     V.Judge.C17.judge_sub round args (subsec_op (sub_fn round) args) = JOk) /\
  (9 <= digits -> forall kind v, kind = 1 \/ kind = 2 \/ kind = 3 ->
     run (B"rd.rsub") [VInt kind; v; VInt digits] <> VBad ->
     run (B"rd.rsub") [VInt kind; v; VInt digits] = v /\ run (B"rd.tsub") [VInt kind; v; VInt digits] = v).
Proof. exact V.Proofs.C17Holds.subsecs_whole_u16. Qed.
Print Assumptions C17_subsecs_whole_u16.
(* non-vacuity: the ends of u16; a leap-second carry across the end of a year (kind 2), a truncation
   inside a leap second (kind 3), 65535 digits on a leap reading (kind 1), a tie on a zone-aware value *)
Example C17_holds_inhabited :
  in_u16 0 = true /\ in_u16 65535 = true /\ in_u16 65536 = false /\
  V.Judge.C17.judge (B"rd.rsub") [VInt 2; VTup [VInt 2016; VInt 366; VInt 86399; VInt 1750500000]; VInt 0]
    (run (B"rd.rsub") [VInt 2; VTup [VInt 2016; VInt 366; VInt 86399; VInt 1750500000]; VInt 0]) = JOk /\
  V.Judge.C17.judge (B"rd.tsub") [VInt 3; VTup [VInt 2016; VInt 366; VInt 86399; VInt 1750500000; VInt 3600]; VInt 1]
    (run (B"rd.tsub") [VInt 3; VTup [VInt 2016; VInt 366; VInt 86399; VInt 1750500000; VInt 3600]; VInt 1]) = JOk /\
  run (B"rd.rsub") [VInt 1; VTup [VInt 86399; VInt 1999999999]; VInt 65535] = VTup [VInt 86399; VInt 1999999999] /\
  V.Judge.C17.judge (B"rd.zround") [VTup [VInt 2012; VInt 347; VInt 66150; VInt 0; VInt (-3600)]; VTup [VInt 300; VInt 0]]
    (run (B"rd.zround") [VTup [VInt 2012; VInt 347; VInt 66150; VInt 0; VInt (-3600)]; VTup [VInt 300; VInt 0]]) = JOk.
Proof. exact V.Proofs.C17Holds.holds_examples. Qed.
Print Assumptions C17_holds_inhabited.
