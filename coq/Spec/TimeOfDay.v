(** Time of day as mathematics (used by the judges of C07 and later properties).
    Written from the property text and the crate documentation ("Leap Second Handling"), not from
    the code.  A reading is a pair (s, f): second of the day 0 <= s < 86400 and a nanosecond field
    0 <= f < 2*10^9; f >= 10^9 means "inside a leap second that follows second s".

    One-leap-second timeline: chrono "allows for leap seconds but behaves as if there are no other
    leap seconds".  So when an operand (s, f) has f >= 10^9, time runs on a line on which exactly one
    extra second is inserted after second s:

       second s      : positions [ s*TG     , (s+1)*TG )
       the leap second: positions [ (s+1)*TG , (s+2)*TG )      read as (s, TG + offset)
       second s+1    : positions [ (s+2)*TG , (s+3)*TG )

    The line is unbounded in both directions (seconds before midnight are negative, seconds after
    the end of the day are >= 86400); reduction modulo one day happens after reading back.  Nothing
    here is imported from the model. *)
From Coq Require Import ZArith List Bool.
Import ListNotations.
Open Scope Z_scope.

(* notations, not definitions: the numerals appear as such in every statement (no delta steps) *)
Notation TG := 1000000000 (only parsing).     (* nanoseconds per second *)
Notation TDAY := 86400 (only parsing).        (* seconds per day *)

(** ** Acceptance of the constructor forms (property text, first sentence) *)
Definition hms_ok (h m s : Z) : bool := (h <? 24) && (m <? 60) && (s <? 60).
(* the nanosecond field is below 10^9, or below 2*10^9 on second 59 *)
Definition nano_ok (sec nano : Z) : bool := (nano <? TG) || ((nano <? 2 * TG) && (sec =? 59)).
Definition accept_hms_nano (h m s nano : Z) : bool := hms_ok h m s && nano_ok s nano.
Definition accept_secs_nano (secs nano : Z) : bool := (secs <? TDAY) && nano_ok (secs mod 60) nano.
Definition secs_of_hms (h m s : Z) : Z := h * 3600 + m * 60 + s.

(** ** Fields of a reading *)
Definition hour_of (s : Z) : Z := s / 3600.
Definition minute_of (s : Z) : Z := (s / 60) mod 60.
Definition second_of (s : Z) : Z := s mod 60.
Definition state_ok (s f : Z) : bool := (0 <=? s) && (s <? TDAY) && (0 <=? f) && (f <? 2 * TG).

(** ** The timeline *)
(* position of the reading (s,f) on a line on which leap seconds are inserted after the seconds
   listed in [leaps] (a set): every inserted second strictly before second s shifts it by TG *)
Fixpoint shift_before (leaps : list Z) (s : Z) : Z :=
  match leaps with
  | [] => 0
  | l :: r => (if l <? s then 1 else 0) + shift_before r s
  end.
Definition tl_pos (leaps : list Z) (s f : Z) : Z := (s + shift_before leaps s) * TG + f.

(* reading back a position on the line with at most one inserted second (after second l):
   total seconds (not yet reduced modulo a day) and nanosecond field *)
Definition readback (leap : option Z) (p : Z) : Z * Z :=
  match leap with
  | None => (p / TG, p mod TG)
  | Some l =>
      if p <? (l + 1) * TG then (p / TG, p mod TG)                (* before the inserted second *)
      else if p <? (l + 2) * TG then (l, p - l * TG)             (* inside it: field >= 10^9 *)
      else ((p - TG) / TG, (p - TG) mod TG)                        (* after it: it has been skipped *)
  end.

Definition leap_of (s f : Z) : option Z := if f <? TG then None else Some s.
Definition leaps_of (s f : Z) : list Z := if f <? TG then [] else [s].

(* t + d : the point d nanoseconds later on the line of t, read back, then reduced modulo one day;
   result ((secs, frac), carry) where carry is the number of seconds in the whole days dropped *)
Definition tl_add (s f d : Z) : (Z * Z) * Z :=
  let '(S', F') := readback (leap_of s f) (tl_pos [] s f + d) in
  ((S' mod TDAY, F'), S' - S' mod TDAY).

(* t1 - t2 : each leap operand inserts its own second (the same second when both name it) *)
Definition diff_leaps (s1 f1 s2 f2 : Z) : list Z :=
  match leaps_of s1 f1, leaps_of s2 f2 with
  | [a], [b] => if a =? b then [a] else [a; b]
  | l1, l2 => l1 ++ l2
  end.
Definition tl_diff (s1 f1 s2 f2 : Z) : Z :=
  let L := diff_leaps s1 f1 s2 f2 in tl_pos L s1 f1 - tl_pos L s2 f2.

(* shifting the wall clock by a zone offset: whole seconds move, the fraction (leap mark) stays *)
Definition tl_shift (s f off : Z) : (Z * Z) * Z :=
  (((s + off) mod TDAY, f), (s + off) / TDAY).
