(** The documented strftime table of chrono (module docs of src/format/strftime.rs, widths "FW"
    from the docs of [Numeric] in src/format/mod.rs, offset rounding/truncation from the docs of
    [OffsetPrecision]) as an executable specification, written from the documentation only and in
    terms of spec-level quantities only: day numbers and the proleptic Gregorian / ISO-week
    functions of Spec/Gregorian.v, seconds of the day, nanoseconds, offset seconds.
    Nothing here is taken from chrono's code, tables or the model.  No proofs in this file.

    Readings fixed in DESIGN.md 5.0 / 5 C12:
    - %U / %W: number of Sundays / Mondays on or before the day within its year;
    - %y / %g: claimed for (ISO) years >= 0 only; %C = floor(year / 100), printed with a minus sign
      and no padding when negative ("-1" for year -99, note 1 of the docs);
    - %Y / %G: four digits; a sign in addition when the year is outside 0..9999;
    - %S: 60 on a leap second; %f and the %.f family: the sub-second nanoseconds, truncated;
    - %z %:z: rounded to the nearest minute; %::z exact; %:::z truncated to hours;
    - %Z: the Display text of the offset: "UTC" for Utc, "+hh:mm" for a whole-minute FixedOffset
      (no claim for offsets with seconds);
    - %s: seconds since 1970-01-01T00:00:00Z of the instant (a naive date-time is read as UTC),
      "not padded" (note 6); the documentation states no field width for %0s / %_s: no claim;
    - a padding modifier is allowed on numeric specifiers only; an unknown specifier, a modifier on
      a non-numeric or composite specifier, or a field the value does not have makes formatting
      fail. *)
From Coq Require Import ZArith List Bool String.
From V Require Import Base.Int Base.IO Spec.Gregorian.
Import ListNotations.
Open Scope Z_scope.

(** * The value being formatted, at specification level *)
Record sval := mk_sval {
  sv_dn : option Z;          (* local calendar day (day number), if the value has a date *)
  sv_sod : option Z;         (* local second of the day 0..86399, if the value has a time *)
  sv_nano : Z;               (* nanoseconds since the last whole second 0..999999999 *)
  sv_leap : bool;            (* the value is a leap second (prints second + 1) *)
  sv_off : option Z;         (* offset local - UTC in seconds, if the value has a zone *)
  sv_utc : bool;             (* the zone is `Utc` (Display "UTC") rather than a FixedOffset *)
  sv_unix : option Z         (* seconds since the epoch of the instant, if date and time present *)
}.

Definition G9 := 1000000000.

Definition date_ok (y o : Z) : bool := year_in_range y && valid_yo y o.
Definition time_ok (s f : Z) : bool := (0 <=? s) && (s <? 86400) && (0 <=? f) && (f <? 2 * G9).
Definition off_ok (off : Z) : bool := (-86400 <? off) && (off <? 86400).

(* kind 0..4 and the canonical encodings of the case protocol *)
Definition sval_of (kind : Z) (v : val) : option sval :=
  match kind, v with
  | 0, VTup [VInt y; VInt o] =>
      if date_ok y o then Some (mk_sval (Some (dn_of_yo y o)) None 0 false None false None) else None
  | 1, VTup [VInt s; VInt f] =>
      if time_ok s f then Some (mk_sval None (Some s) (f mod G9) (G9 <=? f) None false None) else None
  | 2, VTup [VInt y; VInt o; VInt s; VInt f] =>
      if date_ok y o && time_ok s f then
        let dn := dn_of_yo y o in
        Some (mk_sval (Some dn) (Some s) (f mod G9) (G9 <=? f) None false (Some (unix_secs dn s)))
      else None
  | 3, VTup [VInt y; VInt o; VInt s; VInt f; VInt off] =>
      if date_ok y o && time_ok s f && off_ok off then
        let dn := dn_of_yo y o in
        let tot := s + off in
        Some (mk_sval (Some (dn + tot / 86400)) (Some (tot mod 86400)) (f mod G9) (G9 <=? f)
                      (Some off) false (Some (unix_secs dn s)))
      else None
  | 4, VTup [VInt y; VInt o; VInt s; VInt f] =>
      if date_ok y o && time_ok s f then
        let dn := dn_of_yo y o in
        Some (mk_sval (Some dn) (Some s) (f mod G9) (G9 <=? f) (Some 0) true (Some (unix_secs dn s)))
      else None
  | _, _ => None
  end.

(** * The table *)
Inductive dpad := DNone | DZero | DSpace.

Inductive nfield :=
| NYear | NCentury | NYearMod100 | NIsoYear | NIsoYearMod100 | NQuarter | NMonth | NDay
| NWeekSun | NWeekMon | NIsoWeek | NWdaySun0 | NWdayMon1 | NOrdinal
| NHour | NHour12 | NMinute | NSecond | NNanos | NTimestamp.

Inductive tfield :=
| TMonthAbbr | TMonthFull | TWdayAbbr | TWdayFull | TAmPmLower | TAmPmUpper
| TFracAuto | TFrac (digits : Z) (dot : bool)
| TZoneName | TOff | TOffColon | TOffColonSec | TOffHours | TOffPermissive
| TIsoDateTime.

Inductive entry :=
| ENum (f : nfield) (p : dpad)
| EText (f : tfield)
| EComposite (expansion : bytes)
| ELit (s : bytes).

(* specifier text after the '%' (and after an optional padding modifier) -> entry *)
Definition doc_table : list (bytes * entry) := [
  (* date *)
  (B"Y", ENum NYear DZero); (B"C", ENum NCentury DZero); (B"y", ENum NYearMod100 DZero);
  (B"q", ENum NQuarter DNone); (B"m", ENum NMonth DZero);
  (B"b", EText TMonthAbbr); (B"B", EText TMonthFull); (B"h", EText TMonthAbbr);
  (B"d", ENum NDay DZero); (B"e", ENum NDay DSpace);
  (B"a", EText TWdayAbbr); (B"A", EText TWdayFull);
  (B"w", ENum NWdaySun0 DNone); (B"u", ENum NWdayMon1 DNone);
  (B"U", ENum NWeekSun DZero); (B"W", ENum NWeekMon DZero);
  (B"G", ENum NIsoYear DZero); (B"g", ENum NIsoYearMod100 DZero); (B"V", ENum NIsoWeek DZero);
  (B"j", ENum NOrdinal DZero);
  (B"D", EComposite B"%m/%d/%y"); (B"x", EComposite B"%m/%d/%y");
  (B"F", EComposite B"%Y-%m-%d"); (B"v", EComposite B"%e-%b-%Y");
  (* time *)
  (B"H", ENum NHour DZero); (B"k", ENum NHour DSpace);
  (B"I", ENum NHour12 DZero); (B"l", ENum NHour12 DSpace);
  (B"P", EText TAmPmLower); (B"p", EText TAmPmUpper);
  (B"M", ENum NMinute DZero); (B"S", ENum NSecond DZero); (B"f", ENum NNanos DZero);
  (B".f", EText TFracAuto);
  (B".3f", EText (TFrac 3 true)); (B".6f", EText (TFrac 6 true)); (B".9f", EText (TFrac 9 true));
  (B"3f", EText (TFrac 3 false)); (B"6f", EText (TFrac 6 false)); (B"9f", EText (TFrac 9 false));
  (B"R", EComposite B"%H:%M"); (B"T", EComposite B"%H:%M:%S"); (B"X", EComposite B"%H:%M:%S");
  (B"r", EComposite B"%I:%M:%S %p");
  (* zone *)
  (B"Z", EText TZoneName); (B"z", EText TOff); (B":z", EText TOffColon);
  (B"::z", EText TOffColonSec); (B":::z", EText TOffHours); (B"#z", EText TOffPermissive);
  (* date & time *)
  (B"c", EComposite B"%a %b %e %H:%M:%S %Y");
  (B"+", EText TIsoDateTime);
  (B"s", ENum NTimestamp DNone);
  (* special *)
  (B"t", ELit [9]); (B"n", ELit [10]); (B"%", ELit [37])
].
(* "%+: same as %Y-%m-%dT%H:%M:%S%.f%:z" (note 5) *)
Definition iso_expansion : bytes := B"%Y-%m-%dT%H:%M:%S%.f%:z".

Definition modifier (c : Z) : option dpad :=
  if c =? 45 then Some DNone else if c =? 95 then Some DSpace else if c =? 48 then Some DZero else None.

Fixpoint lookup (t : list (bytes * entry)) (s : bytes) : option (entry * bytes) :=
  match t with
  | [] => None
  | (name, e) :: r => match strip_prefix name s with Some rest => Some (e, rest) | None => lookup r s end
  end.

(** * Tokens of a format string, documentation level: text is text (no distinction between
    white space and other literal text), a specifier is its table entry with the effective padding *)
Inductive tok :=
| KText (s : bytes)
| KNum (f : nfield) (p : dpad)
| KFix (f : tfield)
| KErr.

(* [comp]: the tokens of a composite's documented expansion *)
Fixpoint toks (comp : bytes -> list tok) (fuel : nat) (s : bytes) : list tok :=
  match fuel with
  | O => []
  | S fuel' =>
    match s with
    | [] => []
    | 37 :: r =>
        let '(pad, r1) := match r with
                          | c :: r' => match modifier c with Some p => (Some p, r') | None => (None, r) end
                          | [] => (None, r) end in
        match lookup doc_table r1 with
        | None => [KErr]
        | Some (e, rest) =>
            match e, pad with
            | ENum f p, None => KNum f p :: toks comp fuel' rest
            | ENum f _, Some p => KNum f p :: toks comp fuel' rest
            | EText f, None => KFix f :: toks comp fuel' rest
            | ELit t, None => KText t :: toks comp fuel' rest
            | EComposite x, None => comp x ++ toks comp fuel' rest
            | _, Some _ => [KErr]
            end
        end
    | c :: r => KText [c] :: toks comp fuel' r
    end
  end.
(* the documented expansions contain simple specifiers only *)
Definition tokens_simple (s : bytes) : list tok := toks (fun _ => [KErr]) (S (List.length s)) s.
Definition tokens (s : bytes) : list tok := toks tokens_simple (S (List.length s)) s.

(* adjacent text merged *)
Fixpoint merge_text (l : list tok) : list tok :=
  match l with
  | KText a :: r =>
      match merge_text r with
      | KText b :: r' => KText (a ++ b) :: r'
      | r' => KText a :: r'
      end
  | x :: r => x :: merge_text r
  | [] => []
  end.
Fixpoint has_err (l : list tok) : bool :=
  match l with [] => false | KErr :: _ => true | _ :: r => has_err r end.
(* up to and including the first error *)
Fixpoint upto_err (l : list tok) : list tok :=
  match l with [] => [] | KErr :: _ => [KErr] | x :: r => x :: upto_err r end.

(** * Rendering *)
Inductive rres := ROk (s : bytes) | RFail | RSkip.

Definition digits (n : Z) : bytes := dec_nonneg n.
Definition rep (c : Z) (n : Z) : bytes := repeat c (Z.to_nat n).
Definition dlen (s : bytes) : Z := Z.of_nat (List.length s).

(* a number in a field of [w] digits; [force_sign]: the sign is mandatory and comes in addition to
   the [w] digits; otherwise a negative number is "-" followed by its digits, the sign taking one
   place of the field *)
Definition pad_num (p : dpad) (w : Z) (force_sign : bool) (v : Z) : bytes :=
  let d := digits (Z.abs v) in
  let sign := if v <? 0 then [45] else if force_sign then [43] else [] in
  let room := if force_sign then w - dlen d else w - dlen d - dlen sign in
  match p with
  | DNone => sign ++ d
  | DZero => sign ++ rep 48 room ++ d
  | DSpace => rep 32 room ++ sign ++ d
  end.

Definition month_names : list bytes := [
  B"January"; B"February"; B"March"; B"April"; B"May"; B"June"; B"July"; B"August"; B"September";
  B"October"; B"November"; B"December"].
Definition weekday_names : list bytes := (* Monday = 0 *)
  [B"Monday"; B"Tuesday"; B"Wednesday"; B"Thursday"; B"Friday"; B"Saturday"; B"Sunday"].
Definition nth_bytes (l : list bytes) (i : Z) : bytes := nth (Z.to_nat i) l [].

(* number of [first]-days (as "days since that weekday" of the given day, 0..6) on or before
   ordinal [o] within the year *)
Definition weeks_on_or_before (o since : Z) : Z :=
  let last := o - since in            (* ordinal of the latest such weekday on or before the day *)
  if last <? 1 then 0 else (last - 1) / 7 + 1.

Definition offset_text (off : Z) (colon : bool) (mode : Z) : bytes :=
  (* mode 0: hours:minutes rounded to the nearest minute, 1: hours:minutes:seconds, 2: hours only *)
  let a := Z.abs off in
  let sign := if off <? 0 then [45] else [43] in
  let two n := pad_num DZero 2 false n in
  let sep := if colon then [58] else [] in
  if mode =? 0 then let m := (a + 30) / 60 in sign ++ two (m / 60) ++ sep ++ two (m mod 60)
  else if mode =? 1 then sign ++ two (a / 3600) ++ sep ++ two (a / 60 mod 60) ++ sep ++ two (a mod 60)
  else sign ++ two (a / 3600).

Inductive fval := FV (v : Z) | FMissing | FNoClaim.

Definition num_value (v : sval) (f : nfield) : fval :=
  let on_date (g : Z -> fval) := match sv_dn v with Some dn => g dn | None => FMissing end in
  let on_time (g : Z -> fval) := match sv_sod v with Some s => g s | None => FMissing end in
  match f with
  | NYear => on_date (fun dn => FV (year_of_dn dn))
  | NCentury => on_date (fun dn => FV (year_of_dn dn / 100))
  | NYearMod100 => on_date (fun dn => let y := year_of_dn dn in if y <? 0 then FNoClaim else FV (y mod 100))
  | NIsoYear => on_date (fun dn => FV (fst (iso_of_dn dn)))
  | NIsoYearMod100 => on_date (fun dn => let y := fst (iso_of_dn dn) in if y <? 0 then FNoClaim else FV (y mod 100))
  | NQuarter => on_date (fun dn => let '(_, m, _) := ymd_of_dn dn in FV ((m - 1) / 3 + 1))
  | NMonth => on_date (fun dn => let '(_, m, _) := ymd_of_dn dn in FV m)
  | NDay => on_date (fun dn => let '(_, _, d) := ymd_of_dn dn in FV d)
  | NWeekSun => on_date (fun dn => FV (weeks_on_or_before (ordinal_of_dn dn) ((weekday_of_dn dn + 1) mod 7)))
  | NWeekMon => on_date (fun dn => FV (weeks_on_or_before (ordinal_of_dn dn) (weekday_of_dn dn)))
  | NIsoWeek => on_date (fun dn => FV (snd (iso_of_dn dn)))
  | NWdaySun0 => on_date (fun dn => FV ((weekday_of_dn dn + 1) mod 7))
  | NWdayMon1 => on_date (fun dn => FV (weekday_of_dn dn + 1))
  | NOrdinal => on_date (fun dn => FV (ordinal_of_dn dn))
  | NHour => on_time (fun s => FV (s / 3600))
  | NHour12 => on_time (fun s => let h := (s / 3600) mod 12 in FV (if h =? 0 then 12 else h))
  | NMinute => on_time (fun s => FV (s / 60 mod 60))
  | NSecond => on_time (fun s => FV (s mod 60 + (if sv_leap v then 1 else 0)))
  | NNanos => on_time (fun _ => FV (sv_nano v))
  | NTimestamp => match sv_unix v with Some t => FV t | None => FMissing end
  end.

(* documented formatting width *)
Definition num_width (f : nfield) : Z :=
  match f with
  | NYear | NIsoYear => 4
  | NOrdinal => 3
  | NNanos => 9
  | NQuarter | NWdaySun0 | NWdayMon1 | NTimestamp => 1
  | _ => 2
  end.

Definition width_documented (f : nfield) (p : dpad) : bool :=
  match f, p with NTimestamp, DZero | NTimestamp, DSpace => false | _, _ => true end.
Definition render_num (v : sval) (f : nfield) (p : dpad) : rres :=
  if negb (width_documented f p) then RSkip else
  match num_value v f with
  | FMissing => RFail
  | FNoClaim => RSkip
  | FV x =>
      let force := match f with NYear | NIsoYear => (x <? 0) || (9999 <? x) | _ => false end in
      ROk (pad_num p (num_width f) force x)
  end.

Definition frac_digits (nano n : Z) : bytes := pad_num DZero n false (nano / 10 ^ (9 - n)).

Definition render_fix (v : sval) (f : tfield) : rres :=
  let on_date (g : Z -> rres) := match sv_dn v with Some dn => g dn | None => RFail end in
  let on_time (g : Z -> rres) := match sv_sod v with Some s => g s | None => RFail end in
  let on_off (g : Z -> rres) := match sv_off v with Some o => g o | None => RFail end in
  match f with
  | TMonthAbbr => on_date (fun dn => let '(_, m, _) := ymd_of_dn dn in ROk (firstn 3 (nth_bytes month_names (m - 1))))
  | TMonthFull => on_date (fun dn => let '(_, m, _) := ymd_of_dn dn in ROk (nth_bytes month_names (m - 1)))
  | TWdayAbbr => on_date (fun dn => ROk (firstn 3 (nth_bytes weekday_names (weekday_of_dn dn))))
  | TWdayFull => on_date (fun dn => ROk (nth_bytes weekday_names (weekday_of_dn dn)))
  | TAmPmLower => on_time (fun s => ROk (if s <? 43200 then B"am" else B"pm"))
  | TAmPmUpper => on_time (fun s => ROk (if s <? 43200 then B"AM" else B"PM"))
  | TFracAuto => on_time (fun _ =>
      let n := sv_nano v in
      ROk (if n =? 0 then []
           else if n mod 1000000 =? 0 then 46 :: frac_digits n 3
           else if n mod 1000 =? 0 then 46 :: frac_digits n 6
           else 46 :: frac_digits n 9))
  | TFrac k dot => on_time (fun _ => ROk ((if dot then [46] else []) ++ frac_digits (sv_nano v) k))
  | TZoneName => on_off (fun o =>
      if sv_utc v then ROk B"UTC"
      else if o mod 60 =? 0 then ROk (offset_text o true 0) else RSkip)
  | TOff => on_off (fun o => ROk (offset_text o false 0))
  | TOffColon => on_off (fun o => ROk (offset_text o true 0))
  | TOffColonSec => on_off (fun o => ROk (offset_text o true 1))
  | TOffHours => on_off (fun o => ROk (offset_text o false 2))
  | TOffPermissive => RSkip                      (* documented as parsing only *)
  | TIsoDateTime => RSkip                        (* rendered through its expansion, see below *)
  end.

(* %+ is a single item for the item list, its text is that of the documented expansion *)
Fixpoint expand_iso (l : list tok) : list tok :=
  match l with
  | KFix TIsoDateTime :: r => tokens iso_expansion ++ expand_iso r
  | x :: r => x :: expand_iso r
  | [] => []
  end.

Definition render_tok (v : sval) (t : tok) : rres :=
  match t with
  | KText s => ROk s
  | KNum f p => render_num v f p
  | KFix f => render_fix v f
  | KErr => RFail
  end.

(* the text of a whole format string: concatenation of the item texts; fails when an item fails;
   no claim at all once an item without a claim has been met *)
Fixpoint render_all (v : sval) (l : list tok) (acc : bytes) : rres :=
  match l with
  | [] => ROk acc
  | t :: r =>
      match render_tok v t with
      | ROk s => render_all v r (acc ++ s)
      | RFail => RFail
      | RSkip => RSkip
      end
  end.
Definition doc_format (v : sval) (fmt : bytes) : rres := render_all v (expand_iso (tokens fmt)) [].

(** * Canonical codes of the items (declaration order of the public enums, as the harness prints
    them) for the item-list claim *)
Definition nfield_code (f : nfield) : Z :=
  match f with
  | NYear => 0 | NCentury => 1 | NYearMod100 => 2 | NIsoYear => 3 | NIsoYearMod100 => 5
  | NQuarter => 6 | NMonth => 7 | NDay => 8 | NWeekSun => 9 | NWeekMon => 10 | NIsoWeek => 11
  | NWdaySun0 => 12 | NWdayMon1 => 13 | NOrdinal => 14 | NHour => 15 | NHour12 => 16
  | NMinute => 17 | NSecond => 18 | NNanos => 19 | NTimestamp => 20
  end.
Definition dpad_code (p : dpad) : Z := match p with DNone => 0 | DZero => 1 | DSpace => 2 end.
Definition tfield_code (f : tfield) : Z :=
  match f with
  | TMonthAbbr => 0 | TMonthFull => 1 | TWdayAbbr => 2 | TWdayFull => 3 | TAmPmLower => 4
  | TAmPmUpper => 5 | TFracAuto => 6
  | TFrac k true => if k =? 3 then 7 else if k =? 6 then 8 else 9
  | TFrac k false => if k =? 3 then 101 else if k =? 6 then 102 else 103
  | TZoneName => 10 | TOffColon => 11 | TOffColonSec => 12 | TOffHours => 13 | TOff => 15
  | TIsoDateTime => 18 | TOffPermissive => 100
  end.

(* UTF-8 well-formedness of a format string (the case protocol only carries valid `&str`) *)
Definition contb (b : Z) : bool := (128 <=? b) && (b <? 192).
Fixpoint utf8_ok (s : bytes) : bool :=
  match s with
  | [] => true
  | b0 :: r =>
    if (0 <=? b0) && (b0 <? 128) then utf8_ok r
    else if (194 <=? b0) && (b0 <? 224) then match r with b1 :: r' => contb b1 && utf8_ok r' | _ => false end
    else if (224 <=? b0) && (b0 <? 240) then
      match r with
      | b1 :: b2 :: r' => contb b1 && contb b2 && (if b0 =? 224 then 160 <=? b1 else true)
                          && (if b0 =? 237 then b1 <? 160 else true) && utf8_ok r'
      | _ => false end
    else if (240 <=? b0) && (b0 <? 245) then
      match r with
      | b1 :: b2 :: b3 :: r' => contb b1 && contb b2 && contb b3 && (if b0 =? 240 then 144 <=? b1 else true)
                                && (if b0 =? 244 then b1 <? 144 else true) && utf8_ok r'
      | _ => false end
    else false
  end.
