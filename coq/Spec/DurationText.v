(** The text form of a duration as mathematics (impl Display for TimeDelta: "the ISO 8601 duration
    form with seconds as the only unit"), over the integer nanosecond count [n] the duration denotes.
    Written from the documentation of the crate, not from the code:

       n = 0          "P0D"
       n <> 0         sign "PT" I frac "S"
         sign         "-" when n < 0, nothing otherwise
         I            the whole seconds |n| / 10^9 in decimal, no leading zeros ("0" for zero)
         frac         nothing when |n| is a whole number of seconds, otherwise "." followed by the nine
                      decimal digits of |n| mod 10^9 with every trailing zero removed

    and a reader of that form ([read_duration_text]), which is the inverse direction: the text
    determines the count.  Only Base.IO ([bytes], [dec_nonneg]: the minimal decimal of a natural
    number) is used; nothing is imported from the model. *)
From Coq Require Import ZArith List Bool.
From V Require Import Base.IO.
Import ListNotations.
Open Scope Z_scope.

Notation DT_G := 1000000000 (only parsing).

(* the k lowest decimal digits of n, most significant first (leading zeros kept) *)
Fixpoint fixed_digits (k : nat) (n : Z) : bytes :=
  match k with O => [] | S k' => fixed_digits k' (n / 10) ++ [48 + n mod 10] end.
(* removal of the zeros at the end of a digit string *)
Fixpoint drop_zeros (l : bytes) : bytes := match l with 48 :: r => drop_zeros r | _ => l end.
Definition trim_zeros (l : bytes) : bytes := rev (drop_zeros (rev l)).

Definition frac_text (r : Z) : bytes :=
  if r =? 0 then [] else 46 :: trim_zeros (fixed_digits 9 r).
Definition duration_text (n : Z) : bytes :=
  let a := Z.abs n in
  (if n <? 0 then [45] else []) ++
  (if a =? 0 then [80; 48; 68]                                        (* P0D *)
   else [80; 84] ++ dec_nonneg (a / DT_G) ++ frac_text (a mod DT_G) ++ [83]).   (* PT..S *)

(** the reader *)
Definition is_dig (c : Z) : bool := (48 <=? c) && (c <=? 57).
Fixpoint take_digits (s : bytes) : bytes * bytes :=
  match s with
  | c :: r => if is_dig c then let '(d, t) := take_digits r in (c :: d, t) else ([], s)
  | [] => ([], [])
  end.
Fixpoint digits_val (ds : bytes) (acc : Z) : Z :=
  match ds with [] => acc | c :: r => digits_val r (acc * 10 + (c - 48)) end.

Definition read_unsigned (s : bytes) : option Z :=
  match s with
  | [80; 48; 68] => Some 0
  | 80 :: 84 :: r =>
      let '(i, r1) := take_digits r in
      match i, r1 with
      | [], _ => None
      | _, [83] => Some (digits_val i 0 * DT_G)
      | _, 46 :: r2 =>
          let '(f, r3) := take_digits r2 in
          match f, r3 with
          | [], _ => None
          | _, [83] => if (Z.of_nat (List.length f) <=? 9)
                       then Some (digits_val i 0 * DT_G + digits_val f 0 * 10 ^ (9 - Z.of_nat (List.length f)))
                       else None
          | _, _ => None
          end
      | _, _ => None
      end
  | _ => None
  end.
Definition read_duration_text (s : bytes) : option Z :=
  match s with
  | 45 :: r => option_map Z.opp (read_unsigned r)
  | _ => read_unsigned s
  end.
