(** Proleptic Gregorian calendar as plain mathematics over [Z]: written from the leap rule, the
    month lengths and ISO 8601's week rule only.  Nothing here is taken from chrono's code or
    tables; judges (Judge/*.v) use these functions as the oracle, and theorems relate the model to
    them.  Executable (extracted into the judges).  No proofs in this file: the internal
    consistency lemmas (round trips, periodicity) are in Proofs/Gregorian.v.

    Day numbers: [dn] = days since 0000-12-31, i.e. 0001-01-01 has dn 1 (chrono's "days from CE").
    Weekdays: Monday = 0 ... Sunday = 6. *)
From Coq Require Import ZArith List Bool.
Import ListNotations.
Open Scope Z_scope.

Definition is_leap (y : Z) : bool :=
  ((y mod 4 =? 0) && negb (y mod 100 =? 0)) || (y mod 400 =? 0).

Definition days_in_year (y : Z) : Z := if is_leap y then 366 else 365.

Definition days_in_month (leap : bool) (m : Z) : Z :=
  if m =? 2 then (if leap then 29 else 28)
  else if (m =? 4) || (m =? 6) || (m =? 9) || (m =? 11) then 30
  else 31.

(** days of the year before month [m] (1..13; 13 gives the year length) *)
Definition cum_days (leap : bool) (m : Z) : Z :=
  let l := if leap then 1 else 0 in
  if m <=? 1 then 0 else
  if m =? 2 then 31 else
  if m =? 3 then 59 + l else
  if m =? 4 then 90 + l else
  if m =? 5 then 120 + l else
  if m =? 6 then 151 + l else
  if m =? 7 then 181 + l else
  if m =? 8 then 212 + l else
  if m =? 9 then 243 + l else
  if m =? 10 then 273 + l else
  if m =? 11 then 304 + l else
  if m =? 12 then 334 + l else 365 + l.

(** day number of 31 December of year [y-1] (floor divisions: correct for y <= 0 too) *)
Definition days_before_year (y : Z) : Z :=
  let p := y - 1 in 365 * p + p / 4 - p / 100 + p / 400.

Definition valid_ymd (y m d : Z) : bool :=
  (1 <=? m) && (m <=? 12) && (1 <=? d) && (d <=? days_in_month (is_leap y) m).
Definition valid_yo (y o : Z) : bool := (1 <=? o) && (o <=? days_in_year y).

Definition ordinal_of_md (leap : bool) (m d : Z) : Z := cum_days leap m + d.
Definition dn_of_yo (y o : Z) : Z := days_before_year y + o.
Definition dn_of_ymd (y m d : Z) : Z := dn_of_yo y (ordinal_of_md (is_leap y) m d).

(** month of an ordinal: the largest m with cum_days m < o *)
Definition month_of_ordinal (leap : bool) (o : Z) : Z :=
  if o <=? cum_days leap 2 then 1 else
  if o <=? cum_days leap 3 then 2 else
  if o <=? cum_days leap 4 then 3 else
  if o <=? cum_days leap 5 then 4 else
  if o <=? cum_days leap 6 then 5 else
  if o <=? cum_days leap 7 then 6 else
  if o <=? cum_days leap 8 then 7 else
  if o <=? cum_days leap 9 then 8 else
  if o <=? cum_days leap 10 then 9 else
  if o <=? cum_days leap 11 then 10 else
  if o <=? cum_days leap 12 then 11 else 12.
Definition md_of_ordinal (leap : bool) (o : Z) : Z * Z :=
  let m := month_of_ordinal leap o in (m, o - cum_days leap m).

(** year and ordinal of a day number (400/100/4/1-year cycles) *)
Definition yo_of_dn (n : Z) : Z * Z :=
  let n0 := n - 1 in
  let q400 := n0 / 146097 in
  let r := n0 mod 146097 in
  let c := Z.min (r / 36524) 3 in
  let r2 := r - c * 36524 in
  let q4 := r2 / 1461 in
  let r3 := r2 mod 1461 in
  let y1 := Z.min (r3 / 365) 3 in
  (400 * q400 + 100 * c + 4 * q4 + y1 + 1, r3 - 365 * y1 + 1).
Definition year_of_dn (n : Z) : Z := fst (yo_of_dn n).
Definition ordinal_of_dn (n : Z) : Z := snd (yo_of_dn n).
Definition ymd_of_dn (n : Z) : Z * Z * Z :=
  let '(y, o) := yo_of_dn n in let '(m, d) := md_of_ordinal (is_leap y) o in (y, m, d).

(** weekday, Monday = 0: 0001-01-01 (dn 1) is a Monday *)
Definition weekday_of_dn (n : Z) : Z := (n - 1) mod 7.

(** ISO 8601 week date: the week's Thursday decides the year; week 1 contains 4 January. *)
Definition iso_of_dn (n : Z) : Z * Z :=
  let th := n - weekday_of_dn n + 3 in
  let '(y, o) := yo_of_dn th in (y, (o - 1) / 7 + 1).
(** Monday of ISO week 1 of ISO year y *)
Definition iso_week1_monday (y : Z) : Z :=
  let jan4 := dn_of_ymd y 1 4 in jan4 - weekday_of_dn jan4.
Definition iso_weeks_in_year (y : Z) : Z := (iso_week1_monday (y + 1) - iso_week1_monday y) / 7.
Definition valid_isoywd (y w wd : Z) : bool :=
  (1 <=? w) && (w <=? iso_weeks_in_year y) && (0 <=? wd) && (wd <=? 6).
Definition dn_of_isoywd (y w wd : Z) : Z := iso_week1_monday y + 7 * (w - 1) + wd.

(** chrono's supported range (documented: years -262143 ..= 262142) *)
Definition MIN_YEAR := -262143.
Definition MAX_YEAR := 262142.
Definition DN_MIN := Eval compute in dn_of_ymd MIN_YEAR 1 1.
Definition DN_MAX := Eval compute in dn_of_ymd MAX_YEAR 12 31.
Definition year_in_range (y : Z) : bool := (MIN_YEAR <=? y) && (y <=? MAX_YEAR).
Definition dn_in_range (n : Z) : bool := (DN_MIN <=? n) && (n <=? DN_MAX).

(** Unix epoch: 1970-01-01 *)
Definition EPOCH_DN := Eval compute in dn_of_ymd 1970 1 1.
(** seconds since the epoch of second-of-day [s] on day [n] (no leap seconds) *)
Definition unix_secs (n s : Z) : Z := (n - EPOCH_DN) * 86400 + s.
(** nanoseconds since the epoch *)
Definition unix_nanos (n s f : Z) : Z := unix_secs n s * 1000000000 + f.
Definition NS_MIN := Eval compute in unix_nanos DN_MIN 0 0.
Definition NS_MAX := Eval compute in unix_nanos DN_MAX 86399 999999999.
(** inverse: day number, second of day, nanosecond of an instant in ns *)
Definition dn_of_nanos (t : Z) : Z := t / 86400000000000 + EPOCH_DN.
Definition sod_of_nanos (t : Z) : Z := (t mod 86400000000000) / 1000000000.
Definition frac_of_nanos (t : Z) : Z := t mod 1000000000.
