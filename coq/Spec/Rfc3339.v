(** The RFC 3339 [date-time] grammar (RFC 3339 section 5.6) with the latitude chrono documents for
    [DateTime::parse_from_rfc3339] -- 'T', 't' or a space between date and time; 'Z' or 'z'; any
    number (at least one) of fraction digits; U+2212 MINUS SIGN accepted as the minus of the
    numeric offset -- written as
      * a generator [render : fields -> bytes] with a syntactic well-formedness predicate
        ([G3339 f s  :=  wf f /\ s = render f]),
      * an executable recogniser [recognise : bytes -> option fields],
      * the semantic validity of the fields ([valid]: existing proleptic Gregorian date, hour < 24,
        minute < 60, second <= 60 where :60 is the leap-second representation, |offset| <= 23:59),
      * the denotation [denote]: the UTC reading (year, ordinal, second of day, nanosecond field
        with 10^9 added for a leap second) and the offset in seconds.
    Everything here is written from the RFC text, the crate documentation and Spec/Gregorian.v;
    nothing comes from chrono's code.  Used by Judge/C10.v; Proofs/C10.v relates the model to it.
    No proofs in this file (recogniser/generator agreement is proved in Proofs/C10.v). *)
From Coq Require Import ZArith List Bool.
From V Require Import Base.IO Spec.Gregorian.
Import ListNotations.
Open Scope Z_scope.

(** numeric offset sign: 0 = '+', 1 = '-' (HYPHEN-MINUS), 2 = U+2212 (MINUS SIGN, UTF-8 E2 88 92) *)
Inductive zone :=
| Zulu (c : Z)                       (* the byte written: 'Z' or 'z' *)
| Numeric (sign : Z) (hh mm : Z).

Record fields := mk_fields {
  f_year : Z; f_month : Z; f_day : Z;
  f_sep : Z;                         (* the byte between date and time *)
  f_hour : Z; f_minute : Z; f_second : Z;
  f_frac : list Z;                   (* digit values after '.', [] = no time-secfrac *)
  f_zone : zone }.

(** * Generator *)
Definition dig (n : Z) : Z := 48 + n.
Definition two (n : Z) : bytes := [dig (n / 10); dig (n mod 10)].
Definition four (n : Z) : bytes := [dig (n / 1000); dig (n / 100 mod 10); dig (n / 10 mod 10); dig (n mod 10)].
Definition render_sign (sg : Z) : bytes :=
  if sg =? 0 then [43] else if sg =? 1 then [45] else [226; 136; 146].
Definition render_zone (z : zone) : bytes :=
  match z with
  | Zulu c => [c]
  | Numeric sg hh mm => render_sign sg ++ two hh ++ [58] ++ two mm
  end.
Definition render_frac (ds : list Z) : bytes :=
  match ds with [] => [] | _ => 46 :: map dig ds end.
Definition render (f : fields) : bytes :=
  four (f_year f) ++ [45] ++ two (f_month f) ++ [45] ++ two (f_day f) ++ [f_sep f]
  ++ two (f_hour f) ++ [58] ++ two (f_minute f) ++ [58] ++ two (f_second f)
  ++ render_frac (f_frac f) ++ render_zone (f_zone f).

Definition is_dig (d : Z) : bool := (0 <=? d) && (d <=? 9).
Definition is2 (n : Z) : bool := (0 <=? n) && (n <=? 99).
Definition wf_zone (z : zone) : bool :=
  match z with
  | Zulu c => (c =? 90) || (c =? 122)
  | Numeric sg hh mm => (0 <=? sg) && (sg <=? 2) && is2 hh && is2 mm
  end.
(** syntactic well-formedness: every field fits its digit count *)
Definition wf (f : fields) : bool :=
  (0 <=? f_year f) && (f_year f <=? 9999) && is2 (f_month f) && is2 (f_day f)
  && ((f_sep f =? 84) || (f_sep f =? 116) || (f_sep f =? 32))
  && is2 (f_hour f) && is2 (f_minute f) && is2 (f_second f)
  && forallb is_dig (f_frac f) && wf_zone (f_zone f).
Definition G3339 (f : fields) (s : bytes) : Prop := wf f = true /\ s = render f.
(** the shapes of RFC 3339 proper, without chrono's reading latitude: "T" or "Z" (ABNF literals are
    case-insensitive, so "t"/"z" too; section 5.6 recommends upper case), ASCII sign, no space: what
    a writer may produce *)
Definition strict (f : fields) : bool :=
  ((f_sep f =? 84) || (f_sep f =? 116)) &&
  match f_zone f with Zulu _ => true | Numeric sg _ _ => (sg =? 0) || (sg =? 1) end.

(** * Recogniser *)
Definition digv (c : Z) : option Z := if is_digit c then Some (c - 48) else None.
Definition take2 (s : bytes) : option (Z * bytes) :=
  match s with
  | a :: b :: r => match digv a, digv b with Some x, Some y => Some (10 * x + y, r) | _, _ => None end
  | _ => None
  end.
Definition take4 (s : bytes) : option (Z * bytes) :=
  match take2 s with
  | Some (hi, r) => match take2 r with Some (lo, r') => Some (100 * hi + lo, r') | None => None end
  | None => None
  end.
(** the longest run of digits at the head of [s] (as digit values) and what follows it *)
Fixpoint take_digits (s : bytes) : list Z * bytes :=
  match s with
  | c :: r => if is_digit c then let '(ds, r') := take_digits r in ((c - 48) :: ds, r') else ([], s)
  | [] => ([], [])
  end.
Definition expect (c : Z) (s : bytes) : option bytes :=
  match s with x :: r => if x =? c then Some r else None | [] => None end.

Definition obind {X Y} (x : option X) (f : X -> option Y) : option Y :=
  match x with Some a => f a | None => None end.
(** numeric offset after its sign: hh ":" mm *)
Definition rec_numeric (sg : Z) (s : bytes) : option (zone * bytes) :=
  obind (take2 s) (fun '(hh, s) =>
  obind (expect 58 s) (fun s =>
  obind (take2 s) (fun '(mm, s) => Some (Numeric sg hh mm, s)))).
(** time-offset at the head of [s]: "Z" / "z" / ("+" / "-" / U+2212) hh ":" mm *)
Definition rec_zone (s : bytes) : option (zone * bytes) :=
  match s with
  | [] => None
  | c :: r =>
    if (c =? 90) || (c =? 122) then Some (Zulu c, r)
    else if c =? 43 then rec_numeric 0 r
    else if c =? 45 then rec_numeric 1 r
    else match r with
         | c2 :: c3 :: r' => if (c =? 226) && (c2 =? 136) && (c3 =? 146) then rec_numeric 2 r' else None
         | _ => None
         end
  end.
(** optional time-secfrac at the head of [s]: "." 1*DIGIT *)
Definition rec_frac (s : bytes) : option (list Z * bytes) :=
  match s with
  | c :: r =>
      if c =? 46 then match take_digits r with ([], _) => None | (ds, r') => Some (ds, r') end
      else Some ([], s)
  | [] => Some ([], s)
  end.
Definition is_sep (c : Z) : bool := (c =? 84) || (c =? 116) || (c =? 32).

(** date-time = full-date sep partial-time time-offset at the head of [s], and what follows it *)
Definition recognise_prefix (s : bytes) : option (fields * bytes) :=
  obind (take4 s) (fun '(y, s) =>
  obind (expect 45 s) (fun s =>
  obind (take2 s) (fun '(mo, s) =>
  obind (expect 45 s) (fun s =>
  obind (take2 s) (fun '(d, s) =>
  match s with
  | [] => None
  | sep :: s =>
    if negb (is_sep sep) then None else
    obind (take2 s) (fun '(h, s) =>
    obind (expect 58 s) (fun s =>
    obind (take2 s) (fun '(mi, s) =>
    obind (expect 58 s) (fun s =>
    obind (take2 s) (fun '(sec, s) =>
    obind (rec_frac s) (fun '(fr, s) =>
    obind (rec_zone s) (fun '(z, s) =>
    Some (mk_fields y mo d sep h mi sec fr z, s))))))))
  end))))).
(** the whole string is a date-time: nothing may follow *)
Definition recognise (s : bytes) : option fields :=
  match recognise_prefix s with
  | Some (f, []) => Some f
  | _ => None
  end.

(** * Semantic validity and denotation *)
Definition zone_offset (z : zone) : Z :=
  match z with
  | Zulu _ => 0
  | Numeric sg hh mm => (if sg =? 0 then 1 else -1) * (hh * 3600 + mm * 60)
  end.
Definition valid_zone (z : zone) : bool :=
  match z with Zulu _ => true | Numeric _ hh mm => (hh <=? 23) && (mm <=? 59) end.
Definition valid (f : fields) : bool :=
  valid_ymd (f_year f) (f_month f) (f_day f)
  && (f_hour f <=? 23) && (f_minute f <=? 59) && (f_second f <=? 60)
  && valid_zone (f_zone f).

(** nanoseconds denoted by the fraction digits: the first nine count, the rest is dropped *)
Fixpoint frac_value (ds : list Z) (k : nat) {struct k} : Z :=
  match k with
  | O => 0
  | S k' => match ds with [] => 0 | d :: r => d * 10 ^ Z.of_nat k' + frac_value r k' end
  end.
Definition frac_nanos (ds : list Z) : Z := frac_value ds 9.

(** A date-time value: (year, ordinal, second of day, nanosecond field, offset seconds) of the
    UTC reading; the leap second hh:mm:60 is second 59 with 10^9 added to the nanosecond field. *)
Definition denote (f : fields) : Z * Z * Z * Z * Z :=
  let off := zone_offset (f_zone f) in
  let leap := f_second f =? 60 in
  let lsecs := f_hour f * 3600 + f_minute f * 60 + (if leap then 59 else f_second f) in
  let ldn := dn_of_ymd (f_year f) (f_month f) (f_day f) in
  let t := lsecs - off in
  let '(y, o) := yo_of_dn (ldn + t / 86400) in
  (y, o, t mod 86400, frac_nanos (f_frac f) + (if leap then 1000000000 else 0), off).

(** what a conforming strict reader returns for [s]: the denoted value, or nothing *)
Definition accepts (s : bytes) : option (Z * Z * Z * Z * Z) :=
  match recognise s with
  | Some f => if valid f then Some (denote f) else None
  | None => None
  end.

(** * The wall-clock reading of a value, for the writer claim *)
(** local (wall-clock) day number and second of day of the value (y, o, secs, _, off) *)
Definition wall_dn (y o secs off : Z) : Z := dn_of_yo y o + (secs + off) / 86400.
Definition wall_secs (secs off : Z) : Z := (secs + off) mod 86400.
(** number of fraction digits printed for a sub-second value [sub] (0 <= sub < 10^9) under the five
    precision options: 0 Secs, 1 Millis, 2 Micros, 3 Nanos, 4 AutoSi (fewest of 0/3/6/9 that show
    every non-zero digit) *)
Definition frac_digits (secform sub : Z) : Z :=
  if secform =? 0 then 0 else if secform =? 1 then 3 else if secform =? 2 then 6
  else if secform =? 3 then 9
  else if sub =? 0 then 0 else if sub mod 1000000 =? 0 then 3 else if sub mod 1000 =? 0 then 6 else 9.
(** the [n] fraction digits of [sub], truncated *)
Fixpoint digits_of (n : nat) (v : Z) : list Z :=
  match n with O => [] | S n' => digits_of n' (v / 10) ++ [v mod 10] end.
Definition frac_shown (nd sub : Z) : list Z := digits_of (Z.to_nat nd) (sub / 10 ^ (9 - nd)).
(** the fields a conforming writer shows for the value (y, o, secs, frac, off) *)
Definition fields_of (y o secs frac off secform : Z) (use_z : bool) : fields :=
  let ls := wall_secs secs off in
  let '(ly, lo) := yo_of_dn (wall_dn y o secs off) in
  let '(lm, ld) := md_of_ordinal (is_leap ly) lo in
  let leap := 1000000000 <=? frac in
  let sub := if leap then frac - 1000000000 else frac in
  let nd := frac_digits secform sub in
  mk_fields ly lm ld 84 (ls / 3600) (ls / 60 mod 60) (ls mod 60 + (if leap then 1 else 0))
    (frac_shown nd sub)
    (if use_z && (off =? 0) then Zulu 90
     else Numeric (if off <? 0 then 1 else 0) (Z.abs off / 3600) (Z.abs off / 60 mod 60)).

(** the nanosecond field of a value after truncation to the printed precision (the leap-second
    flag, 10^9, is kept) *)
Definition truncated_frac (secform frac : Z) : Z :=
  let leap := 1000000000 <=? frac in
  let sub := if leap then frac - 1000000000 else frac in
  let unit := 10 ^ (9 - frac_digits secform sub) in
  sub / unit * unit + (if leap then 1000000000 else 0).
