(** What a time zone *means*, as plain mathematics (RFC 8536 + POSIX TZ rules): an offset function
    of the instant, the wall-clock map w(t) = t + off(t), and for a wall time l the set
    S(l) = { t | w(t) = l }.  Written from the standards and the property text only; nothing is taken
    from chrono's lookup code.  Calendar arithmetic comes from Spec/Gregorian.v.  Executable
    (extracted into the judges of C05/C16/C18).  Instants and wall times are whole seconds since
    the Unix epoch.  Offsets are seconds east of UTC. *)
From Coq Require Import ZArith List Bool.
From V Require Import Spec.Gregorian.
Import ListNotations.
Open Scope Z_scope.

(** a POSIX rule day *)
Inductive rday :=
| RJulian1 (n : Z)              (* Jn, 1..365, 29 February never counted *)
| RJulian0 (n : Z)              (* n, 0..365, leap days counted *)
| RMonthWeek (m w d : Z).       (* Mm.w.d, d: 0 = Sunday, w = 5: last *)

Record srule := mk_srule {
  r_std : Z; r_dst : Z;                       (* offsets *)
  r_start : rday; r_start_time : Z;           (* local standard time *)
  r_end : rday; r_end_time : Z }.             (* local daylight time *)

Record szone := mk_szone {
  z_first : Z;                                (* offset before the first transition (type 0) *)
  z_trans : list (Z * Z);                     (* (instant, offset from then on), strictly increasing *)
  z_rule : option (Z + srule) }.              (* footer: inl fixed offset | inr alternating rule *)

(** day number of a rule day in year y *)
Definition rday_dn (y : Z) (r : rday) : Z :=
  match r with
  | RJulian1 n => let '(m, d) := md_of_ordinal false n in dn_of_ymd y m d
  | RJulian0 n => dn_of_yo y (n + 1)
  | RMonthWeek m w d =>
      let first := dn_of_ymd y m 1 in
      let sun_wd := (weekday_of_dn first + 1) mod 7 in
      let firstd := first + (d - sun_wd) mod 7 in
      let cand := firstd + 7 * (w - 1) in
      let last := first + days_in_month (is_leap y) m - 1 in
      if last <? cand then cand - 7 else cand
  end.

(** UTC instants at which daylight time starts / ends in year y *)
Definition rule_start_utc (r : srule) (y : Z) : Z :=
  (rday_dn y (r_start r) - EPOCH_DN) * 86400 + r_start_time r - r_std r.
Definition rule_end_utc (r : srule) (y : Z) : Z :=
  (rday_dn y (r_end r) - EPOCH_DN) * 86400 + r_end_time r - r_dst r.
(** the daylight interval that starts in year y: up to the first end after its start *)
Definition dst_interval (r : srule) (y : Z) : Z * Z :=
  let s := rule_start_utc r y in
  let e := rule_end_utc r y in
  (s, if s <? e then e else rule_end_utc r (y + 1)).
Definition in_interval (t : Z) (i : Z * Z) : bool := (fst i <=? t) && (t <? snd i).
Definition utc_year (t : Z) : Z := year_of_dn (t / 86400 + EPOCH_DN).
Definition rule_is_dst (r : srule) (t : Z) : bool :=
  let y := utc_year t in
  in_interval t (dst_interval r (y - 2)) || in_interval t (dst_interval r (y - 1))
  || in_interval t (dst_interval r y) || in_interval t (dst_interval r (y + 1)).
Definition rule_off (r : Z + srule) (t : Z) : Z :=
  match r with inl o => o | inr a => if rule_is_dst a t then r_dst a else r_std a end.

(** offset of the last transition at or before t *)
Fixpoint table_off (tr : list (Z * Z)) (cur t : Z) : Z :=
  match tr with
  | [] => cur
  | (ti, o) :: rest => if ti <=? t then table_off rest o t else cur
  end.
Definition last_trans (tr : list (Z * Z)) : option Z :=
  match rev tr with (ti, _) :: _ => Some ti | [] => None end.

(** the prescribed offset at instant t; [None] = the standards give no single answer (t equal to
    the last transition instant when a footer is present: table and footer both apply) *)
Definition zone_off (z : szone) (t : Z) : option Z :=
  match last_trans (z_trans z), z_rule z with
  | None, Some r => Some (rule_off r t)
  | None, None => Some (z_first z)
  | Some tl, Some r =>
      if tl <? t then Some (rule_off r t)
      else if t =? tl then
        (let a := table_off (z_trans z) (z_first z) t in if a =? rule_off r t then Some a else None)
      else Some (table_off (z_trans z) (z_first z) t)
  | Some _, None => Some (table_off (z_trans z) (z_first z) t)
  end.

(** every offset the zone can ever be at *)
Fixpoint dedup (l : list Z) : list Z :=
  match l with [] => [] | a :: r => if existsb (Z.eqb a) r then dedup r else a :: dedup r end.
Definition zone_offsets (z : szone) : list Z :=
  dedup (z_first z :: map snd (z_trans z) ++
         match z_rule z with None => [] | Some (inl o) => [o] | Some (inr a) => [r_std a; r_dst a] end).

(** insertion sort (tiny lists) *)
Fixpoint insert_z (x : Z) (l : list Z) : list Z :=
  match l with [] => [x] | a :: r => if x <=? a then x :: l else a :: insert_z x r end.
Definition sort_z (l : list Z) : list Z := fold_right insert_z [] l.

(** S(l): the instants whose wall clock reads l, ascending.  t = l - o for an offset o the zone
    uses, and the zone is at offset o at that instant. *)
Definition instants_of_wall_among (offs : list Z) (z : szone) (l : Z) : list Z :=
  sort_z (dedup (flat_map (fun o => match zone_off z (l - o) with
                                    | Some o' => if o' =? o then [l - o] else []
                                    | None => [] end) offs)).
Definition instants_of_wall (z : szone) (l : Z) : list Z :=
  instants_of_wall_among (zone_offsets z) z l.

(** the wall-clock seconds about which the property makes no claim: the second that ends a skipped
    or repeated interval (T + max(before, after)) and the first second of a skipped interval
    (T + before when after > before; "strictly inside" excludes it).  A transition that leaves the
    offset unchanged (abbreviation / DST flag only) skips and repeats nothing: no second is
    excepted there (the property names these transitions explicitly). *)
Fixpoint excepted_table (tr : list (Z * Z)) (cur l : Z) : bool :=
  match tr with
  | [] => false
  | (ti, o) :: rest =>
      (negb (cur =? o) && (l =? ti + Z.max cur o)) || ((cur <? o) && (l =? ti + cur))
      || excepted_table rest o l
  end.
Definition excepted_rule (r : Z + srule) (l : Z) : bool :=
  match r with
  | inl _ => false
  | inr a =>
      let y := utc_year l in
      existsb (fun yy =>
        let s := rule_start_utc a yy in let e := rule_end_utc a yy in
        (* start: std -> dst ; end: dst -> std *)
        negb (r_std a =? r_dst a) &&
        ((l =? s + Z.max (r_std a) (r_dst a)) || ((r_std a <? r_dst a) && (l =? s + r_std a)) ||
         (l =? e + Z.max (r_std a) (r_dst a)) || ((r_dst a <? r_std a) && (l =? e + r_dst a))))
        [y - 2; y - 1; y; y + 1; y + 2]
  end.
Definition excepted_wall (z : szone) (l : Z) : bool :=
  excepted_table (z_trans z) (z_first z) l ||
  match z_rule z with Some r => excepted_rule r l | None => false end.

(** ** Well-formedness and spacing of a transition table (decidable; used by the judges to
    delimit domains and by the theorems as hypotheses) *)
Fixpoint increasing (l : list (Z * Z)) : bool :=
  match l with
  | (a, _) :: (((b, _) :: _) as r) => (a <? b) && increasing r
  | _ => true
  end.

(** the spacing condition: the wall-clock windows of the transitions,
    [T + min(before, after), T + max(before, after)], are pairwise disjoint and in the order of
    the transitions (transitions are further apart than the offsets change) *)
Fixpoint windows (tr : list (Z * Z)) (cur : Z) : list (Z * Z) :=
  match tr with
  | [] => []
  | (t, o) :: rest => (t + Z.min cur o, t + Z.max cur o) :: windows rest o
  end.
Fixpoint ordered (ws : list (Z * Z)) : bool :=
  match ws with
  | (_, hi) :: (((lo, _) :: _) as rest) => (hi <? lo) && ordered rest
  | _ => true
  end.
Definition spacing_table (tr : list (Z * Z)) (cur : Z) : bool := ordered (windows tr cur).

(** ** The property's premise on POSIX rules, for year y: both rule transitions, read on either
    clock, lie more than one day inside the calendar year; and they are two different instants *)
Definition year_start (y : Z) : Z := (dn_of_ymd y 1 1 - EPOCH_DN) * 86400.
Definition premise_year (a : srule) (y : Z) : bool :=
  let lo := year_start y + 86400 in
  let hi := year_start (y + 1) - 86400 in
  let s := rule_start_utc a y in
  let e := rule_end_utc a y in
  forallb (fun l => (lo <? l) && (l <? hi)) [s + r_std a; s + r_dst a; e + r_std a; e + r_dst a]
  && negb (s =? e).
