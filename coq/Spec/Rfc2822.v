(** The RFC 2822 [date-time] syntax (RFC 2822 sections 3.3 and 4.3) in the extent property C11
    claims it: optional day of week, day of 1-2 digits, month name, year of 2, 3 or 4+ digits,
    hour ":" minute [":" second], a zone, trailing comments; a run of folding white space wherever
    the standard form "Www, D Mon YYYY HH:MM:SS +hhmm" has a space (optional before the first token
    and after the comma, as in section 3.3) and, optionally, on either side of the colons of the
    time of day (the obsolete obs-hour / obs-minute / obs-second of section 4.3, shown in the
    obsolete-date example of appendix A.5, to which the crate documentation of
    DateTime::parse_from_rfc2822 refers for the obsolete forms it supports); names in any mixture
    of cases (ABNF literals are case-insensitive); written as
      * an executable recogniser [recognise : bytes -> option fields] (the generator grammar: the
        strings it accepts are exactly the renderings of field records, see Proofs/C11.v),
      * the semantic validity of the fields ([valid]: existing proleptic Gregorian date, hour < 24,
        minute < 60, second <= 60 where :60 is the leap-second representation, zone minutes < 60),
      * the year-length rule of section 4.3 ([year_of]: 2 digits 00-49 -> 20xx, 50-99 -> 19xx,
        3 digits -> + 1900, 4 or more digits -> as written),
      * the zone table of section 4.3 ([zone_offset]: UT GMT Z = +0000, EST..PDT their hours,
        military letters = -0000, i.e. offset 0),
      * comments: balanced parentheses with backslash escapes ([ccontent], [comment_rest]),
      * the denotation [denote]: the UTC reading (year, ordinal, second of day, nanosecond field =
        10^9 for a leap second, else 0) and the offset in seconds,
      * the standard form a writer must produce ([standard_text]).
    Everything here is written from the RFC text, the crate documentation and Spec/Gregorian.v;
    nothing comes from chrono's code.  Used by Judge/C11.v; Proofs/C11.v relates the model to it.
    No proofs in this file. *)
From Coq Require Import ZArith List Bool String.
From V Require Import Base.IO Spec.Gregorian.
Import ListNotations.
Open Scope Z_scope.

(** * Fields *)
Inductive zone :=
| ZNum (neg : bool) (hh mm : Z)      (* ("+" / "-") 4DIGIT *)
| ZName (hours : Z)                  (* UT GMT EST EDT CST CDT MST MDT PST PDT: hours east *)
| ZMil.                              (* single letter A-I, K-Z (either case) *)

Record fields := mk_fields {
  f_wd : option Z;                   (* day of week written: Monday = 0 .. Sunday = 6 *)
  f_day : Z;
  f_month : Z;                       (* 1..12 *)
  f_ylen : Z;                        (* number of year digits written *)
  f_yval : Z;                        (* value of the year digits *)
  f_hour : Z; f_minute : Z;
  f_second : option Z;               (* None = seconds omitted *)
  f_zone : zone }.

(** * Lexical classes *)
Definition is_wsp (c : Z) : bool := (c =? 32) || (c =? 9).
Definition is_alpha (c : Z) : bool := ((65 <=? c) && (c <=? 90)) || ((97 <=? c) && (c <=? 122)).
Definition lower (c : Z) : Z := if (65 <=? c) && (c <=? 90) then c + 32 else c.
(** folding white space: a run of SP / HTAB / (CR LF followed by SP or HTAB); returns whether
    the run is non-empty and what follows it *)
Fixpoint skip_fws (s : bytes) : bool * bytes :=
  match s with
  | c :: r =>
      if is_wsp c then (true, snd (skip_fws r)) else
      match r with
      | c2 :: c3 :: r' =>
          if (c =? 13) && (c2 =? 10) && is_wsp c3 then (true, snd (skip_fws r')) else (false, s)
      | _ => (false, s)
      end
  | [] => (false, [])
  end.
(** mandatory / optional white space *)
Definition ws1 (s : bytes) : option bytes := let '(b, r) := skip_fws s in if b then Some r else None.
Definition ws0 (s : bytes) : bytes := snd (skip_fws s).

Definition obind {X Y} (x : option X) (f : X -> option Y) : option Y :=
  match x with Some a => f a | None => None end.
Definition expect (c : Z) (s : bytes) : option bytes :=
  match s with x :: r => if x =? c then Some r else None | [] => None end.

(** the longest run of digits at the head of [s] (digit values) and what follows *)
Fixpoint take_digits (s : bytes) : list Z * bytes :=
  match s with
  | c :: r => if is_digit c then let '(ds, r') := take_digits r in ((c - 48) :: ds, r') else ([], s)
  | [] => ([], [])
  end.
Fixpoint value_of (ds : list Z) (acc : Z) : Z :=
  match ds with [] => acc | d :: r => value_of r (acc * 10 + d) end.
Definition take2 (s : bytes) : option (Z * bytes) :=
  match s with
  | a :: b :: r => if is_digit a && is_digit b then Some (10 * (a - 48) + (b - 48), r) else None
  | _ => None
  end.
(** the longest run of letters *)
Fixpoint take_alpha (s : bytes) : bytes * bytes :=
  match s with
  | c :: r => if is_alpha c then let '(a, r') := take_alpha r in (c :: a, r') else ([], s)
  | [] => ([], [])
  end.

(** * Names (RFC 2822 section 3.3 day-name / month-name, section 4.3 obs-zone) *)
Definition name3 (s : bytes) : option (bytes * bytes) :=
  match s with a :: b :: c :: r => Some ([lower a; lower b; lower c], r) | _ => None end.
Definition day_names : list (bytes * Z) :=
  [(B"mon", 0); (B"tue", 1); (B"wed", 2); (B"thu", 3); (B"fri", 4); (B"sat", 5); (B"sun", 6)].
Definition month_names : list (bytes * Z) :=
  [(B"jan", 1); (B"feb", 2); (B"mar", 3); (B"apr", 4); (B"may", 5); (B"jun", 6);
   (B"jul", 7); (B"aug", 8); (B"sep", 9); (B"oct", 10); (B"nov", 11); (B"dec", 12)].
(** "UT" / "GMT" are universal time; EST/EDT -5/-4, CST/CDT -6/-5, MST/MDT -7/-6, PST/PDT -8/-7 *)
Definition zone_names : list (bytes * Z) :=
  [(B"ut", 0); (B"gmt", 0); (B"est", -5); (B"edt", -4); (B"cst", -6); (B"cdt", -5);
   (B"mst", -7); (B"mdt", -6); (B"pst", -8); (B"pdt", -7)].
Fixpoint lookup (k : bytes) (t : list (bytes * Z)) : option Z :=
  match t with
  | [] => None
  | (k', v) :: r => if bytes_eqb k k' then Some v else lookup k r
  end.
Definition day_name (s : bytes) : option (Z * bytes) :=
  obind (name3 s) (fun '(k, r) => obind (lookup k day_names) (fun v => Some (v, r))).
Definition month_name (s : bytes) : option (Z * bytes) :=
  obind (name3 s) (fun '(k, r) => obind (lookup k month_names) (fun v => Some (v, r))).

(** zone at the head of [s] *)
Definition rec_zone (s : bytes) : option (zone * bytes) :=
  match s with
  | [] => None
  | c :: r =>
    if (c =? 43) || (c =? 45) then
      obind (take2 r) (fun '(hh, r1) => obind (take2 r1) (fun '(mm, r2) => Some (ZNum (c =? 45) hh mm, r2)))
    else
      let '(name, rest) := take_alpha s in
      match lookup (map lower name) zone_names with
      | Some h => Some (ZName h, rest)
      | None =>
          match name with
          | [l] => if (lower l =? 106) then None else Some (ZMil, rest)     (* every letter but J *)
          | _ => None
          end
      end
  end.

(** * Comments: "(" *( ctext / quoted-pair / comment ) ")" with ctext any byte but "(" ")" "\"
    and quoted-pair = "\" followed by one byte.  Recursive descent: [citems f s] reads items up
    to the ")" that closes the comment whose "(" has just been read, and returns what follows. *)
Fixpoint citems (fuel : nat) (s : bytes) : option bytes :=
  match fuel with
  | O => None
  | S f =>
    match s with
    | [] => None
    | c :: r =>
      if c =? 41 then Some r
      else if c =? 92 then match r with _ :: r' => citems f r' | [] => None end
      else if c =? 40 then match citems f r with Some r' => citems f r' | None => None end
      else citems f r
    end
  end.
(** one comment at the head of [s]; what follows it *)
Definition comment_rest (s : bytes) : option bytes :=
  match s with
  | c :: r => if c =? 40 then citems (List.length r) r else None
  | [] => None
  end.
(** the same as a relation: the content of a comment, and a comment *)
Inductive ccontent : bytes -> Prop :=
| cc_nil : ccontent []
| cc_text c r : c <> 40 -> c <> 41 -> c <> 92 -> ccontent r -> ccontent (c :: r)
| cc_quoted c r : ccontent r -> ccontent (92 :: c :: r)
| cc_nested a r : ccontent a -> ccontent r -> ccontent (40 :: a ++ 41 :: r).
Definition is_comment (s : bytes) : Prop := exists a, ccontent a /\ s = 40 :: a ++ [41].

(** *( [FWS] comment ) up to the end of the string *)
Fixpoint comments_to_end (fuel : nat) (s : bytes) : bool :=
  match fuel with
  | O => false
  | S f =>
    match s with
    | [] => true
    | _ => match comment_rest (ws0 s) with Some r => comments_to_end f r | None => false end
    end
  end.

(** * Recogniser *)
(** [ day-name "," ] *)
Definition rec_dow (s : bytes) : option Z * bytes :=
  match day_name s with
  | Some (w, r) => match expect 44 r with Some r' => (Some w, r') | None => (None, s) end
  | None => (None, s)
  end.
Definition rec_day (s : bytes) : option (Z * bytes) :=
  let '(ds, r) := take_digits s in
  match ds with
  | [_] | [_; _] => Some (value_of ds 0, r)
  | _ => None
  end.
Definition rec_year (s : bytes) : option (Z * Z * bytes) :=
  let '(ds, r) := take_digits s in
  let n := Z.of_nat (List.length ds) in
  if 2 <=? n then Some (n, value_of ds 0, r) else None.
(** [ [FWS] ":" [FWS] second ]  (section 4.3: obs-minute / obs-second admit white space around them) *)
Definition rec_second (s : bytes) : option (option Z * bytes) :=
  match ws0 s with
  | c :: r => if c =? 58 then obind (take2 (ws0 r)) (fun '(v, r') => Some (Some v, r')) else Some (None, s)
  | [] => Some (None, s)
  end.

Definition recognise (s : bytes) : option fields :=
  let s := ws0 s in
  let '(wd, s) := rec_dow s in
  let s := ws0 s in
  obind (rec_day s) (fun '(d, s) =>
  obind (ws1 s) (fun s =>
  obind (month_name s) (fun '(mo, s) =>
  obind (ws1 s) (fun s =>
  obind (rec_year s) (fun '(yl, yv, s) =>
  obind (ws1 s) (fun s =>
  obind (take2 s) (fun '(h, s) =>
  obind (expect 58 (ws0 s)) (fun s =>
  obind (take2 (ws0 s)) (fun '(mi, s) =>
  obind (rec_second s) (fun '(sec, s) =>
  obind (ws1 s) (fun s =>
  obind (rec_zone s) (fun '(z, s) =>
  if comments_to_end (S (List.length s)) s then Some (mk_fields wd d mo yl yv h mi sec z) else None)))))))))))).

(** * Meaning *)
(** section 4.3: two-digit years 00-49 are 2000-2049, 50-99 are 1950-1999, three-digit years add
    1900; section 3.3: four or more digits are the year itself *)
Definition year_of (f : fields) : Z :=
  if f_ylen f =? 2 then (if f_yval f <=? 49 then 2000 + f_yval f else 1900 + f_yval f)
  else if f_ylen f =? 3 then 1900 + f_yval f
  else f_yval f.
Definition second_of (f : fields) : Z := match f_second f with Some v => v | None => 0 end.
Definition zone_offset (z : zone) : Z :=
  match z with
  | ZNum neg hh mm => (if neg then -1 else 1) * (hh * 3600 + mm * 60)
  | ZName h => h * 3600
  | ZMil => 0
  end.
Definition valid_zone (z : zone) : bool :=
  match z with ZNum _ _ mm => mm <=? 59 | _ => true end.
Definition valid (f : fields) : bool :=
  valid_ymd (year_of f) (f_month f) (f_day f)
  && (f_hour f <=? 23) && (f_minute f <=? 59) && (second_of f <=? 60)
  && valid_zone (f_zone f).
(** the day of week written, if any, is the day of week of the date *)
Definition local_dn (f : fields) : Z := dn_of_ymd (year_of f) (f_month f) (f_day f).
Definition weekday_ok (f : fields) : bool :=
  match f_wd f with Some w => w =? weekday_of_dn (local_dn f) | None => true end.
(** representable by the library: offset below 24 h, local and UTC dates within the documented range *)
Definition utc_shift (f : fields) : Z :=
  let leap := second_of f =? 60 in
  f_hour f * 3600 + f_minute f * 60 + (if leap then 59 else second_of f) - zone_offset (f_zone f).
Definition representable (f : fields) : bool :=
  (-86400 <? zone_offset (f_zone f)) && (zone_offset (f_zone f) <? 86400)
  && year_in_range (year_of f) && dn_in_range (local_dn f + utc_shift f / 86400).

(** (year, ordinal, second of day, nanosecond field, offset seconds) of the UTC reading; the leap
    second hh:mm:60 is second 59 with the nanosecond field 10^9 *)
Definition denote (f : fields) : Z * Z * Z * Z * Z :=
  let t := utc_shift f in
  let '(y, o) := yo_of_dn (local_dn f + t / 86400) in
  (y, o, t mod 86400, (if second_of f =? 60 then 1000000000 else 0), zone_offset (f_zone f)).

(** * The standard form of a value (y, o, secs, frac, off), for the writer claim *)
Definition wall_dn (y o secs off : Z) : Z := dn_of_yo y o + (secs + off) / 86400.
Definition wall_secs (secs off : Z) : Z := (secs + off) mod 86400.
Definition dig (n : Z) : Z := 48 + n.
Definition two (n : Z) : bytes := [dig (n / 10); dig (n mod 10)].
Definition four (n : Z) : bytes := [dig (n / 1000); dig (n / 100 mod 10); dig (n / 10 mod 10); dig (n mod 10)].
Definition nth_name (t : list bytes) (i : Z) : bytes := nth (Z.to_nat i) t [].
Definition DAY_NAMES : list bytes := [B"Mon"; B"Tue"; B"Wed"; B"Thu"; B"Fri"; B"Sat"; B"Sun"].
Definition MONTH_NAMES : list bytes :=
  [B"Jan"; B"Feb"; B"Mar"; B"Apr"; B"May"; B"Jun"; B"Jul"; B"Aug"; B"Sep"; B"Oct"; B"Nov"; B"Dec"].
(** "Www, D Mon YYYY HH:MM:SS +hhmm"; [pad] = write a one-digit day with a leading zero
    (both are the standard's [1*2DIGIT]; the crate documentation shows the unpadded form) *)
Definition standard_text (pad : bool) (y o secs frac off : Z) : bytes :=
  let dn := wall_dn y o secs off in
  let ls := wall_secs secs off in
  let '(ly, lo) := yo_of_dn dn in
  let '(lm, ld) := md_of_ordinal (is_leap ly) lo in
  let leap := 1000000000 <=? frac in
  let a := Z.abs off in
  nth_name DAY_NAMES (weekday_of_dn dn) ++ B", "
  ++ (if pad || (10 <=? ld) then two ld else [dig ld]) ++ B" "
  ++ nth_name MONTH_NAMES (lm - 1) ++ B" " ++ four ly ++ B" "
  ++ two (ls / 3600) ++ B":" ++ two (ls / 60 mod 60) ++ B":" ++ two (ls mod 60 + (if leap then 1 else 0)) ++ B" "
  ++ [if off <? 0 then 45 else 43] ++ two (a / 3600) ++ two (a / 60 mod 60).
