(** The RFC 2822 [date-time] grammar of Spec/Rfc2822.v read with the LENIENT notion of white space:
    the same tokens in the same order (optional day of week, 1-2 digit day, month name, year of two
    or more digits, hh ":" mm [":" ss], numeric / named / military zone, trailing comments), the same
    fields, the same meaning ([valid], [weekday_ok], [representable], [denote] of Spec/Rfc2822.v) --
    but wherever Spec/Rfc2822.v has a run of folding white space (SP / HTAB / CRLF followed by SP or
    HTAB) this grammar has a run of Unicode White_Space scalar values ([char::is_whitespace], the 25
    code points of Base/Utf8.v [is_whitespace]: SP, HTAB, LF, VT, FF, CR, NEL, NBSP, U+1680,
    U+2000..200A, U+2028, U+2029, U+202F, U+205F, U+3000), i.e. what [str::trim_start] removes.

    The property text says "runs of white space wherever the standard form has a space"; every
    string of the strict grammar is a string of this one with the same fields (Proofs/C11Exact.v
    [recognise_in_recognise_u]); the strings this grammar has in addition are exactly those that
    use a white-space character RFC 2822 does not list (a bare LF or CR, VT, FF, a non-ASCII
    space).  Proofs/C11Exact.v proves that DateTime::parse_from_rfc2822 accepts a string EXACTLY
    when this grammar recognises it with valid, consistent, representable fields.
    Nothing here comes from chrono's code.  No proofs in this file. *)
From Coq Require Import ZArith List Bool String.
From V Require Import Base.IO Base.Utf8 Spec.Gregorian Spec.Rfc2822.
Import ListNotations.
Open Scope Z_scope.

(** optional / mandatory run of Unicode white space *)
Definition uws0 (s : bytes) : bytes := trim_start s.
Definition uws1 (s : bytes) : option bytes :=
  let r := trim_start s in if blen r <? blen s then Some r else None.

(** [ [WS] ":" [WS] second ] *)
Definition rec_second_u (s : bytes) : option (option Z * bytes) :=
  match uws0 s with
  | c :: r => if c =? 58 then obind (take2 (uws0 r)) (fun '(v, r') => Some (Some v, r')) else Some (None, s)
  | [] => Some (None, s)
  end.

(** *( [WS] comment ) up to the end of the string *)
Fixpoint comments_to_end_u (fuel : nat) (s : bytes) : bool :=
  match fuel with
  | O => false
  | S f =>
    match s with
    | [] => true
    | _ => match comment_rest (uws0 s) with Some r => comments_to_end_u f r | None => false end
    end
  end.

Definition recognise_u (s : bytes) : option fields :=
  let s := uws0 s in
  let '(wd, s) := rec_dow s in
  let s := uws0 s in
  obind (rec_day s) (fun '(d, s) =>
  obind (uws1 s) (fun s =>
  obind (month_name s) (fun '(mo, s) =>
  obind (uws1 s) (fun s =>
  obind (rec_year s) (fun '(yl, yv, s) =>
  obind (uws1 s) (fun s =>
  obind (take2 s) (fun '(h, s) =>
  obind (expect 58 (uws0 s)) (fun s =>
  obind (take2 (uws0 s)) (fun '(mi, s) =>
  obind (rec_second_u s) (fun '(sec, s) =>
  obind (uws1 s) (fun s =>
  obind (rec_zone s) (fun '(z, s) =>
  if comments_to_end_u (S (List.length s)) s then Some (mk_fields wd d mo yl yv h mi sec z) else None)))))))))))).
