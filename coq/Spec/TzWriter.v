(** A conforming writer, as the specification the readers are measured against:
    [print_rule] emits a POSIX TZ string (RFC 8536 section 3.3 / IEEE 1003.1 section 8.3) and
    [write_tzif_v1] a version-1 TZif file (RFC 8536 section 3).  Every numeric field is printed
    with a fixed number of digits (leading zeros are within both grammars), names are always
    written in the quoted form <...>.  Only the data types of the model are imported; nothing
    here is taken from the reader's code. *)
From Coq Require Import ZArith List Bool.
From V Require Import Base.Int Base.IO Model.TzTypes.
Import ListNotations.
Open Scope Z_scope.

Definition print1 (n : Z) : bytes := [48 + n].
Definition print2 (n : Z) : bytes := [48 + n / 10; 48 + n mod 10].
Definition print3 (n : Z) : bytes := [48 + n / 100; 48 + (n / 10) mod 10; 48 + n mod 10].

(* [-]hh:mm:ss, hours with [hd] digits *)
Definition print_hms (three : bool) (v : Z) : bytes :=
  let a := Z.abs v in
  (if v <? 0 then [45] else [])
  ++ (if three then print3 (a / 3600) else print2 (a / 3600))
  ++ [58] ++ print2 ((a / 60) mod 60) ++ [58] ++ print2 (a mod 60).
Definition print_name (n : bytes) : bytes := [60] ++ n ++ [62].
Definition name_of (l : ltt) : bytes := match name l with Some n => n | None => [] end.
(* the POSIX offset is the negated UTC offset *)
Definition print_ltt (l : ltt) : bytes := print_name (name_of l) ++ print_hms false (- ut_offset l).
Definition print_day (d : rule_day) : bytes :=
  match d with
  | Julian1WithoutLeap n => [74] ++ print3 n
  | Julian0WithLeap n => print3 n
  | MonthWeekday m w wd => [77] ++ print2 m ++ [46] ++ print1 w ++ [46] ++ print1 wd
  end.
Definition print_rule (r : trule) (ext : bool) : bytes :=
  match r with
  | Fixed l => print_ltt l
  | Alternate a =>
      print_ltt (a_std a) ++ print_ltt (a_dst a)
      ++ [44] ++ print_day (dst_start a) ++ [47] ++ print_hms ext (dst_start_time a)
      ++ [44] ++ print_day (dst_end a) ++ [47] ++ print_hms ext (dst_end_time a)
  end.

(** rules the two documented forms can express *)
Definition name_printable (n : option bytes) : Prop :=
  match n with
  | Some n => 3 <= zlen n <= 7 /\ Forall (fun b => is_name_char b = true) n
  | None => False
  end.
Definition ltt_printable (dst : bool) (l : ltt) : Prop :=
  is_dst l = dst /\ -89999 <= ut_offset l <= 89999 /\ name_printable (name l).
Definition day_printable (d : rule_day) : Prop :=
  match d with
  | Julian1WithoutLeap n => 1 <= n <= 365
  | Julian0WithLeap n => 0 <= n <= 365
  | MonthWeekday m w wd => 1 <= m <= 12 /\ 1 <= w <= 5 /\ 0 <= wd <= 6
  end.
Definition time_printable (ext : bool) (t : Z) : Prop :=
  if ext then -604799 <= t <= 604799 else 0 <= t <= 89999.
Definition rule_printable (r : trule) (ext : bool) : Prop :=
  match r with
  | Fixed l => ltt_printable false l
  | Alternate a =>
      ltt_printable false (a_std a) /\ ltt_printable true (a_dst a) /\
      day_printable (dst_start a) /\ day_printable (dst_end a) /\
      time_printable ext (dst_start_time a) /\ time_printable ext (dst_end_time a)
  end.

(** ** TZif (RFC 8536 section 3)
    header: "TZif", version byte, 15 reserved zero bytes, six big-endian 32-bit counts
    (isutcnt, isstdcnt, leapcnt, timecnt, typecnt, charcnt); data block: transition times
    (4 or 8 bytes each), transition types (one byte each), local time type records
    (utoff as 32-bit two's complement, isdst, abbreviation index), the NUL-terminated
    designations, leap-second records; this writer emits no indicator bytes (both counts zero).
    Every type gets its own designation entry, in order. *)
Definition be32 (v : Z) : bytes :=
  let u := v mod 4294967296 in [u / 16777216; (u / 65536) mod 256; (u / 256) mod 256; u mod 256].
Definition be64 (v : Z) : bytes :=
  let u := v mod 18446744073709551616 in be32 (u / 4294967296) ++ be32 (u mod 4294967296).
Definition be_time (ts : Z) (v : Z) : bytes := if ts =? 4 then be32 v else be64 v.

Definition desig_table (types : list ltt) : bytes := flat_map (fun l => name_of l ++ [0]) types.
Fixpoint desig_indices (types : list ltt) (pos : Z) : list Z :=
  match types with
  | [] => []
  | l :: r => pos :: desig_indices r (pos + zlen (name_of l) + 1)
  end.
Definition enc_type (p : ltt * Z) : bytes :=
  let '(l, idx) := p in be32 (ut_offset l) ++ [if is_dst l then 1 else 0; idx].
Definition tzif_header (ver : Z) (leapcnt timecnt typecnt charcnt : Z) : bytes :=
  [84; 90; 105; 102; ver] ++ repeat 0 15%nat
  ++ be32 0 ++ be32 0 ++ be32 leapcnt ++ be32 timecnt ++ be32 typecnt ++ be32 charcnt.
Definition tzif_block (ver ts : Z) (z : timezone) : bytes :=
  tzif_header ver (zlen (leap_seconds z)) (zlen (transitions z)) (zlen (local_time_types z))
              (zlen (desig_table (local_time_types z)))
  ++ flat_map (fun t => be_time ts (tr_time t)) (transitions z)
  ++ map tr_idx (transitions z)
  ++ flat_map enc_type (combine (local_time_types z) (desig_indices (local_time_types z) 0))
  ++ desig_table (local_time_types z)
  ++ flat_map (fun l => be_time ts (lp_time l) ++ be32 (lp_corr l)) (leap_seconds z).

(* version 1: one block with 32-bit times *)
Definition write_tzif_v1 (z : timezone) : bytes := tzif_block 0 4 z.
(* version 2 layout: a minimal 32-bit block (one type, one NUL), the 64-bit block, an empty footer *)
Definition slim_zone : timezone := mk_tz [] [mk_ltt 0 false None] [] None.
Definition write_tzif_v23 (ver : Z) (z : timezone) : bytes :=
  tzif_block ver 4 slim_zone ++ tzif_block ver 8 z ++ [10; 10].
Definition write_tzif_v2 := write_tzif_v23 50.
Definition write_tzif_v3 := write_tzif_v23 51.

(** zones these two layouts can carry: no leap records, no footer rule *)
Fixpoint strictly_increasing (l : list Z) : Prop :=
  match l with
  | a :: ((b :: _) as r) => a < b /\ strictly_increasing r
  | _ => True
  end.
Definition type_writable (l : ltt) : Prop :=
  -2147483648 < ut_offset l <= 2147483647 /\
  match name l with
  | Some n => 3 <= zlen n <= 7 /\ Forall (fun b => is_name_char b = true) n
  | None => True
  end.
Definition zone_writable (ts : Z) (z : timezone) : Prop :=
  local_time_types z <> [] /\ Forall type_writable (local_time_types z) /\
  zlen (desig_table (local_time_types z)) <= 256 /\
  Forall (fun t => (if ts =? 4 then in_i32 (tr_time t) else in_i64 (tr_time t)) = true /\
                   0 <= tr_idx t < zlen (local_time_types z)) (transitions z) /\
  strictly_increasing (map tr_time (transitions z)) /\
  zlen (transitions z) <= 100000 /\
  leap_seconds z = [] /\ extra_rule z = None.

(** ** The complete layout (RFC 8536 section 3.2): leap-second records, the two indicator arrays
    and, for versions 2 and 3, the footer carrying the rule.

    The standard/wall and UT/local indicators are not part of the reader's zone value (it
    validates and drops them), so the writer takes them as two extra arguments, one flag per
    local time type or no array at all.  "UT implies standard" is the only legal combination
    constraint of the format. *)
Definition enc_flag (b : bool) : Z := if b then 1 else 0.
Definition tzif_header_full (ver : Z) (isutcnt isstdcnt leapcnt timecnt typecnt charcnt : Z) : bytes :=
  [84; 90; 105; 102; ver] ++ repeat 0 15%nat
  ++ be32 isutcnt ++ be32 isstdcnt ++ be32 leapcnt ++ be32 timecnt ++ be32 typecnt ++ be32 charcnt.
Definition enc_leap (ts : Z) (l : leap) : bytes := be_time ts (lp_time l) ++ be32 (lp_corr l).
Definition tzif_block_full (ver ts : Z) (z : timezone) (std ut : list bool) : bytes :=
  tzif_header_full ver (zlen ut) (zlen std) (zlen (leap_seconds z)) (zlen (transitions z))
                   (zlen (local_time_types z)) (zlen (desig_table (local_time_types z)))
  ++ flat_map (fun t => be_time ts (tr_time t)) (transitions z)
  ++ map tr_idx (transitions z)
  ++ flat_map enc_type (combine (local_time_types z) (desig_indices (local_time_types z) 0))
  ++ desig_table (local_time_types z)
  ++ flat_map (enc_leap ts) (leap_seconds z)
  ++ map enc_flag std
  ++ map enc_flag ut.

(* footer: newline, the rule as a TZ string (nothing when the zone has none), newline; the
   extended rule times of version 3 are printed with three hour digits *)
Definition footer_ext (ver : Z) : bool := ver =? 51.
Definition footer_body (ver : Z) (z : timezone) : bytes :=
  match extra_rule z with Some r => print_rule r (footer_ext ver) | None => [] end.
Definition tzif_footer (ver : Z) (z : timezone) : bytes := [10] ++ footer_body ver z ++ [10].

Definition write_tzif_v1_full (z : timezone) (std ut : list bool) : bytes := tzif_block_full 0 4 z std ut.
(* version 2 / 3: a complete 32-bit block for [z32] (any zone the 32-bit layout can lay out: the
   reader skips it; [slim_zone] for the minimal file), the 64-bit block, the footer *)
Definition write_tzif_v23_full (ver : Z) (z32 : timezone) (std32 ut32 : list bool)
                               (z : timezone) (std ut : list bool) : bytes :=
  tzif_block_full ver 4 z32 std32 ut32 ++ tzif_block_full ver 8 z std ut ++ tzif_footer ver z.

(** what the layout can carry *)
Definition time_fits (ts : Z) (t : Z) : Prop := (if ts =? 4 then in_i32 t else in_i64 t) = true.
(* both arrays absent or one flag per type; a UT flag only on a type that also has the standard flag *)
Definition indicators_ok (types : list ltt) (std ut : list bool) : Prop :=
  (std = [] \/ zlen std = zlen types) /\ (ut = [] \/ zlen ut = zlen types) /\
  forall i, nth i ut false = true -> nth i std false = true.
(* RFC 8536 3.2: the first occurrence is not negative and its correction is +1 or -1; later
   occurrences are at least 28 days minus one second after the previous one and the correction
   changes by exactly one *)
Fixpoint leaps_spaced (l : list leap) : Prop :=
  match l with
  | a :: ((b :: _) as r) =>
      lp_time a + 2419199 <= lp_time b /\ (lp_corr b = lp_corr a + 1 \/ lp_corr b = lp_corr a - 1) /\ leaps_spaced r
  | _ => True
  end.
Definition leaps_writable (ts : Z) (l : list leap) : Prop :=
  Forall (fun p => time_fits ts (lp_time p) /\ in_i32 (lp_corr p) = true) l /\
  match l with [] => True | a :: _ => 0 <= lp_time a /\ (lp_corr a = 1 \/ lp_corr a = -1) end /\
  leaps_spaced l.
(* counts are 32-bit fields; an abbreviation index and a type index are one byte *)
Definition block_layout (ts : Z) (z : timezone) (std ut : list bool) : Prop :=
  local_time_types z <> [] /\ zlen (desig_table (local_time_types z)) <= 256 /\
  zlen (transitions z) <= 4294967295 /\ zlen (leap_seconds z) <= 4294967295 /\
  (std = [] \/ zlen std = zlen (local_time_types z)) /\ (ut = [] \/ zlen ut = zlen (local_time_types z)).
Definition zone_writable_full (ts : Z) (z : timezone) (std ut : list bool) : Prop :=
  local_time_types z <> [] /\ Forall type_writable (local_time_types z) /\
  zlen (desig_table (local_time_types z)) <= 256 /\
  Forall (fun t => time_fits ts (tr_time t) /\ 0 <= tr_idx t < zlen (local_time_types z)) (transitions z) /\
  strictly_increasing (map tr_time (transitions z)) /\
  zlen (transitions z) <= 4294967295 /\
  leaps_writable ts (leap_seconds z) /\ zlen (leap_seconds z) <= 4294967295 /\
  indicators_ok (local_time_types z) std ut.
