(** A conforming writer, as the specification the readers are measured against:
    [print_rule] emits a POSIX TZ string (RFC 8536 section 3.3 / IEEE 1003.1 section 8.3) and
    [write_tzif_v1] a version-1 TZif file (RFC 8536 section 3).  Every numeric field is printed
    with a fixed number of digits (leading zeros are within both grammars), names are always
    written in the quoted form <...>.  Only the data types of the model are imported; nothing
    here is taken from the reader's code. *)
From Coq Require Import ZArith List Bool.
From V Require Import Base.Int Base.IO Model.TzTypes.
Import ListNotations.
Open Scope Z_scope.

Definition print1 (n : Z) : bytes := [48 + n].
Definition print2 (n : Z) : bytes := [48 + n / 10; 48 + n mod 10].
Definition print3 (n : Z) : bytes := [48 + n / 100; 48 + (n / 10) mod 10; 48 + n mod 10].

(* [-]hh:mm:ss, hours with [hd] digits *)
Definition print_hms (three : bool) (v : Z) : bytes :=
  let a := Z.abs v in
  (if v <? 0 then [45] else [])
  ++ (if three then print3 (a / 3600) else print2 (a / 3600))
  ++ [58] ++ print2 ((a / 60) mod 60) ++ [58] ++ print2 (a mod 60).
Definition print_name (n : bytes) : bytes := [60] ++ n ++ [62].
Definition name_of (l : ltt) : bytes := match name l with Some n => n | None => [] end.
(* the POSIX offset is the negated UTC offset *)
Definition print_ltt (l : ltt) : bytes := print_name (name_of l) ++ print_hms false (- ut_offset l).
Definition print_day (d : rule_day) : bytes :=
  match d with
  | Julian1WithoutLeap n => [74] ++ print3 n
  | Julian0WithLeap n => print3 n
  | MonthWeekday m w wd => [77] ++ print2 m ++ [46] ++ print1 w ++ [46] ++ print1 wd
  end.
Definition print_rule (r : trule) (ext : bool) : bytes :=
  match r with
  | Fixed l => print_ltt l
  | Alternate a =>
      print_ltt (a_std a) ++ print_ltt (a_dst a)
      ++ [44] ++ print_day (dst_start a) ++ [47] ++ print_hms ext (dst_start_time a)
      ++ [44] ++ print_day (dst_end a) ++ [47] ++ print_hms ext (dst_end_time a)
  end.

(** rules the two documented forms can express *)
Definition name_printable (n : option bytes) : Prop :=
  match n with
  | Some n => 3 <= zlen n <= 7 /\ Forall (fun b => is_name_char b = true) n
  | None => False
  end.
Definition ltt_printable (dst : bool) (l : ltt) : Prop :=
  is_dst l = dst /\ -89999 <= ut_offset l <= 89999 /\ name_printable (name l).
Definition day_printable (d : rule_day) : Prop :=
  match d with
  | Julian1WithoutLeap n => 1 <= n <= 365
  | Julian0WithLeap n => 0 <= n <= 365
  | MonthWeekday m w wd => 1 <= m <= 12 /\ 1 <= w <= 5 /\ 0 <= wd <= 6
  end.
Definition time_printable (ext : bool) (t : Z) : Prop :=
  if ext then -604799 <= t <= 604799 else 0 <= t <= 89999.
Definition rule_printable (r : trule) (ext : bool) : Prop :=
  match r with
  | Fixed l => ltt_printable false l
  | Alternate a =>
      ltt_printable false (a_std a) /\ ltt_printable true (a_dst a) /\
      day_printable (dst_start a) /\ day_printable (dst_end a) /\
      time_printable ext (dst_start_time a) /\ time_printable ext (dst_end_time a)
  end.
