(** Characterising lemmas for the trapping operations of Base.Int (so that proofs rewrite with
    these instead of unfolding case analyses on closed divisors). *)
From Coq Require Import ZArith List Bool Lia ZifyBool.
From V Require Import Base.Int.
Open Scope Z_scope.

Lemma div_euclid_pos inr a b : 0 < b -> div_euclid inr a b = chk inr (a / b).
Proof.
  intros H. unfold div_euclid. destruct (b =? 0) eqn:E; [lia|].
  destruct (0 <? b) eqn:E2; [reflexivity|lia].
Qed.
Lemma rem_euclid_pos inr a b : 0 < b ->
  rem_euclid inr a b = if inr (a / b) then Val (a mod b) else Panic.
Proof.
  intros H. unfold rem_euclid. destruct (b =? 0) eqn:E; [lia|].
  destruct (0 <? b) eqn:E2; [|lia]. rewrite Z.abs_eq by lia. reflexivity.
Qed.
Lemma div_t_nz inr a b : b <> 0 -> div_t inr a b = chk inr (Z.quot a b).
Proof. intros H. unfold div_t. destruct (b =? 0) eqn:E; [lia|reflexivity]. Qed.
Lemma rem_t_nz inr a b : b <> 0 ->
  rem_t inr a b = if inr (Z.quot a b) then Val (Z.rem a b) else Panic.
Proof. intros H. unfold rem_t. destruct (b =? 0) eqn:E; [lia|reflexivity]. Qed.

Lemma wrap_s_id bits z : 0 < bits -> - 2 ^ (bits - 1) <= z < 2 ^ (bits - 1) -> wrap_s bits z = z.
Proof.
  intros Hb Hz. unfold wrap_s.
  assert (Hp : 2 ^ bits = 2 * 2 ^ (bits - 1)).
  { replace bits with (Z.succ (bits - 1)) at 1 by lia. rewrite Z.pow_succ_r by lia. reflexivity. }
  destruct (Z_lt_dec z 0).
  - replace (z mod 2 ^ bits) with (z + 2 ^ bits).
    + destruct (z + 2 ^ bits <? 2 ^ (bits - 1)) eqn:E; lia.
    + apply Z.mod_unique with (-1); lia.
  - rewrite Z.mod_small by lia. destruct (z <? 2 ^ (bits - 1)) eqn:E; lia.
Qed.
Lemma wrap_u_id bits z : 0 <= z < 2 ^ bits -> wrap_u bits z = z.
Proof. intros H. unfold wrap_u. apply Z.mod_small. exact H. Qed.

Lemma as_i32_id z : in_i32 z = true -> as_i32 z = z.
Proof. unfold in_i32, in_range, i32_min, i32_max, as_i32. intros H. apply wrap_s_id; [lia|]. change (2 ^ (32 - 1)) with 2147483648. lia. Qed.
Lemma as_i64_id z : in_i64 z = true -> as_i64 z = z.
Proof. unfold in_i64, in_range, i64_min, i64_max, as_i64. intros H. apply wrap_s_id; [lia|]. change (2 ^ (64 - 1)) with 9223372036854775808. lia. Qed.
Lemma as_u32_id z : in_u32 z = true -> as_u32 z = z.
Proof. unfold in_u32, in_range, u32_max, as_u32. intros H. apply wrap_u_id. change (2 ^ 32) with 4294967296. lia. Qed.
Lemma as_u64_id z : in_u64 z = true -> as_u64 z = z.
Proof. unfold in_u64, in_range, u64_max, as_u64. intros H. apply wrap_u_id. change (2 ^ 64) with 18446744073709551616. lia. Qed.
Lemma as_u8_id z : in_u8 z = true -> as_u8 z = z.
Proof. unfold in_u8, in_range, u8_max, as_u8. intros H. apply wrap_u_id. change (2 ^ 8) with 256. lia. Qed.
Lemma as_i128_id z : in_i128 z = true -> as_i128 z = z.
Proof. unfold in_i128, in_range, i128_min, i128_max, as_i128. intros H. apply wrap_s_id; [lia|].
  change (2 ^ (128 - 1)) with 170141183460469231731687303715884105728. lia. Qed.

(** [chk] in the two possible ways. *)
Lemma chk_in inr z : inr z = true -> chk inr z = Val z.
Proof. unfold chk. intros ->. reflexivity. Qed.
Lemma chko_in inr z : inr z = true -> chko inr z = Some z.
Proof. unfold chko. intros ->. reflexivity. Qed.
Lemma chko_out inr z : inr z = false -> chko inr z = None.
Proof. unfold chko. intros ->. reflexivity. Qed.

(** Truncating quotient in two stages. *)
Lemma quot_split_nonneg n a b : 0 <= n -> 0 < a -> 0 < b ->
  Z.quot n (a * b) * a + Z.quot (Z.rem n (a * b)) b = Z.quot n b.
Proof.
  intros Hn Ha Hb. rewrite !Z.rem_mod_nonneg by nia.
  rewrite !Z.quot_div_nonneg by (try apply Z.mod_pos_bound; nia).
  - pose proof (Z.div_mod n (a*b) ltac:(nia)). pose proof (Z.mod_pos_bound n (a*b) ltac:(nia)).
    set (q := n / (a*b)) in *. set (r := n mod (a*b)) in *.
    rewrite H. replace (a * b * q + r) with (r + (q * a) * b) by ring.
    rewrite Z.div_add by lia. lia.
Qed.
Lemma quot_split n a b : 0 < a -> 0 < b ->
  Z.quot n (a * b) * a + Z.quot (Z.rem n (a * b)) b = Z.quot n b.
Proof.
  intros Ha Hb. destruct (Z_le_dec 0 n) as [H|H]; [apply quot_split_nonneg; assumption|].
  assert (Hab : a * b <> 0) by (apply Z.neq_mul_0; lia).
  replace n with (- (- n)) by lia. set (m := - n) in *.
  rewrite (Z.quot_opp_l m (a * b)), (Z.rem_opp_l m (a * b)), (Z.quot_opp_l m b) by (assumption || lia).
  rewrite Z.quot_opp_l by lia.
  pose proof (quot_split_nonneg m a b ltac:(lia) Ha Hb). lia.
Qed.

Lemma mul_bound x k X K : Z.abs x <= X -> Z.abs k <= K -> - (X * K) <= x * k <= X * K.
Proof.
  intros Hx Hk. assert (H : Z.abs (x * k) <= X * K).
  { rewrite Z.abs_mul. apply Z.mul_le_mono_nonneg; lia. }
  lia.
Qed.
