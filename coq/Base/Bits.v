From Coq Require Import ZArith List Lia Bool.
Open Scope Z_scope.

Lemma land_shiftl_low hi lo k : 0 <= k -> 0 <= lo < 2^k -> Z.land (hi * 2^k) lo = 0.
Proof.
  intros Hk Hlo. apply Z.bits_inj'. intros n Hn. rewrite Z.land_spec, Z.bits_0.
  destruct (Z_lt_dec n k).
  - rewrite Z.mul_pow2_bits_low by lia. reflexivity.
  - destruct (Z.eq_dec lo 0) as [->|Hne]; [rewrite Z.bits_0; apply andb_false_r|].
    rewrite (Z.bits_above_log2 lo n); [apply andb_false_r| lia |].
    apply Z.lt_le_trans with k; [|lia]. apply Z.log2_lt_pow2; lia.
Qed.
Lemma lor_disjoint hi lo k : 0 <= k -> 0 <= lo < 2^k -> Z.lor (Z.shiftl hi k) lo = hi * 2^k + lo.
Proof.
  intros Hk Hlo. rewrite Z.shiftl_mul_pow2 by lia.
  pose proof (land_shiftl_low hi lo k Hk Hlo) as Hz.
  rewrite <- Z.lxor_lor by exact Hz. rewrite Z.add_nocarry_lxor by exact Hz. reflexivity.
Qed.
Lemma shiftr_packed hi lo k : 0 <= k -> 0 <= lo < 2^k -> Z.shiftr (hi * 2^k + lo) k = hi.
Proof.
  intros Hk Hlo. rewrite Z.shiftr_div_pow2 by lia.
  rewrite Z.add_comm, Z.div_add by lia. rewrite Z.div_small by lia. lia.
Qed.
Lemma land_ones_packed hi lo k : 0 <= k -> 0 <= lo < 2^k -> Z.land (hi * 2^k + lo) (2^k - 1) = lo.
Proof.
  intros Hk Hlo. replace (2^k - 1) with (Z.ones k) by (rewrite Z.ones_equiv; lia).
  rewrite Z.land_ones by lia. rewrite Z.add_comm, Z.mod_add by lia. apply Z.mod_small; lia.
Qed.
