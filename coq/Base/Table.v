(** Constant lookup tables: a positive trie built once from a list (O(log n) lookup inside
    vm_compute and in the extracted code).  Index out of bounds traps, as Rust's indexing does. *)
From Coq Require Import ZArith List FMapPositive.
From V Require Import Base.Int.
Import ListNotations.
Open Scope Z_scope.

Definition table := PositiveMap.t Z.
Fixpoint table_fill (l : list Z) (i : positive) (t : table) : table :=
  match l with
  | [] => t
  | x :: r => table_fill r (Pos.succ i) (PositiveMap.add i x t)
  end.
Definition table_of_list (l : list Z) : table := table_fill l 1%positive (PositiveMap.empty Z).
Definition tfind (t : table) (i : Z) : option Z :=
  if i <? 0 then None else PositiveMap.find (Z.to_pos (i + 1)) t.
(** [t[i]] with Rust's bounds check *)
Definition tget (t : table) (i : Z) : R Z :=
  match tfind t i with Some v => Val v | None => Panic end.
