(** Finite range sweeps usable under [vm_compute] and the lemma lifting them to a
    universally quantified statement (complete enumeration of a finite domain). *)
From Coq Require Import ZArith List Lia Bool.
Open Scope Z_scope.

Definition step (f : Z -> bool) (p : Z * bool) : Z * bool :=
  let '(i, acc) := p in (i + 1, acc && f i).
Definition forall_range (f : Z -> bool) (lo : Z) (n : positive) : bool :=
  snd (Pos.iter (step f) (lo, true) n).

Lemma forall_range_inv f lo : forall n,
  fst (Pos.iter (step f) (lo, true) n) = lo + Zpos n /\
  (snd (Pos.iter (step f) (lo, true) n) = true -> forall i, lo <= i < lo + Zpos n -> f i = true).
Proof.
  induction n as [|n [IH1 IH2]] using Pos.peano_ind.
  - cbn. split; [lia|]. intros H i Hi. assert (i = lo) by lia. subst. exact H.
  - rewrite Pos.iter_succ. destruct (Pos.iter (step f) (lo, true) n) as [j acc] eqn:E.
    cbn [fst snd step] in *. subst j. split; [lia|].
    intros H i Hi. apply andb_prop in H. destruct H as [Hacc Hf].
    destruct (Z.eq_dec i (lo + Zpos n)) as [->|Hne]; [exact Hf|]. apply IH2; [exact Hacc|lia].
Qed.

Lemma forall_range_spec f n lo : forall_range f lo n = true ->
  forall i, lo <= i < lo + Zpos n -> f i = true.
Proof. unfold forall_range. intros H. apply (proj2 (forall_range_inv f lo n)). exact H. Qed.

(** First failing index of a sweep (search helper; no proof needed). *)
Definition fb_step (f : Z -> bool) (p : Z * option Z) : Z * option Z :=
  let '(i, acc) := p in
  (i + 1, match acc with Some _ => acc | None => if f i then None else Some i end).
Definition first_bad (f : Z -> bool) (lo : Z) (n : positive) : option Z :=
  snd (Pos.iter (fb_step f) (lo, None) n).

(** Two-dimensional sweep. *)
Definition forall_range2 (f : Z -> Z -> bool) (lo1 : Z) (n1 : positive) (lo2 : Z) (n2 : positive) : bool :=
  forall_range (fun i => forall_range (f i) lo2 n2) lo1 n1.
Lemma forall_range2_spec f lo1 n1 lo2 n2 : forall_range2 f lo1 n1 lo2 n2 = true ->
  forall i j, lo1 <= i < lo1 + Zpos n1 -> lo2 <= j < lo2 + Zpos n2 -> f i j = true.
Proof.
  unfold forall_range2. intros H i j Hi Hj.
  pose proof (forall_range_spec _ _ _ H i Hi) as H1. cbv beta in H1.
  exact (forall_range_spec _ _ _ H1 j Hj).
Qed.
