(** Case protocol shared by [modelrun] (extracted from here) and [implrun] (Rust).
    A case line is [op arg ... arg]; arguments and results are values of type [val]
    in a small textual syntax without blanks:
      int        -?[0-9]+
      bytes      x<hex>*           (strings travel hex encoded)
      none | some(v) | (v,...,v) | err:Name | PANIC | TIMEOUT | FUEL
    Parsing and printing are done here, in Gallina, so the OCaml driver only moves
    bytes.  Nothing in this file is specific to a property. *)
From Coq Require Import ZArith List Bool Ascii String.
From V Require Import Base.Int.
Import ListNotations.
Open Scope Z_scope.

Inductive val :=
| VInt (z : Z)
| VStr (s : list Z)
| VNone
| VSome (v : val)
| VTup (l : list val)
| VErr (s : list Z)
| VPanic
| VTimeout
| VFuel.

Definition bytes := list Z.

Fixpoint bytes_of_string (s : string) : bytes :=
  match s with
  | EmptyString => []
  | String c r => Z.of_N (N_of_ascii c) :: bytes_of_string r
  end.
Notation "'B' s" := (bytes_of_string s%string) (at level 0, s at level 0, only parsing).

Fixpoint bytes_eqb (a b : bytes) : bool :=
  match a, b with
  | [], [] => true
  | x :: a', y :: b' => (x =? y) && bytes_eqb a' b'
  | _, _ => false
  end.
Definition op_is (op : bytes) (s : string) : bool := bytes_eqb op (bytes_of_string s).

(** ** Decimal *)
Fixpoint dec_fuel (fuel : nat) (n : Z) (acc : bytes) : bytes :=
  match fuel with
  | O => acc
  | S f => let acc' := (48 + n mod 10) :: acc in
           if n <? 10 then acc' else dec_fuel f (n / 10) acc'
  end.
Definition dec_nonneg (n : Z) : bytes := dec_fuel (S (Z.to_nat (Z.log2 n))) n [].
Definition dec_of_Z (z : Z) : bytes := if z <? 0 then 45 :: dec_nonneg (- z) else dec_nonneg z.

Definition is_digit (c : Z) : bool := (48 <=? c) && (c <=? 57).
Fixpoint scan_digits (s : bytes) (acc : Z) (seen : bool) : option (Z * bytes) :=
  match s with
  | c :: r => if is_digit c then scan_digits r (acc * 10 + (c - 48)) true
              else if seen then Some (acc, s) else None
  | [] => if seen then Some (acc, []) else None
  end.
Definition scan_int (s : bytes) : option (Z * bytes) :=
  match s with
  | 45 :: r => match scan_digits r 0 false with Some (n, r') => Some (- n, r') | None => None end
  | _ => scan_digits s 0 false
  end.

(** ** Hex *)
Definition hex_digit (n : Z) : Z := if n <? 10 then 48 + n else 87 + n.
Definition hex_val (c : Z) : option Z :=
  if is_digit c then Some (c - 48)
  else if (97 <=? c) && (c <=? 102) then Some (c - 87)
  else if (65 <=? c) && (c <=? 70) then Some (c - 55) else None.
Fixpoint hex_of_bytes (s : bytes) : bytes :=
  match s with [] => [] | c :: r => hex_digit (c / 16) :: hex_digit (c mod 16) :: hex_of_bytes r end.
Fixpoint scan_hex (s : bytes) (acc : bytes) : bytes * bytes :=
  match s with
  | a :: b :: r =>
      match hex_val a, hex_val b with
      | Some x, Some y => scan_hex r ((x * 16 + y) :: acc)
      | _, _ => (rev acc, s)
      end
  | _ => (rev acc, s)
  end.

(** ** Printing *)
Fixpoint sep_concat (sep : bytes) (l : list bytes) : bytes :=
  match l with [] => [] | [a] => a | a :: r => a ++ sep ++ sep_concat sep r end.
Fixpoint print_val (v : val) : bytes :=
  match v with
  | VInt z => dec_of_Z z
  | VStr s => 120 :: hex_of_bytes s
  | VNone => B"none"
  | VSome v => B"some(" ++ print_val v ++ B")"
  | VTup l => B"(" ++ sep_concat B"," (map print_val l) ++ B")"
  | VErr s => B"err:" ++ s
  | VPanic => B"PANIC"
  | VTimeout => B"TIMEOUT"
  | VFuel => B"FUEL"
  end.

(** ** Parsing (fuel = input length is always enough: every recursive call consumes a byte) *)
Fixpoint strip_prefix (p s : bytes) : option bytes :=
  match p, s with
  | [], _ => Some s
  | x :: p', y :: s' => if x =? y then strip_prefix p' s' else None
  | _, [] => None
  end.
Fixpoint take_name (s : bytes) (acc : bytes) : bytes * bytes :=
  match s with
  | c :: r => if (c =? 44) || (c =? 41) || (c =? 32) || (c =? 9) then (rev acc, s) else take_name r (c :: acc)
  | [] => (rev acc, [])
  end.

Fixpoint parse_val (fuel : nat) (s : bytes) : option (val * bytes) :=
  match fuel with
  | O => None
  | S f =>
    match s with
    | 120 :: r => let '(b, r') := scan_hex r [] in Some (VStr b, r')
    | 40 :: 41 :: r => Some (VTup [], r)
    | 40 :: r =>
        (fix items (g : nat) (s : bytes) (acc : list val) : option (val * bytes) :=
           match g with
           | O => None
           | S g' =>
             match parse_val f s with
             | Some (v, 44 :: r') => items g' r' (v :: acc)
             | Some (v, 41 :: r') => Some (VTup (rev (v :: acc)), r')
             | _ => None
             end
           end) f r []
    | _ =>
      match strip_prefix B"none" s with Some r => Some (VNone, r) | None =>
      match strip_prefix B"some(" s with
      | Some r => match parse_val f r with
                  | Some (v, 41 :: r') => Some (VSome v, r')
                  | _ => None end
      | None =>
      match strip_prefix B"err:" s with Some r => let '(n, r') := take_name r [] in Some (VErr n, r') | None =>
      match strip_prefix B"PANIC" s with Some r => Some (VPanic, r) | None =>
      match strip_prefix B"TIMEOUT" s with Some r => Some (VTimeout, r) | None =>
      match strip_prefix B"FUEL" s with Some r => Some (VFuel, r) | None =>
      match scan_int s with Some (z, r) => Some (VInt z, r) | None => None end
      end end end end end end
    end
  end.

Fixpoint skip_blanks (s : bytes) : bytes :=
  match s with c :: r => if (c =? 32) || (c =? 9) then skip_blanks r else s | [] => [] end.
Fixpoint take_word (s : bytes) (acc : bytes) : bytes * bytes :=
  match s with
  | c :: r => if (c =? 32) || (c =? 9) then (rev acc, s) else take_word r (c :: acc)
  | [] => (rev acc, [])
  end.
Fixpoint parse_args (fuel : nat) (s : bytes) (acc : list val) : option (list val) :=
  match fuel with
  | O => None
  | S f =>
    match skip_blanks s with
    | [] => Some (rev acc)
    | s' => match parse_val (S (List.length s')) s' with
            | Some (v, r) => parse_args f r (v :: acc)
            | None => None
            end
    end
  end.
(** A case line: op word followed by arguments. *)
Definition parse_case (line : bytes) : option (bytes * list val) :=
  let '(op, r) := take_word (skip_blanks line) [] in
  match parse_args (S (List.length r)) r [] with
  | Some args => Some (op, args)
  | None => None
  end.

(** ** Verdicts of judges *)
Inductive verdict := JOk | JBad (why : bytes) | JSkip.
Definition print_verdict (v : verdict) : bytes :=
  match v with JOk => B"ok" | JBad w => B"bad:" ++ w | JSkip => B"skip" end.

(** Generic line runners: [run] for "model" mode, [judge] for "judge" mode where the line is
    [<impl-output> <op> <args...>]. *)
Definition run_line (run : bytes -> list val -> val) (line : bytes) : bytes :=
  match parse_case line with
  | Some (op, args) => print_val (run op args)
  | None => B"err:BADCASE"
  end.
Definition judge_line (judge : bytes -> list val -> val -> verdict) (line : bytes) : bytes :=
  let s := skip_blanks line in
  match parse_val (S (List.length s)) s with
  | Some (out, r) =>
      match parse_case r with
      | Some (op, args) => print_verdict (judge op args out)
      | None => B"err:BADCASE"
      end
  | None => B"err:BADOUT"
  end.

(** ** Helpers to write dispatchers *)
Definition val_of_R {A} (f : A -> val) (r : R A) : val :=
  match r with Val a => f a | Panic => VPanic | OutOfFuel => VFuel end.
Definition val_of_option {A} (f : A -> val) (o : option A) : val :=
  match o with Some a => VSome (f a) | None => VNone end.
Definition val_of_bool (b : bool) : val := VInt (if b then 1 else 0).
Definition VBad : val := VErr B"BADARGS".

Fixpoint val_eqb (a b : val) {struct a} : bool :=
  match a, b with
  | VInt x, VInt y => x =? y
  | VStr x, VStr y => bytes_eqb x y
  | VNone, VNone => true
  | VSome x, VSome y => val_eqb x y
  | VTup x, VTup y =>
      (fix go (x y : list val) : bool :=
         match x, y with
         | [], [] => true
         | a :: x', b :: y' => val_eqb a b && go x' y'
         | _, _ => false
         end) x y
  | VErr x, VErr y => bytes_eqb x y
  | VPanic, VPanic => true
  | VTimeout, VTimeout => true
  | VFuel, VFuel => true
  | _, _ => false
  end.
Definition judge_eq (expected got : val) : verdict :=
  if val_eqb expected got then JOk else JBad (B"expected=" ++ print_val expected).
