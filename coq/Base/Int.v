(** Machine integers as [Z] with explicit range conditions, and the result monad
    [R] in which every Rust operation that can trap (overflow checks and debug
    assertions ON) is a function.  No proofs that matter for extraction live here. *)
From Coq Require Import ZArith List Bool.
Import ListNotations.
Open Scope Z_scope.

Inductive R (A : Type) : Type :=
| Val (a : A)
| Panic
| OutOfFuel.
Arguments Val {A} a.
Arguments Panic {A}.
Arguments OutOfFuel {A}.

Definition bind {A B} (x : R A) (f : A -> R B) : R B :=
  match x with Val a => f a | Panic => Panic | OutOfFuel => OutOfFuel end.
Definition rmap {A B} (f : A -> B) (x : R A) : R B := bind x (fun a => Val (f a)).

Declare Scope r_scope.
Delimit Scope r_scope with r.
Notation "'let*' x ':=' e 'in' k" := (bind e (fun x => k))
  (at level 200, x name, e at level 100, k at level 200).
Notation "'let*' ' p ':=' e 'in' k" := (bind e (fun p => k))
  (at level 200, p pattern, e at level 100, k at level 200).

(** Option-in-R helper: Rust's [try_opt!]/[?] on an Option inside a function that may panic. *)
Definition obind {A B} (x : R (option A)) (f : A -> R (option B)) : R (option B) :=
  bind x (fun o => match o with Some a => f a | None => Val None end).
Notation "'let?' x ':=' e 'in' k" := (obind e (fun x => k))
  (at level 200, x name, e at level 100, k at level 200).
Notation "'let?' ' p ':=' e 'in' k" := (obind e (fun p => k))
  (at level 200, p pattern, e at level 100, k at level 200).

(** Numeric constants: always closed numerals so that [lia] can use them. *)
Definition i8_min  := -128.            Definition i8_max  := 127.
Definition u8_max  := 255.
Definition i16_min := -32768.          Definition i16_max := 32767.
Definition u16_max := 65535.
Definition i32_min := -2147483648.     Definition i32_max := 2147483647.
Definition u32_max := 4294967295.
Definition i64_min := -9223372036854775808.
Definition i64_max := 9223372036854775807.
Definition u64_max := 18446744073709551615.
Definition i128_min := -170141183460469231731687303715884105728.
Definition i128_max := 170141183460469231731687303715884105727.

Definition in_range (lo hi z : Z) : bool := (lo <=? z) && (z <=? hi).
Definition in_i8  z := in_range i8_min i8_max z.
Definition in_u8  z := in_range 0 u8_max z.
Definition in_i16 z := in_range i16_min i16_max z.
Definition in_u16 z := in_range 0 u16_max z.
Definition in_i32 z := in_range i32_min i32_max z.
Definition in_u32 z := in_range 0 u32_max z.
Definition in_i64 z := in_range i64_min i64_max z.
Definition in_u64 z := in_range 0 u64_max z.
Definition in_i128 z := in_range i128_min i128_max z.
(* usize/isize on the 64-bit targets the harness runs on *)
Definition in_usize z := in_u64 z.
Definition in_isize z := in_i64 z.

(** A trapping operation: result must lie in the type's range. *)
Definition chk (inr : Z -> bool) (z : Z) : R Z := if inr z then Val z else Panic.
(** A checked_* operation. *)
Definition chko (inr : Z -> bool) (z : Z) : option Z := if inr z then Some z else None.

Definition add_i32 a b := chk in_i32 (a + b).  Definition sub_i32 a b := chk in_i32 (a - b).
Definition mul_i32 a b := chk in_i32 (a * b).  Definition neg_i32 a := chk in_i32 (- a).
Definition add_u32 a b := chk in_u32 (a + b).  Definition sub_u32 a b := chk in_u32 (a - b).
Definition mul_u32 a b := chk in_u32 (a * b).
Definition add_i64 a b := chk in_i64 (a + b).  Definition sub_i64 a b := chk in_i64 (a - b).
Definition mul_i64 a b := chk in_i64 (a * b).  Definition neg_i64 a := chk in_i64 (- a).
Definition add_u64 a b := chk in_u64 (a + b).  Definition sub_u64 a b := chk in_u64 (a - b).
Definition mul_u64 a b := chk in_u64 (a * b).
Definition add_i128 a b := chk in_i128 (a + b). Definition sub_i128 a b := chk in_i128 (a - b).
Definition mul_i128 a b := chk in_i128 (a * b).
Definition add_usize a b := chk in_usize (a + b). Definition sub_usize a b := chk in_usize (a - b).
Definition add_u8 a b := chk in_u8 (a + b).  Definition sub_u8 a b := chk in_u8 (a - b).
Definition add_i8 a b := chk in_i8 (a + b).  Definition sub_i8 a b := chk in_i8 (a - b).
Definition add_u16 a b := chk in_u16 (a + b).  Definition sub_u16 a b := chk in_u16 (a - b).

(** Rust [/] and [%]: truncation toward zero; panic on zero divisor and on MIN / -1. *)
Definition div_t (inr : Z -> bool) (a b : Z) : R Z :=
  if b =? 0 then Panic else chk inr (Z.quot a b).
Definition rem_t (inr : Z -> bool) (a b : Z) : R Z :=
  if b =? 0 then Panic else if inr (Z.quot a b) then Val (Z.rem a b) else Panic.
Definition div_i32 := div_t in_i32.  Definition rem_i32 := rem_t in_i32.
Definition div_i64 := div_t in_i64.  Definition rem_i64 := rem_t in_i64.
Definition div_u32 := div_t in_u32.  Definition rem_u32 := rem_t in_u32.
Definition div_u64 := div_t in_u64.  Definition rem_u64 := rem_t in_u64.
Definition div_i128 := div_t in_i128. Definition rem_i128 := rem_t in_i128.

(** [div_euclid]/[rem_euclid] with a positive divisor (the only use in chrono). *)
Definition div_euclid (inr : Z -> bool) (a b : Z) : R Z :=
  if b =? 0 then Panic else
  let q := if 0 <? b then a / b else - (a / (- b)) in chk inr q.
Definition rem_euclid (inr : Z -> bool) (a b : Z) : R Z :=
  if b =? 0 then Panic else
  let q := if 0 <? b then a / b else - (a / (- b)) in
  if inr q then Val (a mod (Z.abs b)) else Panic.

(** [as] casts: wrap modulo 2^n; signed targets re-centre. *)
Definition wrap_u (bits : Z) (z : Z) : Z := z mod (2 ^ bits).
Definition wrap_s (bits : Z) (z : Z) : Z :=
  let m := z mod (2 ^ bits) in if m <? 2 ^ (bits - 1) then m else m - 2 ^ bits.
Definition as_u8 := wrap_u 8.   Definition as_i8 := wrap_s 8.
Definition as_u16 := wrap_u 16. Definition as_i16 := wrap_s 16.
Definition as_u32 := wrap_u 32. Definition as_i32 := wrap_s 32.
Definition as_u64 := wrap_u 64. Definition as_i64 := wrap_s 64.
Definition as_usize := wrap_u 64. Definition as_isize := wrap_s 64.
Definition as_i128 := wrap_s 128. Definition as_u128 := wrap_u 128.

(** checked_* families *)
Definition checked_add (inr : Z -> bool) a b := chko inr (a + b).
Definition checked_sub (inr : Z -> bool) a b := chko inr (a - b).
Definition checked_mul (inr : Z -> bool) a b := chko inr (a * b).
Definition checked_neg (inr : Z -> bool) a := chko inr (- a).
Definition checked_div_t (inr : Z -> bool) a b :=
  if b =? 0 then None else chko inr (Z.quot a b).
Definition checked_abs (inr : Z -> bool) a := chko inr (Z.abs a).

(** [abs] on a signed type traps on MIN. *)
Definition abs_i64 a := chk in_i64 (Z.abs a).
Definition abs_i32 a := chk in_i32 (Z.abs a).

(** unwrap / expect *)
Definition unwrap {A} (o : option A) : R A := match o with Some a => Val a | None => Panic end.
Definition unwrap_r {A} (o : R (option A)) : R A := bind o unwrap.
Definition rassert (b : bool) : R unit := if b then Val tt else Panic.

(** saturating *)
Definition clamp (lo hi z : Z) : Z := if z <? lo then lo else if hi <? z then hi else z.

(** Comparison result as Rust's Ordering -> -1/0/1 *)
Definition cmpZ (a b : Z) : Z := match a ?= b with Lt => -1 | Eq => 0 | Gt => 1 end.
Fixpoint cmp_lex (l1 l2 : list Z) : Z :=
  match l1, l2 with
  | a :: r1, b :: r2 => let c := cmpZ a b in if c =? 0 then cmp_lex r1 r2 else c
  | [], [] => 0 | [], _ => -1 | _, [] => 1
  end.

(** Indexing with bounds check. *)
Fixpoint nth_z_aux {A} (l : list A) (n : nat) : option A :=
  match l, n with
  | a :: _, O => Some a
  | _ :: r, S n' => nth_z_aux r n'
  | [], _ => None
  end.
Definition index {A} (l : list A) (i : Z) : R A :=
  if i <? 0 then Panic else unwrap (nth_z_aux l (Z.to_nat i)).
