(** UTF-8 byte strings as [list Z] and the [str] primitives the text scanners of chrono use:
    [str::is_char_boundary], slicing [&s[i..]] (traps when [i] is out of bounds or not on a char
    boundary), [Chars::next] (core::str::validations::next_code_point), [char::len_utf8],
    [char::is_whitespace] (Unicode White_Space, 25 code points), [str::trim_start] /
    [trim_start_matches], ASCII classification and case folding, and UTF-8 well-formedness
    (Unicode table 3-7 = what [core::str::from_utf8] accepts: a case argument of Rust type [&str]
    must satisfy it).  Shared by the text properties (C09..C15).  No proofs in this file. *)
From Coq Require Import ZArith List Bool.
From V Require Import Base.Int Base.IO.
Import ListNotations.
Open Scope Z_scope.

Definition blen (s : bytes) : Z := Z.of_nat (List.length s).
Definition is_empty (s : bytes) : bool := match s with [] => true | _ => false end.

(** ** ASCII *)
Definition is_ascii_digit (c : Z) : bool := (48 <=? c) && (c <=? 57).
Definition is_ascii_uppercase (c : Z) : bool := (65 <=? c) && (c <=? 90).
Definition is_ascii_lowercase (c : Z) : bool := (97 <=? c) && (c <=? 122).
Definition is_ascii_alphabetic (c : Z) : bool := is_ascii_uppercase c || is_ascii_lowercase c.
(* u8::to_ascii_lowercase: *self | ((self.is_ascii_uppercase() as u8) * 0x20) *)
Definition to_ascii_lowercase (c : Z) : Z := Z.lor c ((if is_ascii_uppercase c then 1 else 0) * 32).
Definition u8_eq_ignore_ascii_case (a b : Z) : bool := to_ascii_lowercase a =? to_ascii_lowercase b.
Fixpoint all2 (f : Z -> Z -> bool) (a b : bytes) : bool :=
  match a, b with
  | x :: a', y :: b' => f x y && all2 f a' b'
  | _, _ => true
  end.
(* <[u8]>::eq_ignore_ascii_case: equal lengths and pairwise equal ignoring ASCII case *)
Definition eq_ignore_ascii_case (a b : bytes) : bool :=
  (blen a =? blen b) && all2 u8_eq_ignore_ascii_case a b.

(** ** Char boundaries and slicing *)
(* u8::is_utf8_char_boundary: (b as i8) >= -0x40 *)
Definition is_utf8_char_boundary (b : Z) : bool := as_i8 b >=? -64.
(* str::is_char_boundary *)
Definition is_char_boundary (s : bytes) (i : Z) : bool :=
  if i =? 0 then true
  else if blen s <=? i then i =? blen s
  else match nth_z_aux s (Z.to_nat i) with Some b => is_utf8_char_boundary b | None => false end.
(* &s[i..] on a str: traps unless i is a char boundary (which implies i <= len) *)
Definition str_from (s : bytes) (i : Z) : R bytes :=
  if (0 <=? i) && is_char_boundary s i then Val (skipn (Z.to_nat i) s) else Panic.
(* &b[..n] on a byte slice: traps when n > len *)
Definition slice_to (s : bytes) (n : Z) : R bytes :=
  if (0 <=? n) && (n <=? blen s) then Val (firstn (Z.to_nat n) s) else Panic.

(** ** Decoding one scalar value: [s.chars().next()] together with the remaining iterator.
    Follows core::str::validations::next_code_point, which does not validate (the input is a
    [str]); on a truncated sequence (impossible for a [str]) the model answers [None]. *)
Definition next_code_point (s : bytes) : option (Z * bytes) :=
  match s with
  | [] => None
  | x :: r =>
    if x <? 128 then Some (x, r) else
    match r with
    | [] => None
    | y :: r1 =>
      let init := Z.land x 31 in
      if x <? 224 then Some (init * 64 + Z.land y 63, r1) else
      match r1 with
      | [] => None
      | z :: r2 =>
        let y_z := Z.land y 63 * 64 + Z.land z 63 in
        if x <? 240 then Some (init * 4096 + y_z, r2) else
        match r2 with
        | [] => None
        | w :: r3 => Some (Z.land init 7 * 262144 + (y_z * 64 + Z.land w 63), r3)
        end
      end
    end
  end.
(* char::len_utf8 *)
Definition len_utf8 (c : Z) : Z :=
  if c <? 128 then 1 else if c <? 2048 then 2 else if c <? 65536 then 3 else 4.

(** ** White space: char::is_whitespace = the Unicode White_Space property *)
Definition is_whitespace (c : Z) : bool :=
  (c =? 32) || ((9 <=? c) && (c <=? 13))
  || (c =? 133) || (c =? 160) || (c =? 5760)
  || ((8192 <=? c) && (c <=? 8202))
  || (c =? 8232) || (c =? 8233) || (c =? 8239) || (c =? 8287) || (c =? 12288).

(** ** str::trim_start_matches(pred) / trim_start: drop leading scalar values satisfying [p].
    Every step consumes at least one byte, so fuel = length is always enough. *)
Fixpoint trim_start_matches_fuel (fuel : nat) (p : Z -> bool) (s : bytes) : bytes :=
  match fuel with
  | O => s
  | S f =>
    match next_code_point s with
    | Some (c, r) => if p c then trim_start_matches_fuel f p r else s
    | None => s
    end
  end.
Definition trim_start_matches (p : Z -> bool) (s : bytes) : bytes :=
  trim_start_matches_fuel (List.length s) p s.
Definition trim_start (s : bytes) : bytes := trim_start_matches is_whitespace s.
(* str::starts_with(char) for an ASCII char *)
Definition starts_with_byte (s : bytes) (c : Z) : bool :=
  match s with x :: _ => x =? c | [] => false end.

(** ** Well-formed UTF-8 (Unicode 15, table 3-7) *)
Definition cont (b : Z) : bool := (128 <=? b) && (b <=? 191).
Fixpoint utf8_valid (s : bytes) : bool :=
  match s with
  | [] => true
  | a :: r =>
    if (0 <=? a) && (a <=? 127) then utf8_valid r
    else if (194 <=? a) && (a <=? 223) then
      match r with b :: r' => cont b && utf8_valid r' | _ => false end
    else if (224 <=? a) && (a <=? 239) then
      match r with
      | b :: c :: r' =>
          (if a =? 224 then (160 <=? b) && (b <=? 191)
           else if a =? 237 then (128 <=? b) && (b <=? 159) else cont b)
          && cont c && utf8_valid r'
      | _ => false end
    else if (240 <=? a) && (a <=? 244) then
      match r with
      | b :: c :: d :: r' =>
          (if a =? 240 then (144 <=? b) && (b <=? 191)
           else if a =? 244 then (128 <=? b) && (b <=? 143) else cont b)
          && cont c && cont d && utf8_valid r'
      | _ => false end
    else false
  end.
