From V Require Import Base.IO Model.C19 Judge.C19.
Require Extraction.
Require Import ExtrOcamlBasic.
Definition verif_run_line := run_line Model.C19.run.
Definition verif_judge_line := judge_line Judge.C19.judge.
Extraction "model_C19.ml" verif_run_line verif_judge_line.
