From V Require Import Base.IO Model.C15 Judge.C15.
Require Extraction.
Require Import ExtrOcamlBasic.
Definition verif_run_line := run_line Model.C15.run.
Definition verif_judge_line := judge_line Judge.C15.judge.
Extraction "model_C15.ml" verif_run_line verif_judge_line.
