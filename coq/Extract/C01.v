From V Require Import Base.IO Model.C01b Judge.C01b.
Require Extraction.
Require Import ExtrOcamlBasic.
Definition verif_run_line := run_line Model.C01b.run.
Definition verif_judge_line := judge_line Judge.C01b.judge.
Extraction "model_C01.ml" verif_run_line verif_judge_line.
