From V Require Import Base.IO Model.C16 Judge.C16.
Require Extraction.
Require Import ExtrOcamlBasic.
Definition verif_run_line := run_line Model.C16.run.
Definition verif_judge_line := judge_line Judge.C16.judge.
Extraction "model_C16.ml" verif_run_line verif_judge_line.
