From V Require Import Base.IO Model.C05 Judge.C05.
Require Extraction.
Require Import ExtrOcamlBasic.
Definition verif_run_line := run_line Model.C05.run.
Definition verif_judge_line := judge_line Judge.C05.judge.
Extraction "model_C05.ml" verif_run_line verif_judge_line.
