From V Require Import Base.IO Model.C06 Judge.C06.
Require Extraction.
Require Import ExtrOcamlBasic.
Definition verif_run_line := run_line Model.C06.run.
Definition verif_judge_line := judge_line Judge.C06.judge.
Extraction "model_C06.ml" verif_run_line verif_judge_line.
