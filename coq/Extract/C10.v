From V Require Import Base.IO Model.C10 Judge.C10.
Require Extraction.
Require Import ExtrOcamlBasic.
Definition verif_run_line := run_line Model.C10.run.
Definition verif_judge_line := judge_line Judge.C10.judge.
Extraction "model_C10.ml" verif_run_line verif_judge_line.
