From V Require Import Base.IO Model.C12 Judge.C12.
Require Extraction.
Require Import ExtrOcamlBasic.
Definition verif_run_line := run_line Model.C12.run.
Definition verif_judge_line := judge_line Judge.C12.judge.
Extraction "model_C12.ml" verif_run_line verif_judge_line.
