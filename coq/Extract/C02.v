From V Require Import Base.IO Model.C02 Judge.C02.
Require Extraction.
Require Import ExtrOcamlBasic.
Definition verif_run_line := run_line Model.C02.run.
Definition verif_judge_line := judge_line Judge.C02.judge.
Extraction "model_C02.ml" verif_run_line verif_judge_line.
