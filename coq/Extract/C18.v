From V Require Import Base.IO Model.C18 Judge.C18.
Require Extraction.
Require Import ExtrOcamlBasic.
Definition verif_run_line := run_line Model.C18.run.
Definition verif_judge_line := judge_line Judge.C18.judge.
Extraction "model_C18.ml" verif_run_line verif_judge_line.
