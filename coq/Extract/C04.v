From V Require Import Base.IO Model.C04 Judge.C04.
Require Extraction.
Require Import ExtrOcamlBasic.
Definition verif_run_line := run_line Model.C04.run.
Definition verif_judge_line := judge_line Judge.C04.judge.
Extraction "model_C04.ml" verif_run_line verif_judge_line.
