From V Require Import Base.IO Model.C14 Judge.C14.
Require Extraction.
Require Import ExtrOcamlBasic.
Definition verif_run_line := run_line Model.C14.run.
Definition verif_judge_line := judge_line Judge.C14.judge.
Extraction "model_C14.ml" verif_run_line verif_judge_line.
