From V Require Import Base.IO Model.C03 Judge.C03.
Require Extraction.
Require Import ExtrOcamlBasic.
Definition verif_run_line := run_line Model.C03.run.
Definition verif_judge_line := judge_line Judge.C03.judge.
Extraction "model_C03.ml" verif_run_line verif_judge_line.
