From V Require Import Base.IO Model.C11 Judge.C11.
Require Extraction.
Require Import ExtrOcamlBasic.
Definition verif_run_line := run_line Model.C11.run.
Definition verif_judge_line := judge_line Judge.C11.judge.
Extraction "model_C11.ml" verif_run_line verif_judge_line.
