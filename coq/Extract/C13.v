From V Require Import Base.IO Model.C13 Judge.C13.
Require Extraction.
Require Import ExtrOcamlBasic.
Definition verif_run_line := run_line Model.C13.run.
Definition verif_judge_line := judge_line Judge.C13.judge.
Extraction "model_C13.ml" verif_run_line verif_judge_line.
