From V Require Import Base.IO Model.C08 Judge.C08.
Require Extraction.
Require Import ExtrOcamlBasic.
Definition verif_run_line := run_line Model.C08.run.
Definition verif_judge_line := judge_line Judge.C08.judge.
Extraction "model_C08.ml" verif_run_line verif_judge_line.
