From V Require Import Base.IO Model.C07 Judge.C07.
Require Extraction.
Require Import ExtrOcamlBasic.
Definition verif_run_line := run_line Model.C07.run.
Definition verif_judge_line := judge_line Judge.C07.judge.
Extraction "model_C07.ml" verif_run_line verif_judge_line.
