From V Require Import Base.IO Model.C17 Judge.C17.
Require Extraction.
Require Import ExtrOcamlBasic.
Definition verif_run_line := run_line Model.C17.run.
Definition verif_judge_line := judge_line Judge.C17.judge.
Extraction "model_C17.ml" verif_run_line verif_judge_line.
