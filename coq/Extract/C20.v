From V Require Import Base.IO Model.C20 Judge.C20.
Require Extraction.
Require Import ExtrOcamlBasic.
Definition verif_run_line := run_line Model.C20.run.
Definition verif_judge_line := judge_line Judge.C20.judge.
Extraction "model_C20.ml" verif_run_line verif_judge_line.
