From V Require Import Base.IO Model.C09 Judge.C09.
Require Extraction.
Require Import ExtrOcamlBasic.
Definition verif_run_line := run_line Model.C09.run.
Definition verif_judge_line := judge_line Judge.C09.judge.
Extraction "model_C09.ml" verif_run_line verif_judge_line.
