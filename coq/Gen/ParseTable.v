(* translator failed: parse_rfc2822: number fields changed: [('day', 's', '1', '2'), ('hour', 's', '2', '2'), ('minute', 's', '2', '2')] *)
Definition translator_failed : False := I.
