(* translator failed: parse_internal: AM/PM arm not recognised *)
Definition translator_failed : False := I.
