// Discovers src/ops/*.rs so that property modules can be added without touching main.rs.
use std::{env, fs, path::Path};
fn main() {
    let dir = Path::new("src/ops");
    let mut names: Vec<String> = fs::read_dir(dir)
        .unwrap()
        .filter_map(|e| e.ok())
        .filter_map(|e| {
            let n = e.file_name().into_string().ok()?;
            n.strip_suffix(".rs").map(|s| s.to_string())
        })
        .collect();
    names.sort();
    let manifest = env::var("CARGO_MANIFEST_DIR").unwrap();
    let mut out = String::new();
    for n in &names {
        out.push_str(&format!("#[path = \"{}/src/ops/{}.rs\"]\npub mod {};\n", manifest, n, n));
    }
    out.push_str("pub fn dispatch(op: &str, a: &[Val]) -> Option<Val> {\n");
    for n in &names {
        out.push_str(&format!("    if let Some(v) = {}::dispatch(op, a) {{ return Some(v); }}\n", n));
    }
    out.push_str("    None\n}\n");
    let dst = Path::new(&env::var("OUT_DIR").unwrap()).join("ops_gen.rs");
    fs::write(dst, out).unwrap();
    println!("cargo:rerun-if-changed=src/ops");
    println!("cargo:rerun-if-changed=build.rs");
}
