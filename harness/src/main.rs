//! implrun: runs case lines (see coq/Base/IO.v for the protocol) against the chrono crate built
//! from /repo's current working tree.  Every case runs under catch_unwind; a watchdog thread turns a
//! hang into a TIMEOUT result line followed by exit(3) (the orchestrator restarts after that case).
#![allow(dead_code, unused_imports, deprecated)]
use std::io::{BufRead, Write};
use std::sync::atomic::{AtomicU64, Ordering};
use std::sync::{Arc, Mutex};
use std::time::{Duration, Instant};

pub mod val;
pub use val::*;
include!(concat!(env!("OUT_DIR"), "/ops_gen.rs"));

static CASE_SEQ: AtomicU64 = AtomicU64::new(0);

fn main() {
    std::panic::set_hook(Box::new(|_| {}));
    let timeout_ms: u64 = std::env::var("IMPLRUN_TIMEOUT_MS").ok().and_then(|s| s.parse().ok()).unwrap_or(10_000);
    let out = Arc::new(Mutex::new(std::io::BufWriter::with_capacity(1 << 16, std::io::stdout())));
    let started = Arc::new(Mutex::new(Instant::now()));
    {
        let out = out.clone();
        let started = started.clone();
        std::thread::spawn(move || {
            let mut last_seq = u64::MAX;
            let mut last_change = Instant::now();
            loop {
                std::thread::sleep(Duration::from_millis(200));
                let seq = CASE_SEQ.load(Ordering::SeqCst);
                if seq != last_seq { last_seq = seq; last_change = *started.lock().unwrap(); continue; }
                if seq % 2 == 1 && last_change.elapsed() > Duration::from_millis(timeout_ms) {
                    // odd = a case is running
                    if let Ok(mut o) = out.lock() { let _ = o.write_all(b"TIMEOUT\n"); let _ = o.flush(); }
                    std::process::exit(3);
                }
            }
        });
    }
    let stdin = std::io::stdin();
    let mut line = String::new();
    let mut lock = stdin.lock();
    let mut res = String::new();
    loop {
        line.clear();
        match lock.read_line(&mut line) { Ok(0) => break, Ok(_) => {}, Err(_) => break }
        let l = line.trim_end_matches(&['\n', '\r'][..]);
        *started.lock().unwrap() = Instant::now();
        CASE_SEQ.fetch_add(1, Ordering::SeqCst);
        let v = match parse_case(l) {
            None => Val::Err("BADCASE".into()),
            Some((op, args)) => {
                let r = std::panic::catch_unwind(std::panic::AssertUnwindSafe(|| dispatch(&op, &args)));
                match r { Ok(Some(v)) => v, Ok(None) => Val::Err("NOOP".into()), Err(_) => Val::Panic }
            }
        };
        CASE_SEQ.fetch_add(1, Ordering::SeqCst);
        res.clear(); v.print(&mut res); res.push('\n');
        let mut o = out.lock().unwrap();
        let _ = o.write_all(res.as_bytes());
    }
    let _ = out.lock().unwrap().flush();
}
