//! The `val` syntax of the case protocol (see coq/Base/IO.v) and the canonical encodings of
//! chrono values used by every property module.
use chrono::{DateTime, Datelike, FixedOffset, NaiveDate, NaiveDateTime, NaiveTime, TimeDelta, TimeZone, Timelike, Weekday, Month, MappedLocalTime};

#[derive(Clone, Debug, PartialEq)]
pub enum Val {
    Int(i128),
    Str(Vec<u8>),
    None,
    Some(Box<Val>),
    Tup(Vec<Val>),
    Err(String),
    Panic,
    Timeout,
}

pub fn bad() -> Val { Val::Err("BADARGS".into()) }

impl Val {
    pub fn print(&self, out: &mut String) {
        match self {
            Val::Int(z) => out.push_str(&z.to_string()),
            Val::Str(s) => { out.push('x'); for b in s { out.push_str(&format!("{:02x}", b)); } }
            Val::None => out.push_str("none"),
            Val::Some(v) => { out.push_str("some("); v.print(out); out.push(')'); }
            Val::Tup(l) => {
                out.push('(');
                for (i, v) in l.iter().enumerate() { if i > 0 { out.push(','); } v.print(out); }
                out.push(')');
            }
            Val::Err(s) => { out.push_str("err:"); out.push_str(s); }
            Val::Panic => out.push_str("PANIC"),
            Val::Timeout => out.push_str("TIMEOUT"),
        }
    }
    pub fn to_string(&self) -> String { let mut s = String::new(); self.print(&mut s); s }

    pub fn int(&self) -> Option<i128> { if let Val::Int(z) = self { Some(*z) } else { None } }
    pub fn i64(&self) -> Option<i64> { self.int().and_then(|z| i64::try_from(z).ok()) }
    pub fn i32(&self) -> Option<i32> { self.int().and_then(|z| i32::try_from(z).ok()) }
    pub fn u32(&self) -> Option<u32> { self.int().and_then(|z| u32::try_from(z).ok()) }
    pub fn u64(&self) -> Option<u64> { self.int().and_then(|z| u64::try_from(z).ok()) }
    pub fn u8(&self) -> Option<u8> { self.int().and_then(|z| u8::try_from(z).ok()) }
    pub fn u16(&self) -> Option<u16> { self.int().and_then(|z| u16::try_from(z).ok()) }
    pub fn i8(&self) -> Option<i8> { self.int().and_then(|z| i8::try_from(z).ok()) }
    pub fn i16(&self) -> Option<i16> { self.int().and_then(|z| i16::try_from(z).ok()) }
    pub fn usize(&self) -> Option<usize> { self.int().and_then(|z| usize::try_from(z).ok()) }
    pub fn bytes(&self) -> Option<&[u8]> { if let Val::Str(s) = self { Some(s) } else { None } }
    pub fn str(&self) -> Option<&str> { self.bytes().and_then(|b| std::str::from_utf8(b).ok()) }
    pub fn tup(&self) -> Option<&[Val]> { if let Val::Tup(l) = self { Some(l) } else { None } }
}

pub fn vint<T: Into<i128>>(x: T) -> Val { Val::Int(x.into()) }
pub fn vbool(b: bool) -> Val { Val::Int(b as i128) }
pub fn vstr(s: &str) -> Val { Val::Str(s.as_bytes().to_vec()) }
pub fn vsome(v: Val) -> Val { Val::Some(Box::new(v)) }
pub fn vopt<T>(o: Option<T>, f: impl FnOnce(T) -> Val) -> Val { match o { Some(x) => vsome(f(x)), None => Val::None } }
pub fn vtup(l: Vec<Val>) -> Val { Val::Tup(l) }
pub fn verr(s: &str) -> Val { Val::Err(s.into()) }

// ---- parser -------------------------------------------------------------------------------
pub fn parse_val(s: &[u8], i: &mut usize) -> Option<Val> {
    let rest = &s[*i..];
    if rest.is_empty() { return None; }
    match rest[0] {
        b'x' => {
            *i += 1;
            let mut out = Vec::new();
            while *i + 1 < s.len() {
                let h = hexv(s[*i]); let l = hexv(s[*i + 1]);
                match (h, l) { (Some(h), Some(l)) => { out.push(h * 16 + l); *i += 2; } _ => break }
            }
            Some(Val::Str(out))
        }
        b'(' => {
            *i += 1;
            let mut items = Vec::new();
            if s.get(*i) == Some(&b')') { *i += 1; return Some(Val::Tup(items)); }
            loop {
                items.push(parse_val(s, i)?);
                match s.get(*i) { Some(b',') => { *i += 1; } Some(b')') => { *i += 1; break; } _ => return None }
            }
            Some(Val::Tup(items))
        }
        _ => {
            if rest.starts_with(b"none") { *i += 4; return Some(Val::None); }
            if rest.starts_with(b"some(") {
                *i += 5; let v = parse_val(s, i)?;
                if s.get(*i) == Some(&b')') { *i += 1; return Some(vsome(v)); } else { return None; }
            }
            if rest.starts_with(b"err:") {
                *i += 4; let st = *i;
                while *i < s.len() && !matches!(s[*i], b',' | b')' | b' ' | b'\t') { *i += 1; }
                return Some(Val::Err(String::from_utf8_lossy(&s[st..*i]).into_owned()));
            }
            if rest.starts_with(b"PANIC") { *i += 5; return Some(Val::Panic); }
            if rest.starts_with(b"TIMEOUT") { *i += 7; return Some(Val::Timeout); }
            let st = *i;
            if s[*i] == b'-' { *i += 1; }
            let d0 = *i;
            while *i < s.len() && s[*i].is_ascii_digit() { *i += 1; }
            if *i == d0 { return None; }
            std::str::from_utf8(&s[st..*i]).ok()?.parse::<i128>().ok().map(Val::Int)
        }
    }
}
fn hexv(c: u8) -> Option<u8> {
    match c { b'0'..=b'9' => Some(c - b'0'), b'a'..=b'f' => Some(c - b'a' + 10), b'A'..=b'F' => Some(c - b'A' + 10), _ => None }
}
pub fn parse_case(line: &str) -> Option<(String, Vec<Val>)> {
    let mut it = line.split_ascii_whitespace();
    let op = it.next()?.to_string();
    let mut args = Vec::new();
    for w in it {
        let mut i = 0; let b = w.as_bytes();
        let v = parse_val(b, &mut i)?;
        if i != b.len() { return None; }
        args.push(v);
    }
    Some((op, args))
}

// ---- canonical encodings of chrono values -------------------------------------------------
/// date = (year, ordinal)
pub fn enc_date(d: NaiveDate) -> Val { vtup(vec![vint(d.year()), vint(d.ordinal())]) }
pub fn dec_date(v: &Val) -> Option<NaiveDate> {
    let t = v.tup()?; if t.len() != 2 { return None; }
    NaiveDate::from_yo_opt(t[0].i32()?, t[1].u32()?)
}
/// time = (seconds from midnight, nanosecond field incl. leap representation)
pub fn enc_time(t: NaiveTime) -> Val { vtup(vec![vint(t.num_seconds_from_midnight()), vint(t.nanosecond())]) }
pub fn dec_time(v: &Val) -> Option<NaiveTime> {
    let t = v.tup()?; if t.len() != 2 { return None; }
    let secs = t[0].u32()?; let frac = t[1].u32()?;
    if secs >= 86400 || frac >= 2_000_000_000 { return None; }
    if frac < 1_000_000_000 { NaiveTime::from_num_seconds_from_midnight_opt(secs, frac) }
    else {
        // a leap fraction on any second is reachable through with_second (keeps frac)
        let t = NaiveTime::from_hms_nano_opt(secs / 3600, secs / 60 % 60, 59, frac)?.with_second(secs % 60)?;
        if t.num_seconds_from_midnight() == secs && t.nanosecond() == frac { Some(t) } else { None }
    }
}
/// naive date-time = (year, ordinal, secs, frac)
pub fn enc_ndt(n: NaiveDateTime) -> Val {
    vtup(vec![vint(n.date().year()), vint(n.date().ordinal()), vint(n.time().num_seconds_from_midnight()), vint(n.time().nanosecond())])
}
pub fn dec_ndt(v: &Val) -> Option<NaiveDateTime> {
    let t = v.tup()?; if t.len() != 4 { return None; }
    let d = NaiveDate::from_yo_opt(t[0].i32()?, t[1].u32()?)?;
    let tm = dec_time(&vtup(vec![t[2].clone(), t[3].clone()]))?;
    Some(NaiveDateTime::new(d, tm))
}
/// date-time = (year, ordinal, secs, frac, offset seconds): naive UTC reading + offset
pub fn enc_dt<Tz: TimeZone>(z: &DateTime<Tz>) -> Val where Tz::Offset: chrono::Offset {
    use chrono::Offset;
    let n = z.naive_utc();
    vtup(vec![vint(n.date().year()), vint(n.date().ordinal()), vint(n.time().num_seconds_from_midnight()),
              vint(n.time().nanosecond()), vint(z.offset().fix().local_minus_utc())])
}
pub fn dec_dt(v: &Val) -> Option<DateTime<FixedOffset>> {
    let t = v.tup()?; if t.len() != 5 { return None; }
    let n = dec_ndt(&vtup(t[..4].to_vec()))?;
    let off = FixedOffset::east_opt(t[4].i32()?)?;
    Some(off.from_utc_datetime(&n))
}
/// duration = (secs, nanos): the internal representation, read from the derived `Debug` output
/// (`TimeDelta { secs: S, nanos: N }`), so that no accessor under test is involved in the encoding.
pub fn enc_td(d: TimeDelta) -> Val {
    let s = format!("{:?}", d);
    let nums: Vec<i128> = s
        .split(|c: char| !(c.is_ascii_digit() || c == '-'))
        .filter(|w| !w.is_empty())
        .filter_map(|w| w.parse::<i128>().ok())
        .collect();
    if nums.len() == 2 { vtup(vec![vint(nums[0]), vint(nums[1])]) } else { verr("TDDEBUG") }
}
pub fn dec_td(v: &Val) -> Option<TimeDelta> {
    let t = v.tup()?; if t.len() != 2 { return None; }
    TimeDelta::new(t[0].i64()?, t[1].u32()?)
}
pub fn enc_wd(w: Weekday) -> Val { vint(w.num_days_from_monday()) }
pub fn dec_wd(v: &Val) -> Option<Weekday> {
    Some(match v.int()? { 0 => Weekday::Mon, 1 => Weekday::Tue, 2 => Weekday::Wed, 3 => Weekday::Thu, 4 => Weekday::Fri, 5 => Weekday::Sat, 6 => Weekday::Sun, _ => return None })
}
pub fn enc_month(m: Month) -> Val { vint(m.number_from_month()) }
pub fn dec_month(v: &Val) -> Option<Month> { Month::try_from(v.u8()?).ok() }
pub fn enc_mlt<T>(m: MappedLocalTime<T>, f: impl Fn(T) -> Val) -> Val {
    match m {
        MappedLocalTime::None => vtup(vec![]),
        MappedLocalTime::Single(a) => vtup(vec![f(a)]),
        MappedLocalTime::Ambiguous(a, b) => vtup(vec![f(a), f(b)]),
    }
}
