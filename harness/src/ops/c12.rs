//! C12 (shared with C13/C15): strftime item parsing and formatting.
//!   sf.items <fmt> lenient        -> canonical item list, or err:Unbounded beyond 16*len+32 items
//!   sf.fmt kind value <fmt>       -> text, or err:fmt when formatting fails (strict items)
//!   sf.fmtl kind value <fmt>      -> same with StrftimeItems::new_lenient
//!   sf.dfmt kind value <fmt>      -> text through the deprecated free function chrono::format::format
//!   sf.dfmti kind value <fmt>     -> text through chrono::format::format_item, item by item
//! kind: 0 NaiveDate, 1 NaiveTime, 2 NaiveDateTime, 3 DateTime<FixedOffset>, 4 DateTime<Utc>.
//! Canonical items: (0,text) Literal, (1,text) Space, (2,numeric,pad) Numeric, (3,fixed) Fixed,
//! (4) Error; numeric/fixed/pad numbered in declaration order of src/format/mod.rs, the internal
//! fixed items 100.. in declaration order of InternalInternal.
use crate::val::*;
use chrono::format::{Fixed, Item, Numeric, Pad, StrftimeItems};
use chrono::{DateTime, FixedOffset, NaiveDate, NaiveTime, Offset, TimeZone, Utc};
use std::fmt::Write;

fn enc_pad(p: Pad) -> i128 {
    match p { Pad::None => 0, Pad::Zero => 1, Pad::Space => 2 }
}
fn enc_numeric(n: &Numeric) -> Option<i128> {
    use Numeric::*;
    Some(match n {
        Year => 0, YearDiv100 => 1, YearMod100 => 2, IsoYear => 3, IsoYearDiv100 => 4, IsoYearMod100 => 5,
        Quarter => 6, Month => 7, Day => 8, WeekFromSun => 9, WeekFromMon => 10, IsoWeek => 11,
        NumDaysFromSun => 12, WeekdayFromMon => 13, Ordinal => 14, Hour => 15, Hour12 => 16, Minute => 17,
        Second => 18, Nanosecond => 19, Timestamp => 20,
        _ => return None,
    })
}
fn enc_fixed(f: &Fixed) -> Option<i128> {
    use Fixed::*;
    Some(match f {
        ShortMonthName => 0, LongMonthName => 1, ShortWeekdayName => 2, LongWeekdayName => 3,
        LowerAmPm => 4, UpperAmPm => 5, Nanosecond => 6, Nanosecond3 => 7, Nanosecond6 => 8, Nanosecond9 => 9,
        TimezoneName => 10, TimezoneOffsetColon => 11, TimezoneOffsetDoubleColon => 12,
        TimezoneOffsetTripleColon => 13, TimezoneOffsetColonZ => 14, TimezoneOffset => 15, TimezoneOffsetZ => 16,
        RFC2822 => 17, RFC3339 => 18,
        Internal(i) => {
            // the payload is private: read the derived Debug text
            let s = format!("{:?}", i);
            if s.contains("TimezoneOffsetPermissive") { 100 }
            else if s.contains("Nanosecond3NoDot") { 101 }
            else if s.contains("Nanosecond6NoDot") { 102 }
            else if s.contains("Nanosecond9NoDot") { 103 }
            else { return None }
        }
        _ => return None,
    })
}
pub fn enc_item(it: &Item) -> Val {
    match it {
        Item::Literal(s) => vtup(vec![vint(0), vstr(s)]),
        Item::OwnedLiteral(s) => vtup(vec![vint(0), vstr(s)]),
        Item::Space(s) => vtup(vec![vint(1), vstr(s)]),
        Item::OwnedSpace(s) => vtup(vec![vint(1), vstr(s)]),
        Item::Numeric(n, p) => match enc_numeric(n) {
            Some(k) => vtup(vec![vint(2), vint(k), vint(enc_pad(*p))]),
            None => verr("ITEM"),
        },
        Item::Fixed(f) => match enc_fixed(f) { Some(k) => vtup(vec![vint(3), vint(k)]), None => verr("ITEM") },
        Item::Error => vtup(vec![vint(4)]),
    }
}

fn items(s: &str, lenient: bool) -> Val {
    let bound = 16 * s.len() + 32;
    let it = if lenient { StrftimeItems::new_lenient(s) } else { StrftimeItems::new(s) };
    let mut out = Vec::new();
    for item in it {
        if out.len() >= bound { return verr("Unbounded"); }
        out.push(enc_item(&item));
    }
    vtup(out)
}

fn render<D: std::fmt::Display>(d: D) -> Val {
    let mut s = String::new();
    match write!(&mut s, "{}", d) { Ok(()) => vstr(&s), Err(_) => verr("fmt") }
}

fn fmt(kind: i128, v: &Val, f: &str, lenient: bool) -> Option<Val> {
    let it = if lenient { StrftimeItems::new_lenient(f) } else { StrftimeItems::new(f) };
    Some(match kind {
        0 => render(dec_date(v)?.format_with_items(it)),
        1 => render(dec_time(v)?.format_with_items(it)),
        2 => render(dec_ndt(v)?.format_with_items(it)),
        3 => render(dec_dt(v)?.format_with_items(it)),
        4 => {
            let t = v.tup()?; if t.len() != 4 { return None; }
            let z: DateTime<Utc> = Utc.from_utc_datetime(&dec_ndt(v)?);
            render(z.format_with_items(it))
        }
        _ => return None,
    })
}

/// the arguments of the deprecated free functions `chrono::format::format` / `format_item`
#[derive(Clone)]
struct FArgs { date: Option<NaiveDate>, time: Option<NaiveTime>, off: Option<(String, FixedOffset)> }
/// `Display` through `chrono::format::format`
struct ViaFormat<'a> { a: &'a FArgs, items: StrftimeItems<'a> }
impl std::fmt::Display for ViaFormat<'_> {
    fn fmt(&self, w: &mut std::fmt::Formatter) -> std::fmt::Result {
        #[allow(deprecated)]
        chrono::format::format(w, self.a.date.as_ref(), self.a.time.as_ref(), self.a.off.as_ref(), self.items.clone())
    }
}
/// `Display` through `chrono::format::format_item`
struct ViaItem<'a> { a: &'a FArgs, item: &'a Item<'a> }
impl std::fmt::Display for ViaItem<'_> {
    fn fmt(&self, w: &mut std::fmt::Formatter) -> std::fmt::Result {
        #[allow(deprecated)]
        chrono::format::format_item(w, self.a.date.as_ref(), self.a.time.as_ref(), self.a.off.as_ref(), self.item)
    }
}
fn fargs(kind: i128, v: &Val) -> Option<FArgs> {
    Some(match kind {
        0 => FArgs { date: Some(dec_date(v)?), time: None, off: None },
        1 => FArgs { date: None, time: Some(dec_time(v)?), off: None },
        2 => { let n = dec_ndt(v)?; FArgs { date: Some(n.date()), time: Some(n.time()), off: None } }
        3 => {
            let d = dec_dt(v)?;
            let o = d.offset().fix();
            let local = d.naive_utc().checked_add_offset(o)?;
            FArgs { date: Some(local.date()), time: Some(local.time()), off: Some((d.offset().to_string(), o)) }
        }
        4 => {
            let t = v.tup()?; if t.len() != 4 { return None; }
            let n = dec_ndt(v)?;
            FArgs { date: Some(n.date()), time: Some(n.time()), off: Some((Utc.to_string(), Utc.fix())) }
        }
        _ => return None,
    })
}
fn dfmt(kind: i128, v: &Val, f: &str, per_item: bool) -> Option<Val> {
    let a = fargs(kind, v)?;
    if !per_item { return Some(render(ViaFormat { a: &a, items: StrftimeItems::new(f) })); }
    let mut s = String::new();
    for item in StrftimeItems::new(f) {
        if write!(&mut s, "{}", ViaItem { a: &a, item: &item }).is_err() { return Some(verr("fmt")); }
    }
    Some(vstr(&s))
}

pub fn dispatch(op: &str, a: &[Val]) -> Option<Val> {
    let r = match op {
        "sf.items" => (|| {
            let s = a.get(0)?.str()?;
            let l = a.get(1)?.int()?;
            if l != 0 && l != 1 { return None; }
            Some(items(s, l == 1))
        })(),
        "sf.fmt" => (|| fmt(a.get(0)?.int()?, a.get(1)?, a.get(2)?.str()?, false))(),
        "sf.fmtl" => (|| fmt(a.get(0)?.int()?, a.get(1)?, a.get(2)?.str()?, true))(),
        "sf.dfmt" => (|| dfmt(a.get(0)?.int()?, a.get(1)?, a.get(2)?.str()?, false))(),
        "sf.dfmti" => (|| dfmt(a.get(0)?.int()?, a.get(1)?, a.get(2)?.str()?, true))(),
        _ => return None,
    };
    Some(r.unwrap_or_else(bad))
}
