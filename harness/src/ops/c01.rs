//! C01: the four date forms (calendar, ordinal, ISO week, day number), accessors, succ/pred, Ord.
use crate::val::*;
use chrono::{Datelike, NaiveDate, NaiveDateTime, NaiveTime, Weekday};

/// The crate-internal `NaiveDate::num_days_from_ce` (the duplicate of the `Datelike` provided
/// method) is reached through `DateTime::<Utc>::timestamp()`.  Only differences of timestamps are
/// used, so neither the epoch constant nor the seconds-per-day constant of that route matter.
fn ts(d: NaiveDate) -> i64 { d.and_time(NaiveTime::MIN).and_utc().timestamp() }
fn inherent_dn(d: NaiveDate) -> i128 {
    let e0 = NaiveDate::from_ymd_opt(1970, 1, 1).unwrap();
    let e1 = NaiveDate::from_ymd_opt(1970, 1, 2).unwrap();
    let k = ts(e1) as i128 - ts(e0) as i128;
    let diff = ts(d) as i128 - ts(e0) as i128;
    if k > 0 && diff.rem_euclid(k) == 0 { diff.div_euclid(k) + 719_163 } else { -(1i128 << 100) }
}

struct Acc { y: i32, m: u32, d: u32, o: u32, wd: u32, iy: i32, iw: u32, dn: i128, m0: u32, d0: u32, o0: u32, dn2: i32 }
fn acc(d: NaiveDate) -> Acc {
    let w = d.iso_week();
    Acc {
        y: d.year(), m: d.month(), d: d.day(), o: d.ordinal(), wd: d.weekday().num_days_from_monday(),
        iy: w.year(), iw: w.week(), dn: inherent_dn(d), m0: d.month0(), d0: d.day0(), o0: d.ordinal0(),
        dn2: Datelike::num_days_from_ce(&d),
    }
}
fn enc_acc(a: &Acc) -> Val {
    vtup(vec![vint(a.y), vint(a.m), vint(a.d), vint(a.o), vint(a.wd), vint(a.iy), vint(a.iw), Val::Int(a.dn),
              vint(a.m0), vint(a.d0), vint(a.o0), vint(a.dn2)])
}

const FNV_OFFSET: u64 = 0xcbf2_9ce4_8422_2325;
const FNV_PRIME: u64 = 0x0000_0100_0000_01b3;
fn fnv_step(h: u64, w: u64) -> u64 { (h ^ w).wrapping_mul(FNV_PRIME) }
fn u(x: i128) -> u64 { x as u64 } // reduction mod 2^64, as the model's [Z.land _ MASK64]

/// Same per-day words and fold as `day_words`/`d_range` in coq/Model/C01.v.
fn range(lo: i32, hi: i32) -> u64 {
    const P31: i128 = 1 << 31;
    const P32: i128 = 1 << 32;
    let mut h = FNV_OFFSET;
    for n in lo..hi {
        match NaiveDate::from_num_days_from_ce_opt(n) {
            None => { h = fnv_step(h, 0); }
            Some(d) => {
                let a = acc(d);
                let r1 = NaiveDate::from_ymd_opt(a.y, a.m, a.d);
                let r2 = NaiveDate::from_yo_opt(a.y, a.o);
                let r3 = NaiveDate::from_isoywd_opt(a.iy, a.iw, dec_wd(&vint(a.wd)).unwrap());
                let s = d.succ_opt();
                let nx = NaiveDate::from_num_days_from_ce_opt(n + 1);
                let p = d.pred_opt();
                let pv = NaiveDate::from_num_days_from_ce_opt(n - 1);
                let flags = (r1 == Some(d)) as i128 + 2 * (r2 == Some(d)) as i128 + 4 * (r3 == Some(d)) as i128
                    + 8 * (s == nx) as i128 + 16 * (p == pv) as i128;
                let w1 = (a.y as i128 + P31) * P32 + (a.dn + P31);
                let w2 = (a.dn2 as i128 + P31) * P32 + a.m as i128 * 268_435_456 + a.d as i128 * 8_388_608
                    + a.o as i128 * 16_384 + a.wd as i128 * 2_048 + a.iw as i128 * 32 + flags;
                let w3 = (a.iy as i128 + P31) * P32 + a.m0 as i128 * 16_777_216 + a.d0 as i128 * 65_536 + a.o0 as i128;
                h = fnv_step(fnv_step(fnv_step(h, u(w1)), u(w2)), u(w3));
            }
        }
    }
    h
}

pub fn dispatch(op: &str, a: &[Val]) -> Option<Val> {
    let r = match op {
        "d.ymd" => (|| Some(vopt(NaiveDate::from_ymd_opt(a.get(0)?.i32()?, a.get(1)?.u32()?, a.get(2)?.u32()?), enc_date)))(),
        "d.yo" => (|| Some(vopt(NaiveDate::from_yo_opt(a.get(0)?.i32()?, a.get(1)?.u32()?), enc_date)))(),
        "d.isoywd" => (|| {
            let (y, w, wd) = (a.get(0)?.i32()?, a.get(1)?.u32()?, dec_wd(a.get(2)?)?);
            Some(vopt(NaiveDate::from_isoywd_opt(y, w, wd), enc_date))
        })(),
        "d.days" => (|| Some(vopt(NaiveDate::from_num_days_from_ce_opt(a.get(0)?.i32()?), enc_date)))(),
        "d.acc" => (|| Some(enc_acc(&acc(dec_date(a.get(0)?)?))))(),
        "d.succ" => (|| Some(vopt(dec_date(a.get(0)?)?.succ_opt(), enc_date)))(),
        "d.pred" => (|| Some(vopt(dec_date(a.get(0)?)?.pred_opt(), enc_date)))(),
        "d.cmp" => (|| Some(vint(dec_date(a.get(0)?)?.cmp(&dec_date(a.get(1)?)?) as i8)))(),
        "d.cmpiw" => (|| Some(vint(dec_date(a.get(0)?)?.iso_week().cmp(&dec_date(a.get(1)?)?.iso_week()) as i8)))(),
        "d.range" => (|| {
            let (lo, hi) = (a.get(0)?.i32()?, a.get(1)?.i32()?);
            if !(i32::MIN < lo && lo <= hi && hi < i32::MAX && (hi as i64 - lo as i64) <= 1_048_576) { return None; }
            Some(vint(range(lo, hi)))
        })(),
        // remaining accessors of the date forms, the day number through NaiveDateTime and the From
        // conversions, and the panicking twins of the constructors / succ / pred
        "d.acc2" => (|| {
            let d = dec_date(a.get(0)?)?;
            let n = NaiveDateTime::from(d);
            Some(vtup(vec![vbool(d.leap_year()), vint(d.iso_week().week0()), vint(Datelike::num_days_from_ce(&n)),
                           enc_date(NaiveDate::from(n))]))
        })(),
        #[allow(deprecated)]
        "d.pymd" => (|| Some(enc_date(NaiveDate::from_ymd(a.get(0)?.i32()?, a.get(1)?.u32()?, a.get(2)?.u32()?))))(),
        #[allow(deprecated)]
        "d.pyo" => (|| Some(enc_date(NaiveDate::from_yo(a.get(0)?.i32()?, a.get(1)?.u32()?))))(),
        #[allow(deprecated)]
        "d.pisoywd" => (|| {
            let (y, w, wd) = (a.get(0)?.i32()?, a.get(1)?.u32()?, dec_wd(a.get(2)?)?);
            Some(enc_date(NaiveDate::from_isoywd(y, w, wd)))
        })(),
        #[allow(deprecated)]
        "d.pdays" => (|| Some(enc_date(NaiveDate::from_num_days_from_ce(a.get(0)?.i32()?))))(),
        #[allow(deprecated)]
        "d.psucc" => (|| Some(enc_date(dec_date(a.get(0)?)?.succ())))(),
        #[allow(deprecated)]
        "d.ppred" => (|| Some(enc_date(dec_date(a.get(0)?)?.pred())))(),
        _ => return None,
    };
    Some(r.unwrap_or_else(bad))
}
