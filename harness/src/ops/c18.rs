//! C18: `Local` follows the TZ environment variable (per-thread cache with a one-second re-check).
//!
//! One op: `lc.history <steps>` executes a history of environment changes, waits and
//! conversions in this process with the real `std::env::set_var("TZ", ..)`, on a FRESH thread (the
//! cache of chrono is thread-local and would otherwise survive from one case to the next); the TZ
//! variable is restored afterwards.  The result is one record per step
//! `(wall0, mono0, wall1, mono1, answer)`: clock readings (ns since the start of the history) taken
//! just before and just after the step and, for a conversion, the offset chrono answered.
//!
//! Steps: `(0,x<bytes>)` set TZ | `(1)` unset TZ | `(2,ms)` real sleep | `(3,dir,ndt)` conversion
//! (dir 0 = `from_utc_datetime`, 1 = `from_local_datetime`) | `(4)` continue on a freshly spawned
//! thread | `(5)` end of that thread, back to the spawning one | `(6,ms)` simulated wait (both
//! clocks advance, nothing sleeps) | `(7,ms)` the wall clock is stepped by a signed amount (as an
//! operator or NTP would; the monotonic clock is unaffected).
//!
//! Simulated time: the process' own `clock_gettime` is defined below.  It forwards to the kernel and,
//! ONLY on a thread that is executing a history (thread-local flag) and only while a history runs
//! (the offsets are reset to zero when it ends, also on a panic), adds an adjustable offset to
//! CLOCK_REALTIME / CLOCK_MONOTONIC.  Every other thread and every other op sees the true clocks.
//! chrono's code is unchanged and reads the clock through std as always.
//!
//! Before the first history the op writes a fixed table of small files under `c18z` directories (in
//! /tmp and in the four zoneinfo directories chrono searches); gen/C18.py describes the same table to
//! the model and the judge.
use crate::val::*;
use chrono::{Local, MappedLocalTime, Offset, TimeZone};
use std::sync::atomic::{AtomicI64, Ordering};
use std::time::{Duration, Instant, SystemTime, UNIX_EPOCH};

static WALL_OFF_NS: AtomicI64 = AtomicI64::new(0);
static MONO_OFF_NS: AtomicI64 = AtomicI64::new(0);
thread_local! {
    /// true only on the threads that execute a history: every other thread of the process (the
    /// main loop, its watchdog, other properties' ops) always reads the true clocks
    static IN_HISTORY: std::cell::Cell<bool> = const { std::cell::Cell::new(false) };
}

#[repr(C)]
pub struct Timespec {
    tv_sec: i64,
    tv_nsec: i64,
}
extern "C" {
    fn syscall(num: i64, ...) -> i64;
}
#[cfg(target_arch = "x86_64")]
const SYS_CLOCK_GETTIME: i64 = 228;
#[cfg(target_arch = "aarch64")]
const SYS_CLOCK_GETTIME: i64 = 113;

/// The clock std reads.  Forwards to the kernel and adds the simulated offsets (0 by default).
#[cfg(all(target_os = "linux", target_pointer_width = "64", any(target_arch = "x86_64", target_arch = "aarch64")))]
#[no_mangle]
pub unsafe extern "C" fn clock_gettime(clk: i32, ts: *mut Timespec) -> i32 {
    let r = syscall(SYS_CLOCK_GETTIME, clk as i64, ts);
    if r == 0 && !ts.is_null() && IN_HISTORY.try_with(|f| f.get()).unwrap_or(false) {
        let off = match clk {
            0 => WALL_OFF_NS.load(Ordering::SeqCst), // CLOCK_REALTIME
            1 => MONO_OFF_NS.load(Ordering::SeqCst), // CLOCK_MONOTONIC
            _ => 0,
        };
        if off != 0 {
            let total = (*ts).tv_sec as i128 * 1_000_000_000 + (*ts).tv_nsec as i128 + off as i128;
            (*ts).tv_sec = total.div_euclid(1_000_000_000) as i64;
            (*ts).tv_nsec = total.rem_euclid(1_000_000_000) as i64;
        }
    }
    r as i32
}

fn wall_abs_ns() -> i128 {
    match SystemTime::now().duration_since(UNIX_EPOCH) {
        Ok(d) => d.as_nanos() as i128,
        Err(e) => -(e.duration().as_nanos() as i128),
    }
}

#[derive(Clone, Copy)]
struct Origin {
    wall: i128,
    mono: Instant,
}
impl Origin {
    fn read(&self) -> (i128, i128) {
        (wall_abs_ns() - self.wall, Instant::now().duration_since(self.mono).as_nanos() as i128)
    }
}

enum Step {
    Set(Vec<u8>),
    Unset,
    Sleep(u64),
    Conv(bool, chrono::NaiveDateTime),
    Spawn,
    Join,
    Skip(i64),
    ClockStep(i64),
}

fn dec_step(v: &Val) -> Option<Step> {
    let t = v.tup()?;
    let k = t.first()?.int()?;
    Some(match (k, t.len()) {
        (0, 2) => {
            let b = t[1].bytes()?;
            if b.contains(&0) { return None; }
            Step::Set(b.to_vec())
        }
        (1, 1) => Step::Unset,
        (2, 2) => { let ms = t[1].u64()?; if ms > 5000 { return None; } Step::Sleep(ms) }
        (3, 3) => { let d = t[1].int()?; if d != 0 && d != 1 { return None; } let n = dec_ndt(&t[2])?;
            // dates well inside every range, whole seconds or a leap fraction: the answer depends on the zone only
            if !(1971..=2037).contains(&chrono::Datelike::year(&n)) { return None; }
            Step::Conv(d == 1, n)
        }
        (4, 1) => Step::Spawn,
        (5, 1) => Step::Join,
        (6, 2) => { let ms = t[1].i64()?; if !(0..=100_000_000).contains(&ms) { return None; } Step::Skip(ms) }
        (7, 2) => { let ms = t[1].i64()?; if ms.abs() > 100_000_000 { return None; } Step::ClockStep(ms) }
        _ => return None,
    })
}

fn tzif_fixed(off: i32) -> Vec<u8> {
    // RFC 8536 version-1 file: header, no transitions, one local time type, designation "CCC"
    let mut b = Vec::new();
    b.extend_from_slice(b"TZif");
    b.push(0);
    b.extend_from_slice(&[0u8; 15]);
    for n in [0u32, 0, 0, 0, 1, 4] { b.extend_from_slice(&n.to_be_bytes()); }
    b.extend_from_slice(&off.to_be_bytes());
    b.push(0);
    b.push(0);
    b.extend_from_slice(b"CCC\0");
    b
}

fn creatable(p: &str) -> bool {
    ["/tmp/c18z/", "/usr/share/zoneinfo/c18z/", "/share/zoneinfo/c18z/", "/etc/zoneinfo/c18z/", "/usr/share/lib/zoneinfo/c18z/"]
        .iter()
        .any(|pre| p.starts_with(pre))
        && !p.contains("/../") && !p.ends_with("/..")
}

fn ensure_file(path: &str, content: &[u8]) -> Option<()> {
    if let Ok(old) = std::fs::read(path) { if old == content { return Some(()); } }
    let p = std::path::Path::new(path);
    std::fs::create_dir_all(p.parent()?).ok()?;
    let tmp = format!("{}.tmp{}", path, std::process::id());
    std::fs::write(&tmp, content).ok()?;
    std::fs::rename(&tmp, path).ok()
}

/// The files this op keeps on the machine (the generator's machine description lists the same
/// table): a fixed-offset TZif file, or bytes that are not TZif for `None`.
const CREATED: [(&str, Option<i32>); 16] = [
    ("/tmp/c18z/p3", Some(3 * 3600 + 60)), ("/tmp/c18z/m7", Some(-7 * 3600 - 120)), ("/tmp/c18z/p11", Some(11 * 3600 + 180)),
    ("/tmp/c18z/junk", None),
    ("/usr/share/zoneinfo/c18z/a", Some(3600 + 240)),
    ("/share/zoneinfo/c18z/b", Some(2 * 3600 + 300)), ("/etc/zoneinfo/c18z/b", Some(2 * 3600 + 360)),
    ("/etc/zoneinfo/c18z/c", Some(4 * 3600 + 420)), ("/usr/share/lib/zoneinfo/c18z/c", Some(4 * 3600 + 480)),
    ("/usr/share/lib/zoneinfo/c18z/d", Some(-6 * 3600 - 540)),
    ("/usr/share/zoneinfo/c18z/e", Some(-8 * 3600 - 600)), ("/share/zoneinfo/c18z/e", Some(-8 * 3600 - 660)),
    ("/share/zoneinfo/c18z/j", None), ("/etc/zoneinfo/c18z/j", Some(9 * 3600 + 720)),
    ("/tmp/c18z/k,1", Some(5 * 3600 + 780)), ("/usr/share/zoneinfo/c18z/l,m", Some(-2 * 3600 - 840)),
];

/// One file whose zone has a transition, so that the two directions of a conversion differ:
/// +01:13:00 before 2000-01-01T00:00:00Z, +03:14:00 from then on.
const STEP_FILE: &str = "/tmp/c18z/step";
fn tzif_step() -> Vec<u8> {
    let mut b = Vec::new();
    b.extend_from_slice(b"TZif");
    b.push(0);
    b.extend_from_slice(&[0u8; 15]);
    for n in [0u32, 0, 0, 1, 2, 4] { b.extend_from_slice(&n.to_be_bytes()); }
    b.extend_from_slice(&946_684_800i32.to_be_bytes()); // the transition time
    b.push(1); // ... switches to local time type 1
    b.extend_from_slice(&4380i32.to_be_bytes()); b.push(0); b.push(0);
    b.extend_from_slice(&11640i32.to_be_bytes()); b.push(0); b.push(0);
    b.extend_from_slice(b"CCC\0");
    b
}

/// Best effort, once per process: a file that cannot be written (no permission for the system
/// directories) just does not exist, and the generator describes the machine as it finds it.
fn prepare_machine() {
    static READY: std::sync::Once = std::sync::Once::new();
    READY.call_once(|| {
        for (path, z) in CREATED.iter() {
            let content = match z { None => b"this is not a TZif file\n".to_vec(), Some(o) => tzif_fixed(*o) };
            if creatable(path) { let _ = ensure_file(path, &content); }
        }
        let _ = ensure_file(STEP_FILE, &tzif_step());
    })
}

fn rec(o: &Origin, before: (i128, i128), ans: Val) -> Val {
    let after = o.read();
    vtup(vec![vint(before.0), vint(before.1), vint(after.0), vint(after.1), ans])
}

/// Runs steps[i..] on the current thread until the matching Join (or the end); returns the index
/// after it.
fn exec(steps: &[Step], mut i: usize, o: Origin, out: &mut Vec<Val>) -> usize {
    use std::os::unix::ffi::OsStrExt;
    IN_HISTORY.with(|f| f.set(true));
    while i < steps.len() {
        let before = o.read();
        match &steps[i] {
            Step::Set(b) => { std::env::set_var("TZ", std::ffi::OsStr::from_bytes(b)); out.push(rec(&o, before, Val::None)); }
            Step::Unset => { std::env::remove_var("TZ"); out.push(rec(&o, before, Val::None)); }
            Step::Sleep(ms) => { std::thread::sleep(Duration::from_millis(*ms)); out.push(rec(&o, before, Val::None)); }
            Step::Skip(ms) => {
                WALL_OFF_NS.fetch_add(*ms * 1_000_000, Ordering::SeqCst);
                MONO_OFF_NS.fetch_add(*ms * 1_000_000, Ordering::SeqCst);
                out.push(rec(&o, before, Val::None));
            }
            Step::ClockStep(ms) => { WALL_OFF_NS.fetch_add(*ms * 1_000_000, Ordering::SeqCst); out.push(rec(&o, before, Val::None)); }
            Step::Conv(local, d) => {
                let ans = if *local {
                    enc_mlt(Local.from_local_datetime(d), |dt| vint(dt.offset().fix().local_minus_utc()))
                } else {
                    vint(Local.from_utc_datetime(d).offset().fix().local_minus_utc())
                };
                out.push(rec(&o, before, vsome(ans)));
            }
            Step::Spawn => {
                out.push(rec(&o, before, Val::None));
                let r = std::thread::scope(|s| {
                    s.spawn(|| { let mut sub = Vec::new(); let ni = exec(steps, i + 1, o, &mut sub); (ni, sub) }).join()
                });
                match r {
                    Ok((ni, sub)) => { out.extend(sub); i = ni; continue; }
                    Err(e) => std::panic::resume_unwind(e),
                }
            }
            Step::Join => { out.push(rec(&o, before, Val::None)); return i + 1; }
        }
        i += 1;
    }
    i
}

struct Restore(Option<std::ffi::OsString>);
impl Drop for Restore {
    fn drop(&mut self) {
        WALL_OFF_NS.store(0, Ordering::SeqCst);
        MONO_OFF_NS.store(0, Ordering::SeqCst);
        match self.0.take() { Some(v) => std::env::set_var("TZ", v), None => std::env::remove_var("TZ") }
    }
}

fn history(a: &[Val]) -> Option<Val> {
    if a.len() != 1 { return None; }
    let steps: Option<Vec<Step>> = a[0].tup()?.iter().map(dec_step).collect();
    let steps = steps?;
    prepare_machine();
    let _restore = Restore(std::env::var_os("TZ"));
    // every history starts with TZ unset, on a new thread
    std::env::remove_var("TZ");
    let r = std::thread::scope(|s| {
        s.spawn(|| {
            IN_HISTORY.with(|f| f.set(true));
            let o = Origin { wall: wall_abs_ns(), mono: Instant::now() };
            let mut out = Vec::new();
            let mut i = 0;
            // a Join without a Spawn just continues on the same thread
            while i < steps.len() { i = exec(&steps, i, o, &mut out); }
            out
        })
        .join()
    });
    match r {
        Ok(out) => Some(vtup(out)),
        Err(e) => std::panic::resume_unwind(e),
    }
}

pub fn dispatch(op: &str, a: &[Val]) -> Option<Val> {
    let r = match op {
        "lc.history" => history(a),
        _ => return None,
    };
    Some(r.unwrap_or_else(bad))
}
