//! C15: fallible entry points of the public API that no other property's ops call directly.
//! (The other entry points are exercised through the owners' ops: see gen/C15_inventory.json.)
//!   c15.d.hms  date h m s           NaiveDate::and_hms_opt                      -> option ndt
//!   c15.d.hmsm date h m s milli     NaiveDate::and_hms_milli_opt                -> option ndt
//!   c15.d.hmsu date h m s micro     NaiveDate::and_hms_micro_opt                -> option ndt
//!   c15.d.hmsn date h m s nano      NaiveDate::and_hms_nano_opt                 -> option ndt
//!   c15.ndt.addoff ndt off          NaiveDateTime::checked_add_offset           -> option ndt
//!   c15.ndt.suboff ndt off          NaiveDateTime::checked_sub_offset           -> option ndt
//!   c15.ndt.andtz ndt off           NaiveDateTime::and_local_timezone (Utc for off = 0) -> mlt dtz
//!   c15.ndt.witht field ndt v       Timelike::with_{hour,minute,second,nanosecond} of NaiveDateTime (field 7..10)
//!   c15.offlocal off ndt            TimeZone::offset_from_local_date / _datetime of FixedOffset (Utc for 0)
//!   c15.mlt (v..)                   MappedLocalTime::{single, earliest, latest}
//!   c15.sfparse <fmt> lenient       StrftimeItems::parse          -> items | err:BadFormat
//!   c15.sfowned <fmt> lenient       StrftimeItems::parse_to_owned -> items | err:BadFormat
//!   c15.itemcount <fmt> lenient     StrftimeItems::new(fmt).take(13*len+14).count()
//!   c15.writeto kind value <fmt> lenient   DelayedFormat::write_to(&mut String) -> text | err:fmt
//!   c15.rem kind <text> <fmt>       T::parse_and_remainder(text, fmt) -> (value, rest) | err:<kind>
//!   c15.prem <text> (items)         format::parse_and_remainder(&mut Parsed::new(), text, items) -> rest | err:<kind>
//!   c15.errtext which variant       to_string() / format!("{:?}") of an error value -> text
//!                                   which 0 ParseError Display (variant = kind 0..6 in declaration order), 1 / 2 OutOfRange Display / Debug,
//!                                   3 / 4 ParseMonthError Display / Debug, 5 / 6 ParseWeekdayError Display / Debug,
//!                                   7 RoundingError Display (variant 0..2), 8 OutOfRangeError Display (variant 0 where there is one value)
//!   c15.isoweek.dbg date            format!("{:?}", date.iso_week()) -> text
//!   c15.wdset.dbg bits              format!("{:?}", WeekdaySet of the bits 0..127, Mon = bit 0) -> text
//! kind: 0 NaiveDate, 1 NaiveTime, 2 NaiveDateTime, 3 DateTime<FixedOffset>, 4 DateTime<Utc> (writeto only).
use crate::val::*;
use chrono::format::{Fixed, Item, Numeric, Pad, ParseError, ParseErrorKind, Parsed, StrftimeItems};
use chrono::{DateTime, Datelike, FixedOffset, MappedLocalTime, Month, NaiveDate, NaiveDateTime, NaiveTime, RoundingError, TimeDelta, TimeZone, Timelike, Utc, Weekday, WeekdaySet};

fn kind_name(e: ParseError) -> &'static str {
    match e.kind() {
        ParseErrorKind::OutOfRange => "OutOfRange",
        ParseErrorKind::Impossible => "Impossible",
        ParseErrorKind::NotEnough => "NotEnough",
        ParseErrorKind::Invalid => "Invalid",
        ParseErrorKind::TooShort => "TooShort",
        ParseErrorKind::TooLong => "TooLong",
        ParseErrorKind::BadFormat => "BadFormat",
        _ => "Unknown",
    }
}
fn off(v: &Val) -> Option<FixedOffset> { FixedOffset::east_opt(v.i32()?) }
fn flag(v: &Val) -> Option<bool> { match v.int()? { 0 => Some(false), 1 => Some(true), _ => None } }
fn sfi(s: &str, lenient: bool) -> StrftimeItems<'_> { if lenient { StrftimeItems::new_lenient(s) } else { StrftimeItems::new(s) } }

fn dec_numeric(k: i128) -> Option<Numeric> {
    use Numeric::*;
    Some(match k {
        0 => Year, 1 => YearDiv100, 2 => YearMod100, 3 => IsoYear, 4 => IsoYearDiv100, 5 => IsoYearMod100,
        6 => Quarter, 7 => Month, 8 => Day, 9 => WeekFromSun, 10 => WeekFromMon, 11 => IsoWeek,
        12 => NumDaysFromSun, 13 => WeekdayFromMon, 14 => Ordinal, 15 => Hour, 16 => Hour12, 17 => Minute,
        18 => Second, 19 => Nanosecond, 20 => Timestamp,
        _ => return None,
    })
}
fn dec_fixed(k: i128) -> Option<Fixed> {
    use Fixed::*;
    let internal = |spec: &'static str| match StrftimeItems::new(spec).next() { Some(Item::Fixed(f)) => Some(f), _ => None };
    Some(match k {
        0 => ShortMonthName, 1 => LongMonthName, 2 => ShortWeekdayName, 3 => LongWeekdayName,
        4 => LowerAmPm, 5 => UpperAmPm, 6 => Nanosecond, 7 => Nanosecond3, 8 => Nanosecond6, 9 => Nanosecond9,
        10 => TimezoneName, 11 => TimezoneOffsetColon, 12 => TimezoneOffsetDoubleColon,
        13 => TimezoneOffsetTripleColon, 14 => TimezoneOffsetColonZ, 15 => TimezoneOffset, 16 => TimezoneOffsetZ,
        17 => RFC2822, 18 => RFC3339,
        100 => internal("%#z")?, 101 => internal("%3f")?, 102 => internal("%6f")?, 103 => internal("%9f")?,
        _ => return None,
    })
}
/// the canonical item encoding of `sf.items` (see c12.rs / c13.rs)
fn dec_items(v: &Val) -> Option<Vec<Item<'static>>> {
    let mut out = Vec::new();
    for it in v.tup()? {
        let t = it.tup()?;
        out.push(match (t.get(0)?.int()?, t.len()) {
            (0, 2) => Item::OwnedLiteral(t[1].str()?.into()),
            (1, 2) => Item::OwnedSpace(t[1].str()?.into()),
            (2, 3) => Item::Numeric(dec_numeric(t[1].int()?)?, match t[2].int()? { 0 => Pad::None, 1 => Pad::Zero, 2 => Pad::Space, _ => return None }),
            (3, 2) => Item::Fixed(dec_fixed(t[1].int()?)?),
            (4, 1) => Item::Error,
            _ => return None,
        });
    }
    Some(out)
}

fn write_to(kind: i128, v: &Val, f: &str, lenient: bool) -> Option<Val> {
    let it = sfi(f, lenient);
    let mut s = String::new();
    let r = match kind {
        0 => dec_date(v)?.format_with_items(it).write_to(&mut s),
        1 => dec_time(v)?.format_with_items(it).write_to(&mut s),
        2 => dec_ndt(v)?.format_with_items(it).write_to(&mut s),
        3 => dec_dt(v)?.format_with_items(it).write_to(&mut s),
        4 => {
            let t = v.tup()?; if t.len() != 4 { return None; }
            let z: DateTime<Utc> = Utc.from_utc_datetime(&dec_ndt(v)?);
            z.format_with_items(it).write_to(&mut s)
        }
        _ => return None,
    };
    Some(match r { Ok(()) => vstr(&s), Err(_) => verr("fmt") })
}

fn rem(kind: i128, text: &str, f: &str) -> Option<Val> {
    fn pack<T>(r: Result<(T, &str), ParseError>, enc: impl FnOnce(T) -> Val) -> Val {
        match r { Ok((v, rest)) => vtup(vec![enc(v), vstr(rest)]), Err(e) => verr(kind_name(e)) }
    }
    Some(match kind {
        0 => pack(NaiveDate::parse_and_remainder(text, f), enc_date),
        1 => pack(NaiveTime::parse_and_remainder(text, f), enc_time),
        2 => pack(NaiveDateTime::parse_and_remainder(text, f), enc_ndt),
        3 => pack(DateTime::<FixedOffset>::parse_and_remainder(text, f), |z| enc_dt(&z)),
        _ => return None,
    })
}

fn sel<T: Clone>(m: MappedLocalTime<T>, f: impl Fn(T) -> Val) -> Val {
    vtup(vec![vopt(m.clone().single(), &f), vopt(m.clone().earliest(), &f), vopt(m.latest(), &f)])
}

/// an error value of each public error type, obtained through the public API
fn parse_error(kind: i128) -> Option<ParseError> {
    let (text, f, want) = match kind {
        0 => ("2023-13-01", "%Y-%m-%d", ParseErrorKind::OutOfRange),
        1 => ("2023 2024", "%Y %Y", ParseErrorKind::Impossible),
        2 => ("2023", "%Y", ParseErrorKind::NotEnough),
        3 => ("x", "%Y", ParseErrorKind::Invalid),
        4 => ("", "%Y", ParseErrorKind::TooShort),
        5 => ("2023-01-01x", "%Y-%m-%d", ParseErrorKind::TooLong),
        6 => ("", "%Q", ParseErrorKind::BadFormat),
        _ => return None,
    };
    let e = NaiveDate::parse_from_str(text, f).err()?;
    if e.kind() == want { Some(e) } else { None }
}
fn err_text(which: i128, variant: i128) -> Option<Val> {
    if which != 0 && which != 7 && variant != 0 { return None; }
    Some(vstr(&match which {
        0 => parse_error(variant)?.to_string(),
        1 => Month::try_from(13u8).err()?.to_string(),
        2 => format!("{:?}", Month::try_from(13u8).err()?),
        3 => "x".parse::<Month>().err()?.to_string(),
        4 => format!("{:?}", "x".parse::<Month>().err()?),
        5 => "x".parse::<Weekday>().err()?.to_string(),
        6 => format!("{:?}", "x".parse::<Weekday>().err()?),
        7 => match variant {
            0 => RoundingError::DurationExceedsTimestamp,
            1 => RoundingError::DurationExceedsLimit,
            2 => RoundingError::TimestampExceedsLimit,
            _ => return None,
        }.to_string(),
        8 => TimeDelta::try_seconds(-1)?.to_std().err()?.to_string(),
        _ => return None,
    }))
}

pub fn dispatch(op: &str, a: &[Val]) -> Option<Val> {
    let r = match op {
        "c15.errtext" => (|| {
            if a.len() != 2 { return None; }
            err_text(a[0].int()?, a[1].int()?)
        })(),
        "c15.isoweek.dbg" => (|| {
            if a.len() != 1 { return None; }
            Some(vstr(&format!("{:?}", dec_date(&a[0])?.iso_week())))
        })(),
        "c15.wdset.dbg" => (|| {
            if a.len() != 1 { return None; }
            let b = a[0].int()?;
            if !(0..128).contains(&b) { return None; }
            let mut set = WeekdaySet::EMPTY;
            for i in 0..7u8 { if (b >> i) & 1 == 1 { set.insert(Weekday::try_from(i).ok()?); } }
            Some(vstr(&format!("{:?}", set)))
        })(),
        "c15.d.hms" => (|| {
            if a.len() != 4 { return None; }
            Some(vopt(dec_date(&a[0])?.and_hms_opt(a[1].u32()?, a[2].u32()?, a[3].u32()?), enc_ndt))
        })(),
        "c15.d.hmsm" => (|| {
            if a.len() != 5 { return None; }
            Some(vopt(dec_date(&a[0])?.and_hms_milli_opt(a[1].u32()?, a[2].u32()?, a[3].u32()?, a[4].u32()?), enc_ndt))
        })(),
        "c15.d.hmsu" => (|| {
            if a.len() != 5 { return None; }
            Some(vopt(dec_date(&a[0])?.and_hms_micro_opt(a[1].u32()?, a[2].u32()?, a[3].u32()?, a[4].u32()?), enc_ndt))
        })(),
        "c15.d.hmsn" => (|| {
            if a.len() != 5 { return None; }
            Some(vopt(dec_date(&a[0])?.and_hms_nano_opt(a[1].u32()?, a[2].u32()?, a[3].u32()?, a[4].u32()?), enc_ndt))
        })(),
        "c15.ndt.addoff" => (|| {
            if a.len() != 2 { return None; }
            Some(vopt(dec_ndt(&a[0])?.checked_add_offset(off(&a[1])?), enc_ndt))
        })(),
        "c15.ndt.suboff" => (|| {
            if a.len() != 2 { return None; }
            Some(vopt(dec_ndt(&a[0])?.checked_sub_offset(off(&a[1])?), enc_ndt))
        })(),
        "c15.ndt.andtz" => (|| {
            if a.len() != 2 { return None; }
            let n = dec_ndt(&a[0])?; let o = off(&a[1])?;
            Some(if o.local_minus_utc() == 0 { enc_mlt(n.and_local_timezone(Utc), |z| enc_dt(&z)) }
                 else { enc_mlt(n.and_local_timezone(o), |z| enc_dt(&z)) })
        })(),
        "c15.ndt.witht" => (|| {
            if a.len() != 3 { return None; }
            let n = dec_ndt(&a[1])?; let v = a[2].u32()?;
            let r = match a[0].int()? {
                7 => n.with_hour(v), 8 => n.with_minute(v), 9 => n.with_second(v), 10 => n.with_nanosecond(v),
                _ => return None,
            };
            Some(vopt(r, enc_ndt))
        })(),
        "c15.offlocal" => (|| {
            if a.len() != 2 { return None; }
            let o = off(&a[0])?; let n = dec_ndt(&a[1])?;
            use chrono::Offset;
            Some(if o.local_minus_utc() == 0 {
                vtup(vec![enc_mlt(Utc.offset_from_local_date(&n.date()), |x| vint(x.fix().local_minus_utc())),
                          enc_mlt(Utc.offset_from_local_datetime(&n), |x| vint(x.fix().local_minus_utc()))])
            } else {
                vtup(vec![enc_mlt(o.offset_from_local_date(&n.date()), |x| vint(x.local_minus_utc())),
                          enc_mlt(o.offset_from_local_datetime(&n), |x| vint(x.local_minus_utc()))])
            })
        })(),
        "c15.mlt" => (|| {
            if a.len() != 1 { return None; }
            let t = a[0].tup()?;
            let m = match t.len() {
                0 => MappedLocalTime::None,
                1 => MappedLocalTime::Single(t[0].i64()?),
                2 => MappedLocalTime::Ambiguous(t[0].i64()?, t[1].i64()?),
                _ => return None,
            };
            Some(sel(m, vint))
        })(),
        "c15.sfparse" => (|| {
            if a.len() != 2 { return None; }
            let s = a[0].str()?; let l = flag(&a[1])?;
            Some(match sfi(s, l).parse() {
                Ok(items) => vtup(items.iter().map(crate::c12::enc_item).collect()),
                Err(e) => verr(kind_name(e)),
            })
        })(),
        "c15.sfowned" => (|| {
            if a.len() != 2 { return None; }
            let s = a[0].str()?; let l = flag(&a[1])?;
            Some(match sfi(s, l).parse_to_owned() {
                Ok(items) => vtup(items.iter().map(crate::c12::enc_item).collect()),
                Err(e) => verr(kind_name(e)),
            })
        })(),
        "c15.itemcount" => (|| {
            if a.len() != 2 { return None; }
            let s = a[0].str()?; let l = flag(&a[1])?;
            Some(vint(sfi(s, l).take(13 * s.len() + 14).count() as u64))
        })(),
        "c15.writeto" => (|| {
            if a.len() != 4 { return None; }
            write_to(a[0].int()?, &a[1], a[2].str()?, flag(&a[3])?)
        })(),
        "c15.rem" => (|| {
            if a.len() != 3 { return None; }
            rem(a[0].int()?, a[1].str()?, a[2].str()?)
        })(),
        "c15.prem" => (|| {
            if a.len() != 2 { return None; }
            let text = a[0].str()?; let items = dec_items(&a[1])?;
            let mut p = Parsed::new();
            Some(match chrono::format::parse_and_remainder(&mut p, text, items.iter()) {
                Ok(rest) => vstr(rest),
                Err(e) => verr(kind_name(e)),
            })
        })(),
        _ => return None,
    };
    Some(r.unwrap_or_else(bad))
}
