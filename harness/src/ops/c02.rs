//! C02: Unix timestamps <-> UTC date-times (DateTime<Utc>, NaiveDateTime wrappers, TimeZone wrappers,
//! SystemTime conversions).  A DateTime<Utc> result is encoded as its naive UTC reading.
use crate::val::*;
use chrono::{DateTime, FixedOffset, NaiveDate, NaiveDateTime, NaiveTime, TimeZone, Utc};
use std::time::{Duration, SystemTime, UNIX_EPOCH};

fn acc(d: DateTime<Utc>) -> Val {
    vtup(vec![
        vint(d.timestamp()), vint(d.timestamp_millis()), vint(d.timestamp_micros()),
        vopt(d.timestamp_nanos_opt(), vint),
        vint(d.timestamp_subsec_millis()), vint(d.timestamp_subsec_micros()), vint(d.timestamp_subsec_nanos()),
    ])
}
fn nacc(d: NaiveDateTime) -> Val {
    vtup(vec![
        vint(d.timestamp()), vint(d.timestamp_millis()), vint(d.timestamp_micros()),
        vopt(d.timestamp_nanos_opt(), vint),
        vint(d.timestamp_subsec_millis()), vint(d.timestamp_subsec_micros()), vint(d.timestamp_subsec_nanos()),
    ])
}
fn utc(d: DateTime<Utc>) -> Val { enc_ndt(d.naive_utc()) }
fn off(v: &Val) -> Option<FixedOffset> { FixedOffset::east_opt(v.i32()?) }

// Zone value for offset `o`: `Utc` itself for 0, a `FixedOffset` otherwise (the provided methods of
// `TimeZone` are generic; both instantiations are exercised).
/// (before_epoch?, secs, nanos) as returned by duration_since(UNIX_EPOCH)
fn sys_triple(t: SystemTime) -> Val {
    match t.duration_since(UNIX_EPOCH) {
        Ok(d) => vtup(vec![vint(0), vint(d.as_secs()), vint(d.subsec_nanos())]),
        Err(e) => { let d = e.duration(); vtup(vec![vint(1), vint(d.as_secs()), vint(d.subsec_nanos())]) }
    }
}

pub fn dispatch(op: &str, a: &[Val]) -> Option<Val> {
    let r = match op {
        "ts.from" => (|| Some(vopt(DateTime::from_timestamp(a.get(0)?.i64()?, a.get(1)?.u32()?), utc)))(),
        "ts.fromms" => (|| Some(vopt(DateTime::from_timestamp_millis(a.get(0)?.i64()?), utc)))(),
        "ts.fromus" => (|| Some(vopt(DateTime::from_timestamp_micros(a.get(0)?.i64()?), utc)))(),
        "ts.fromns" => (|| Some(utc(DateTime::from_timestamp_nanos(a.get(0)?.i64()?))))(),
        "ts.of" => (|| Some(acc(dec_ndt(a.get(0)?)?.and_utc())))(),
        "ts.ofns" => (|| Some(vint(dec_ndt(a.get(0)?)?.and_utc().timestamp_nanos())))(),
        "ts.rt" => (|| {
            let (s, n) = (a.get(0)?.i64()?, a.get(1)?.u32()?);
            Some(vopt(DateTime::from_timestamp(s, n), |d| vtup(vec![vint(d.timestamp()), vint(d.timestamp_subsec_nanos())])))
        })(),
        "ts.rtms" => (|| Some(vopt(DateTime::from_timestamp_millis(a.get(0)?.i64()?), |d| vint(d.timestamp_millis()))))(),
        "ts.rtus" => (|| Some(vopt(DateTime::from_timestamp_micros(a.get(0)?.i64()?), |d| vint(d.timestamp_micros()))))(),
        "ts.rtns" => (|| Some(vopt(DateTime::from_timestamp_nanos(a.get(0)?.i64()?).timestamp_nanos_opt(), vint)))(),
        "ts.back" => (|| {
            let d = dec_ndt(a.get(0)?)?.and_utc();
            let r1 = DateTime::from_timestamp(d.timestamp(), d.timestamp_subsec_nanos());
            let r2 = DateTime::from_timestamp_millis(d.timestamp_millis());
            let r3 = DateTime::from_timestamp_micros(d.timestamp_micros());
            let r4 = d.timestamp_nanos_opt().map(DateTime::from_timestamp_nanos);
            Some(vtup(vec![vopt(r1, utc), vopt(r2, utc), vopt(r3, utc), vopt(r4, utc)]))
        })(),
        "ts.tz" => (|| {
            let (o, s, n) = (off(a.get(0)?)?, a.get(1)?.i64()?, a.get(2)?.u32()?);
            Some(if o.local_minus_utc() == 0 { enc_mlt(Utc.timestamp_opt(s, n), |d| enc_dt(&d)) } else { enc_mlt(o.timestamp_opt(s, n), |d| enc_dt(&d)) })
        })(),
        "ts.tzp" => (|| {
            let (o, s, n) = (off(a.get(0)?)?, a.get(1)?.i64()?, a.get(2)?.u32()?);
            Some(if o.local_minus_utc() == 0 { enc_dt(&Utc.timestamp(s, n)) } else { enc_dt(&o.timestamp(s, n)) })
        })(),
        "ts.tzms" => (|| {
            let (o, z) = (off(a.get(0)?)?, a.get(1)?.i64()?);
            Some(if o.local_minus_utc() == 0 { enc_mlt(Utc.timestamp_millis_opt(z), |d| enc_dt(&d)) } else { enc_mlt(o.timestamp_millis_opt(z), |d| enc_dt(&d)) })
        })(),
        "ts.tzmsp" => (|| {
            let (o, z) = (off(a.get(0)?)?, a.get(1)?.i64()?);
            Some(if o.local_minus_utc() == 0 { enc_dt(&Utc.timestamp_millis(z)) } else { enc_dt(&o.timestamp_millis(z)) })
        })(),
        "ts.tzus" => (|| {
            let (o, z) = (off(a.get(0)?)?, a.get(1)?.i64()?);
            Some(if o.local_minus_utc() == 0 { enc_mlt(Utc.timestamp_micros(z), |d| enc_dt(&d)) } else { enc_mlt(o.timestamp_micros(z), |d| enc_dt(&d)) })
        })(),
        "ts.tzns" => (|| {
            let (o, z) = (off(a.get(0)?)?, a.get(1)?.i64()?);
            Some(if o.local_minus_utc() == 0 { enc_dt(&Utc.timestamp_nanos(z)) } else { enc_dt(&o.timestamp_nanos(z)) })
        })(),
        "ts.naive_from" => (|| Some(enc_ndt(NaiveDateTime::from_timestamp(a.get(0)?.i64()?, a.get(1)?.u32()?))))(),
        "ts.naive_opt" => (|| Some(vopt(NaiveDateTime::from_timestamp_opt(a.get(0)?.i64()?, a.get(1)?.u32()?), enc_ndt)))(),
        "ts.naive_ms" => (|| Some(vopt(NaiveDateTime::from_timestamp_millis(a.get(0)?.i64()?), enc_ndt)))(),
        "ts.naive_us" => (|| Some(vopt(NaiveDateTime::from_timestamp_micros(a.get(0)?.i64()?), enc_ndt)))(),
        "ts.naive_ns" => (|| Some(vopt(NaiveDateTime::from_timestamp_nanos(a.get(0)?.i64()?), enc_ndt)))(),
        "ts.naive_of" => (|| Some(nacc(dec_ndt(a.get(0)?)?)))(),
        "ts.naive_ofns" => (|| Some(vint(dec_ndt(a.get(0)?)?.timestamp_nanos())))(),
        "ts.systime" => (|| {
            let (sg, s, n) = (a.get(0)?.int()?, a.get(1)?.u64()?, a.get(2)?.u32()?);
            if n >= 1_000_000_000 || s > i64::MAX as u64 { return None; }
            let t = match sg {
                0 => UNIX_EPOCH.checked_add(Duration::new(s, n))?,
                1 => UNIX_EPOCH.checked_sub(Duration::new(s, n))?,
                _ => return None,
            };
            Some(enc_dt(&DateTime::<Utc>::from(t)))
        })(),
        "ts.tosys" => (|| {
            let d = dec_dt(a.get(0)?)?;
            let t = if d.offset().local_minus_utc() == 0 { SystemTime::from(d.with_timezone(&Utc)) } else { SystemTime::from(d) };
            Some(sys_triple(t))
        })(),
        // the epoch and range constants
        "ts.consts" => (|| {
            if !a.is_empty() { return None; }
            #[allow(deprecated)]
            let ne = NaiveDateTime::UNIX_EPOCH;
            Some(vtup(vec![
                enc_dt(&DateTime::<Utc>::UNIX_EPOCH), vint(DateTime::<Utc>::UNIX_EPOCH.timestamp()), enc_ndt(ne),
                enc_dt(&DateTime::<Utc>::MIN_UTC), enc_dt(&DateTime::<Utc>::MAX_UTC),
                enc_ndt(NaiveDateTime::MIN), enc_ndt(NaiveDateTime::MAX),
                vint(DateTime::<Utc>::MIN_UTC.timestamp()), vint(DateTime::<Utc>::MAX_UTC.timestamp()),
            ]))
        })(),
        // the Default impls of the five value types
        "ts.defaults" => (|| {
            if !a.is_empty() { return None; }
            let (u, f) = (DateTime::<Utc>::default(), DateTime::<FixedOffset>::default());
            Some(vtup(vec![
                enc_date(NaiveDate::default()), enc_time(NaiveTime::default()), enc_ndt(NaiveDateTime::default()),
                enc_dt(&u), enc_dt(&f), vint(u.timestamp()), vint(f.timestamp()),
            ]))
        })(),
        _ => return None,
    };
    Some(r.unwrap_or_else(bad))
}
