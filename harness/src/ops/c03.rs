//! C03: adding/subtracting elapsed time on NaiveDate, NaiveDateTime, DateTime<FixedOffset>;
//! the day and week iterators.
use crate::val::*;
use chrono::{DateTime, Days, FixedOffset, NaiveDate, NaiveDateTime, TimeDelta};
use std::time::Duration;

fn sign(v: &Val) -> Option<bool> {
    match v.int()? { 1 => Some(true), -1 => Some(false), _ => None }
}
fn dir(v: &Val) -> Option<bool> {
    match v.int()? { 0 => Some(true), 1 => Some(false), _ => None }
}
fn small(v: &Val) -> Option<usize> {
    let z = v.int()?;
    if (0..=5000).contains(&z) { Some(z as usize) } else { None }
}
fn std_dur(s: &Val, n: &Val) -> Option<Duration> {
    let secs = s.u64()?;
    let nanos = n.u32()?;
    if nanos >= 1_000_000_000 { return None; }
    Some(Duration::new(secs, nanos))
}
fn enc_hint(h: (usize, Option<usize>)) -> Val {
    vtup(vec![vint(h.0 as u64), vopt(h.1, |x| vint(x as u64))])
}

/// years within which the adaptor ops that run an iterator to its end are accepted (<= 3653 days)
fn near_end(d: &Val, fwd: bool) -> Option<()> {
    let y = d.tup()?.get(0)?.int()?;
    if fwd { if y >= 262142 - 9 { Some(()) } else { None } } else if y <= -262143 + 9 { Some(()) } else { None }
}
fn off(v: &Val) -> Option<FixedOffset> { FixedOffset::east_opt(v.i32()?) }
/// the provided adaptors `count` / `last` (through `rev()` for the backward direction)
fn count_of<I: Iterator<Item = NaiveDate> + DoubleEndedIterator>(it: I, fwd: bool) -> Val {
    vint(if fwd { it.count() } else { it.rev().count() } as u64)
}
fn last_of<I: Iterator<Item = NaiveDate> + DoubleEndedIterator>(it: I, fwd: bool) -> Val {
    vopt(if fwd { it.last() } else { it.rev().last() }, enc_date)
}
/// `ExactSizeIterator::len` after `k` forward steps
fn len_of<I: ExactSizeIterator<Item = NaiveDate>>(mut it: I, k: usize) -> Val {
    for _ in 0..k { it.next(); }
    vint(it.len() as u64)
}
/// the first `cap` items of `step_by(s)` (of `rev().step_by(s)` for the backward direction)
fn step_of<I: Iterator<Item = NaiveDate> + DoubleEndedIterator>(it: I, fwd: bool, s: usize, cap: usize) -> Val {
    let v: Vec<NaiveDate> = if fwd { it.step_by(s).take(cap).collect() } else { it.rev().step_by(s).take(cap).collect() };
    vtup(v.into_iter().map(enc_date).collect())
}

/// after `k` calls: (next item, number of items still coming if <= cap)
fn observe<I: Iterator<Item = NaiveDate> + DoubleEndedIterator + Clone>(mut it: I, k: usize, fwd: bool, cap: usize) -> Val {
    for _ in 0..k {
        if fwd { it.next(); } else { it.next_back(); }
    }
    let mut probe = it.clone();
    let item = if fwd { probe.next() } else { probe.next_back() };
    let mut cnt: usize = 0;
    let mut over = false;
    loop {
        let x = if fwd { it.next() } else { it.next_back() };
        if x.is_none() { break; }
        cnt += 1;
        if cnt > cap { over = true; break; }
    }
    vtup(vec![vopt(item, enc_date), if over { Val::None } else { vsome(vint(cnt as u64)) }])
}
/// `nth(n)` / `nth_back(n)` (the provided adaptor methods), then what the iterator still yields
fn observe_nth<I: Iterator<Item = NaiveDate> + DoubleEndedIterator + Clone>(mut it: I, n: usize, fwd: bool, cap: usize) -> Val {
    let first = if fwd { it.nth(n) } else { it.nth_back(n) };
    let rest = observe(it, 0, fwd, cap);
    match rest {
        Val::Tup(mut v) => { v.insert(0, vopt(first, enc_date)); Val::Tup(v) }
        other => other,
    }
}
fn hint<I: Iterator<Item = NaiveDate> + DoubleEndedIterator>(mut it: I, k: usize, fwd: bool) -> Val {
    for _ in 0..k {
        if fwd { it.next(); } else { it.next_back(); }
    }
    enc_hint(it.size_hint())
}

pub fn dispatch(op: &str, a: &[Val]) -> Option<Val> {
    let r = match op {
        // NaiveDateTime
        "ar.nadd" => (|| Some(vopt(dec_ndt(a.get(0)?)?.checked_add_signed(dec_td(a.get(1)?)?), enc_ndt)))(),
        "ar.nsub" => (|| Some(vopt(dec_ndt(a.get(0)?)?.checked_sub_signed(dec_td(a.get(1)?)?), enc_ndt)))(),
        "ar.ndiff" => (|| Some(enc_td(dec_ndt(a.get(0)?)?.signed_duration_since(dec_ndt(a.get(1)?)?))))(),
        "ar.ndays" => (|| {
            let n = dec_ndt(a.get(0)?)?; let sg = sign(a.get(1)?)?; let d = Days::new(a.get(2)?.u64()?);
            Some(vopt(if sg { n.checked_add_days(d) } else { n.checked_sub_days(d) }, enc_ndt))
        })(),
        "ar.opnadd" => (|| Some(enc_ndt(dec_ndt(a.get(0)?)? + dec_td(a.get(1)?)?)))(),
        "ar.opnsub" => (|| Some(enc_ndt(dec_ndt(a.get(0)?)? - dec_td(a.get(1)?)?)))(),
        "ar.opndiff" => (|| Some(enc_td(dec_ndt(a.get(0)?)? - dec_ndt(a.get(1)?)?)))(),
        "ar.opndays" => (|| {
            let n = dec_ndt(a.get(0)?)?; let sg = sign(a.get(1)?)?; let d = Days::new(a.get(2)?.u64()?);
            Some(enc_ndt(if sg { n + d } else { n - d }))
        })(),
        "ar.nrt" => (|| {
            let x = dec_ndt(a.get(0)?)?; let y = dec_ndt(a.get(1)?)?;
            Some(vopt(y.checked_add_signed(x.signed_duration_since(y)), enc_ndt))
        })(),
        "ar.nord" => (|| {
            let x = dec_ndt(a.get(0)?)?; let y = dec_ndt(a.get(1)?)?;
            let d = x.signed_duration_since(y);
            Some(vtup(vec![vint(x.cmp(&y) as i8), vint(d.cmp(&TimeDelta::zero()) as i8)]))
        })(),
        "ar.addstd" => (|| {
            let n = dec_ndt(a.get(0)?)?; let sg = sign(a.get(1)?)?; let d = std_dur(a.get(2)?, a.get(3)?)?;
            Some(enc_ndt(if sg { n + d } else { n - d }))
        })(),
        // NaiveDate
        "ar.dadd" => (|| Some(vopt(dec_date(a.get(0)?)?.checked_add_days(Days::new(a.get(1)?.u64()?)), enc_date)))(),
        "ar.dsub" => (|| Some(vopt(dec_date(a.get(0)?)?.checked_sub_days(Days::new(a.get(1)?.u64()?)), enc_date)))(),
        "ar.dadds" => (|| Some(vopt(dec_date(a.get(0)?)?.checked_add_signed(dec_td(a.get(1)?)?), enc_date)))(),
        "ar.dsubs" => (|| Some(vopt(dec_date(a.get(0)?)?.checked_sub_signed(dec_td(a.get(1)?)?), enc_date)))(),
        "ar.ddiff" => (|| Some(enc_td(dec_date(a.get(0)?)?.signed_duration_since(dec_date(a.get(1)?)?))))(),
        "ar.opdadd" => (|| Some(enc_date(dec_date(a.get(0)?)? + Days::new(a.get(1)?.u64()?))))(),
        "ar.opdsub" => (|| Some(enc_date(dec_date(a.get(0)?)? - Days::new(a.get(1)?.u64()?))))(),
        "ar.opdadds" => (|| Some(enc_date(dec_date(a.get(0)?)? + dec_td(a.get(1)?)?)))(),
        "ar.opdsubs" => (|| Some(enc_date(dec_date(a.get(0)?)? - dec_td(a.get(1)?)?)))(),
        "ar.opddiff" => (|| Some(enc_td(dec_date(a.get(0)?)? - dec_date(a.get(1)?)?)))(),
        // DateTime<FixedOffset>
        "ar.zadd" => (|| Some(vopt(dec_dt(a.get(0)?)?.checked_add_signed(dec_td(a.get(1)?)?), |z| enc_dt(&z))))(),
        "ar.zsub" => (|| Some(vopt(dec_dt(a.get(0)?)?.checked_sub_signed(dec_td(a.get(1)?)?), |z| enc_dt(&z))))(),
        "ar.zdiff" => (|| Some(enc_td(dec_dt(a.get(0)?)?.signed_duration_since(dec_dt(a.get(1)?)?))))(),
        "ar.zdays" => (|| {
            let z = dec_dt(a.get(0)?)?; let sg = sign(a.get(1)?)?; let d = Days::new(a.get(2)?.u64()?);
            Some(vopt(if sg { z.checked_add_days(d) } else { z.checked_sub_days(d) }, |z| enc_dt(&z)))
        })(),
        "ar.opzadd" => (|| Some(enc_dt(&(dec_dt(a.get(0)?)? + dec_td(a.get(1)?)?))))(),
        "ar.opzsub" => (|| Some(enc_dt(&(dec_dt(a.get(0)?)? - dec_td(a.get(1)?)?))))(),
        "ar.opzaddasg" => (|| { let mut z = dec_dt(a.get(0)?)?; z += dec_td(a.get(1)?)?; Some(enc_dt(&z)) })(),
        "ar.opzsubasg" => (|| { let mut z = dec_dt(a.get(0)?)?; z -= dec_td(a.get(1)?)?; Some(enc_dt(&z)) })(),
        "ar.opzdiff" => (|| Some(enc_td(dec_dt(a.get(0)?)? - dec_dt(a.get(1)?)?)))(),
        "ar.opzdays" => (|| {
            let z = dec_dt(a.get(0)?)?; let sg = sign(a.get(1)?)?; let d = Days::new(a.get(2)?.u64()?);
            Some(enc_dt(&(if sg { z + d } else { z - d })))
        })(),
        "ar.zaddstd" => (|| {
            let z: DateTime<FixedOffset> = dec_dt(a.get(0)?)?; let sg = sign(a.get(1)?)?; let d = std_dur(a.get(2)?, a.get(3)?)?;
            Some(enc_dt(&(if sg { z + d } else { z - d })))
        })(),
        // iterators
        "it.days" => (|| {
            let d = dec_date(a.get(0)?)?; let k = small(a.get(1)?)?; let f = dir(a.get(2)?)?; let cap = small(a.get(3)?)?;
            Some(observe(d.iter_days(), k, f, cap))
        })(),
        "it.weeks" => (|| {
            let d = dec_date(a.get(0)?)?; let k = small(a.get(1)?)?; let f = dir(a.get(2)?)?; let cap = small(a.get(3)?)?;
            Some(observe(d.iter_weeks(), k, f, cap))
        })(),
        "it.dnth" => (|| {
            let d = dec_date(a.get(0)?)?; let n = usize::try_from(a.get(1)?.u64()?).ok()?; let f = dir(a.get(2)?)?; let cap = small(a.get(3)?)?;
            if n > 3000 { near_end(a.get(0)?, f)?; }
            Some(observe_nth(d.iter_days(), n, f, cap))
        })(),
        "it.wnth" => (|| {
            let d = dec_date(a.get(0)?)?; let n = usize::try_from(a.get(1)?.u64()?).ok()?; let f = dir(a.get(2)?)?; let cap = small(a.get(3)?)?;
            if n > 3000 { near_end(a.get(0)?, f)?; }
            Some(observe_nth(d.iter_weeks(), n, f, cap))
        })(),
        "it.dhint" => (|| {
            let d = dec_date(a.get(0)?)?; let k = small(a.get(1)?)?; let f = dir(a.get(2)?)?;
            Some(hint(d.iter_days(), k, f))
        })(),
        "it.whint" => (|| {
            let d = dec_date(a.get(0)?)?; let k = small(a.get(1)?)?; let f = dir(a.get(2)?)?;
            Some(hint(d.iter_weeks(), k, f))
        })(),
        // compound-assignment forms, Duration on the assign forms, reference subtraction, FixedOffset operands
        "ar.opdasg" => (|| {
            let mut d = dec_date(a.get(0)?)?; let sg = sign(a.get(1)?)?; let x = dec_td(a.get(2)?)?;
            if sg { d += x; } else { d -= x; }
            Some(enc_date(d))
        })(),
        "ar.opnasg" => (|| {
            let mut n = dec_ndt(a.get(0)?)?; let sg = sign(a.get(1)?)?; let x = dec_td(a.get(2)?)?;
            if sg { n += x; } else { n -= x; }
            Some(enc_ndt(n))
        })(),
        "ar.stdasg" => (|| {
            let mut n = dec_ndt(a.get(0)?)?; let sg = sign(a.get(1)?)?; let d = std_dur(a.get(2)?, a.get(3)?)?;
            if sg { n += d; } else { n -= d; }
            Some(enc_ndt(n))
        })(),
        "ar.zstdasg" => (|| {
            let mut z: DateTime<FixedOffset> = dec_dt(a.get(0)?)?; let sg = sign(a.get(1)?)?; let d = std_dur(a.get(2)?, a.get(3)?)?;
            if sg { z += d; } else { z -= d; }
            Some(enc_dt(&z))
        })(),
        "ar.opzdiffref" => (|| { let y: DateTime<FixedOffset> = dec_dt(a.get(1)?)?; Some(enc_td(dec_dt(a.get(0)?)? - &y)) })(),
        "ar.zord" => (|| {
            let x: DateTime<FixedOffset> = dec_dt(a.get(0)?)?; let y: DateTime<FixedOffset> = dec_dt(a.get(1)?)?;
            Some(vtup(vec![vint(x.cmp(&y) as i8), vopt(x.partial_cmp(&y), |o| vint(o as i8)), vbool(x == y),
                           vbool(std::cmp::max(x, y) == x)]))
        })(),
        "ar.noff" => (|| {
            let n: NaiveDateTime = dec_ndt(a.get(0)?)?; let sg = sign(a.get(1)?)?; let o = off(a.get(2)?)?;
            Some(vopt(if sg { n.checked_add_offset(o) } else { n.checked_sub_offset(o) }, enc_ndt))
        })(),
        "ar.opnoff" => (|| {
            let n = dec_ndt(a.get(0)?)?; let sg = sign(a.get(1)?)?; let o = off(a.get(2)?)?;
            Some(enc_ndt(if sg { n + o } else { n - o }))
        })(),
        "ar.opzoff" => (|| {
            let z = dec_dt(a.get(0)?)?; let sg = sign(a.get(1)?)?; let o = off(a.get(2)?)?;
            Some(enc_dt(&(if sg { z + o } else { z - o })))
        })(),
        // provided adaptors of the two iterators
        "it.dcount" => (|| { let f = dir(a.get(1)?)?; near_end(a.get(0)?, f)?; Some(count_of(dec_date(a.get(0)?)?.iter_days(), f)) })(),
        "it.wcount" => (|| { let f = dir(a.get(1)?)?; near_end(a.get(0)?, f)?; Some(count_of(dec_date(a.get(0)?)?.iter_weeks(), f)) })(),
        "it.dlast" => (|| { let f = dir(a.get(1)?)?; near_end(a.get(0)?, f)?; Some(last_of(dec_date(a.get(0)?)?.iter_days(), f)) })(),
        "it.wlast" => (|| { let f = dir(a.get(1)?)?; near_end(a.get(0)?, f)?; Some(last_of(dec_date(a.get(0)?)?.iter_weeks(), f)) })(),
        "it.dlen" => (|| Some(len_of(dec_date(a.get(0)?)?.iter_days(), small(a.get(1)?)?)))(),
        "it.wlen" => (|| Some(len_of(dec_date(a.get(0)?)?.iter_weeks(), small(a.get(1)?)?)))(),
        "it.dstep" => (|| {
            let d = dec_date(a.get(0)?)?; let f = dir(a.get(1)?)?; let s = small(a.get(2)?)?; let cap = small(a.get(3)?)?;
            if s == 0 || cap > 60 { return None; }
            Some(step_of(d.iter_days(), f, s, cap))
        })(),
        "it.wstep" => (|| {
            let d = dec_date(a.get(0)?)?; let f = dir(a.get(1)?)?; let s = small(a.get(2)?)?; let cap = small(a.get(3)?)?;
            if s == 0 || cap > 60 { return None; }
            Some(step_of(d.iter_weeks(), f, s, cap))
        })(),
        "it.drev" => (|| {
            let d = dec_date(a.get(0)?)?; let k = small(a.get(1)?)?; let f = dir(a.get(2)?)?; let cap = small(a.get(3)?)?;
            Some(observe(d.iter_days().rev(), k, f, cap))
        })(),
        "it.wrev" => (|| {
            let d = dec_date(a.get(0)?)?; let k = small(a.get(1)?)?; let f = dir(a.get(2)?)?; let cap = small(a.get(3)?)?;
            Some(observe(d.iter_weeks().rev(), k, f, cap))
        })(),
        _ => return None,
    };
    Some(r.unwrap_or_else(bad))
}
