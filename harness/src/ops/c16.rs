//! C16: TZif / POSIX-TZ readers and the lookups on an accepted zone, through the guarded accessor
//! `chrono::offset::__verif::Zone` (feature `__verif`).  Nothing is parsed here: zones are dumped
//! through `Zone::parts()` (structured data), errors are reduced to the `Error` variant name.
use crate::val::*;
use chrono::offset::__verif::{Ltt, Zone};
use std::panic::{catch_unwind, AssertUnwindSafe};

type Day = (u8, u16, u8, u8);
type Rule = (Ltt, Option<(Ltt, Day, i32, Day, i32)>);

/// `InvalidTzFile("...")` / `Io(Kind(UnexpectedEof))` / `Utf8(Utf8Error { .. })` -> variant name
fn err_of(dbg: &str) -> Val {
    let end = dbg.find(|c: char| !(c.is_ascii_alphanumeric() || c == '_')).unwrap_or(dbg.len());
    Val::Err(dbg[..end].to_string())
}
fn enc_ltt(l: &Ltt) -> Val { vtup(vec![vint(l.0), vbool(l.1), vstr(&l.2)]) }
fn enc_day(d: &Day) -> Val { vtup(vec![vint(d.0), vint(d.1), vint(d.2), vint(d.3)]) }
fn enc_rule(r: &Rule) -> Val {
    match &r.1 {
        None => vtup(vec![enc_ltt(&r.0)]),
        Some((dst, sd, st, ed, et)) => vtup(vec![enc_ltt(&r.0), enc_ltt(dst), enc_day(sd), vint(*st), enc_day(ed), vint(*et)]),
    }
}
fn enc_zone(z: &Zone) -> Val {
    let (tr, ty, lp, rule) = z.parts();
    vtup(vec![
        vtup(tr.iter().map(|(t, i)| vtup(vec![vint(*t), vint(*i as u64)])).collect()),
        vtup(ty.iter().map(enc_ltt).collect()),
        vtup(lp.iter().map(|(t, c)| vtup(vec![vint(*t), vint(*c)])).collect()),
        match &rule { None => Val::None, Some(r) => vsome(enc_rule(r)) },
    ])
}
fn enc_at(z: &Zone, t: i64) -> Val {
    match catch_unwind(AssertUnwindSafe(|| z.at(t))) {
        Err(_) => Val::Panic,
        Ok(Ok(l)) => enc_ltt(&l),
        Ok(Err(e)) => err_of(&e),
    }
}
fn enc_at_local(z: &Zone, n: chrono::NaiveDateTime) -> Val {
    match catch_unwind(AssertUnwindSafe(|| z.at_local(n))) {
        Err(_) => Val::Panic,
        Ok(Ok(m)) => enc_mlt(m, |l| enc_ltt(&l)),
        Ok(Err(e)) => err_of(&e),
    }
}
fn flag(v: &Val) -> Option<bool> { match v.int()? { 0 => Some(false), 1 => Some(true), _ => None } }

pub fn dispatch(op: &str, a: &[Val]) -> Option<Val> {
    let r = match op {
        "tz.parse" => (|| {
            if a.len() != 1 { return None; }
            Some(match Zone::from_tzif(a.get(0)?.bytes()?) { Ok(z) => enc_zone(&z), Err(e) => err_of(&e) })
        })(),
        "tz.rule" => (|| {
            if a.len() != 2 { return None; }
            let ext = flag(a.get(1)?)?;
            Some(match Zone::from_tz_string(a.get(0)?.bytes()?, ext) {
                Ok(z) => match z.parts().3 { Some(r) => enc_rule(&r), None => verr("NORULE") },
                Err(e) => err_of(&e),
            })
        })(),
        "tz.at" | "tz.rat" => (|| {
            let rule = op == "tz.rat";
            if a.len() != if rule { 3 } else { 2 } { return None; }
            let ts: Option<Vec<i64>> = a.last()?.tup()?.iter().map(|v| v.i64()).collect();
            let ts = ts?;
            let z = if rule { Zone::from_tz_string(a.get(0)?.bytes()?, flag(a.get(1)?)?) } else { Zone::from_tzif(a.get(0)?.bytes()?) };
            Some(match z { Ok(z) => vtup(ts.iter().map(|t| enc_at(&z, *t)).collect()), Err(e) => err_of(&e) })
        })(),
        "tz.atlocal" | "tz.ratlocal" => (|| {
            let rule = op == "tz.ratlocal";
            if a.len() != if rule { 3 } else { 2 } { return None; }
            let ns: Option<Vec<chrono::NaiveDateTime>> = a.last()?.tup()?.iter().map(dec_ndt).collect();
            let ns = ns?;
            let z = if rule { Zone::from_tz_string(a.get(0)?.bytes()?, flag(a.get(1)?)?) } else { Zone::from_tzif(a.get(0)?.bytes()?) };
            Some(match z { Ok(z) => vtup(ns.iter().map(|n| enc_at_local(&z, *n)).collect()), Err(e) => err_of(&e) })
        })(),
        _ => return None,
    };
    Some(r.unwrap_or_else(bad))
}
