//! C10: RFC 3339 reader and writer through the public API
//! (DateTime::parse_from_rfc3339, DateTime::to_rfc3339, DateTime::to_rfc3339_opts).
use crate::val::*;
use chrono::format::ParseErrorKind;
use chrono::{DateTime, FixedOffset, ParseResult, SecondsFormat};

fn kind_name(k: ParseErrorKind) -> &'static str {
    match k {
        ParseErrorKind::OutOfRange => "OutOfRange",
        ParseErrorKind::Impossible => "Impossible",
        ParseErrorKind::NotEnough => "NotEnough",
        ParseErrorKind::Invalid => "Invalid",
        ParseErrorKind::TooShort => "TooShort",
        ParseErrorKind::TooLong => "TooLong",
        ParseErrorKind::BadFormat => "BadFormat",
        _ => "Unknown",
    }
}
fn enc_res(r: ParseResult<DateTime<FixedOffset>>) -> Val {
    match r {
        Ok(dt) => enc_dt(&dt),
        Err(e) => verr(kind_name(e.kind())),
    }
}
fn secform(v: &Val) -> Option<SecondsFormat> {
    Some(match v.int()? {
        0 => SecondsFormat::Secs,
        1 => SecondsFormat::Millis,
        2 => SecondsFormat::Micros,
        3 => SecondsFormat::Nanos,
        4 => SecondsFormat::AutoSi,
        _ => return None,
    })
}
fn flag(v: &Val) -> Option<bool> {
    match v.int()? { 0 => Some(false), 1 => Some(true), _ => None }
}

pub fn dispatch(op: &str, a: &[Val]) -> Option<Val> {
    let r = match op {
        "r3.parse" => (|| {
            if a.len() != 1 { return None; }
            Some(enc_res(DateTime::parse_from_rfc3339(a.get(0)?.str()?)))
        })(),
        "r3.write" => (|| {
            if a.len() != 3 { return None; }
            let dt = dec_dt(a.get(0)?)?; let sf = secform(a.get(1)?)?; let z = flag(a.get(2)?)?;
            Some(vstr(&dt.to_rfc3339_opts(sf, z)))
        })(),
        "r3.show" => (|| {
            if a.len() != 1 { return None; }
            Some(vstr(&dec_dt(a.get(0)?)?.to_rfc3339()))
        })(),
        "r3.rt" => (|| {
            if a.len() != 3 { return None; }
            let dt = dec_dt(a.get(0)?)?; let sf = secform(a.get(1)?)?; let z = flag(a.get(2)?)?;
            Some(enc_res(DateTime::parse_from_rfc3339(&dt.to_rfc3339_opts(sf, z))))
        })(),
        _ => return None,
    };
    Some(r.unwrap_or_else(bad))
}
