//! C11: RFC 2822 reader and writer through the public API
//! (DateTime::parse_from_rfc2822, DateTime::to_rfc2822, the Fixed::RFC2822 formatting item).
use crate::val::*;
use chrono::format::{Fixed, Item, ParseErrorKind};
use chrono::{DateTime, FixedOffset, ParseResult};

fn kind_name(k: ParseErrorKind) -> &'static str {
    match k {
        ParseErrorKind::OutOfRange => "OutOfRange",
        ParseErrorKind::Impossible => "Impossible",
        ParseErrorKind::NotEnough => "NotEnough",
        ParseErrorKind::Invalid => "Invalid",
        ParseErrorKind::TooShort => "TooShort",
        ParseErrorKind::TooLong => "TooLong",
        ParseErrorKind::BadFormat => "BadFormat",
        _ => "Unknown",
    }
}
fn enc_res(r: ParseResult<DateTime<FixedOffset>>) -> Val {
    match r {
        Ok(dt) => enc_dt(&dt),
        Err(e) => verr(kind_name(e.kind())),
    }
}

pub fn dispatch(op: &str, a: &[Val]) -> Option<Val> {
    let r = match op {
        "r2.parse" => (|| {
            if a.len() != 1 { return None; }
            Some(enc_res(DateTime::parse_from_rfc2822(a.get(0)?.str()?)))
        })(),
        "r2.write" => (|| {
            if a.len() != 1 { return None; }
            Some(vstr(&dec_dt(a.get(0)?)?.to_rfc2822()))
        })(),
        "r2.fmt" => (|| {
            if a.len() != 1 { return None; }
            let dt = dec_dt(a.get(0)?)?;
            let items = [Item::Fixed(Fixed::RFC2822)];
            Some(vstr(&dt.format_with_items(items.iter()).to_string()))
        })(),
        "r2.rt" => (|| {
            if a.len() != 1 { return None; }
            let dt = dec_dt(a.get(0)?)?;
            Some(enc_res(DateTime::parse_from_rfc2822(&dt.to_rfc2822())))
        })(),
        _ => return None,
    };
    Some(r.unwrap_or_else(bad))
}
