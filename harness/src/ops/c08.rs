//! C08: month stepping, single-field replacement, week helpers, n-th weekday of a month, whole
//! years elapsed, quarter, common-era year, month lengths — through chrono's public API.
use crate::val::*;
use chrono::{DateTime, Datelike, FixedOffset, Month, Months, NaiveDate, NaiveDateTime, Weekday};
use std::collections::hash_map::DefaultHasher;
use std::hash::{Hash, Hasher};

fn h<T: Hash>(x: &T) -> u64 { let mut s = DefaultHasher::new(); x.hash(&mut s); s.finish() }

fn with_date<D: Datelike>(d: &D, field: &str, arg: &Val) -> Option<Option<D>> {
    Some(match field {
        "year" => d.with_year(arg.i32()?),
        "month" => d.with_month(arg.u32()?),
        "month0" => d.with_month0(arg.u32()?),
        "day" => d.with_day(arg.u32()?),
        "day0" => d.with_day0(arg.u32()?),
        "ordinal" => d.with_ordinal(arg.u32()?),
        "ordinal0" => d.with_ordinal0(arg.u32()?),
        _ => return None,
    })
}

fn pair(a: NaiveDate, b: NaiveDate) -> Val { vtup(vec![enc_date(a), enc_date(b)]) }

pub fn dispatch(op: &str, a: &[Val]) -> Option<Val> {
    let r = match op {
        "d8.addm" => (|| Some(vopt(dec_date(a.get(0)?)?.checked_add_months(Months::new(a.get(1)?.u32()?)), enc_date)))(),
        "d8.subm" => (|| Some(vopt(dec_date(a.get(0)?)?.checked_sub_months(Months::new(a.get(1)?.u32()?)), enc_date)))(),
        "d8.opaddm" => (|| Some(enc_date(dec_date(a.get(0)?)? + Months::new(a.get(1)?.u32()?))))(),
        "d8.opsubm" => (|| Some(enc_date(dec_date(a.get(0)?)? - Months::new(a.get(1)?.u32()?))))(),
        "d8.with" => (|| {
            let f = a.get(0)?.str()?; let d = dec_date(a.get(1)?)?;
            Some(vopt(with_date(&d, f, a.get(2)?)?, enc_date))
        })(),
        "d8.wfirst" => (|| Some(vopt(dec_date(a.get(0)?)?.week(dec_wd(a.get(1)?)?).checked_first_day(), enc_date)))(),
        "d8.wlast" => (|| Some(vopt(dec_date(a.get(0)?)?.week(dec_wd(a.get(1)?)?).checked_last_day(), enc_date)))(),
        "d8.week" => (|| Some(vopt(dec_date(a.get(0)?)?.week(dec_wd(a.get(1)?)?).checked_days(), |r| pair(*r.start(), *r.end()))))(),
        "d8.wfirstp" => (|| Some(enc_date(dec_date(a.get(0)?)?.week(dec_wd(a.get(1)?)?).first_day())))(),
        "d8.wlastp" => (|| Some(enc_date(dec_date(a.get(0)?)?.week(dec_wd(a.get(1)?)?).last_day())))(),
        "d8.wdaysp" => (|| { let r = dec_date(a.get(0)?)?.week(dec_wd(a.get(1)?)?).days(); Some(pair(*r.start(), *r.end())) })(),
        "d8.nthwd" => (|| Some(vopt(
            NaiveDate::from_weekday_of_month_opt(a.get(0)?.i32()?, a.get(1)?.u32()?, dec_wd(a.get(2)?)?, a.get(3)?.u8()?), enc_date)))(),
        "d8.years" => (|| Some(vopt(dec_date(a.get(0)?)?.years_since(dec_date(a.get(1)?)?), vint)))(),
        "d8.dtyears" => (|| Some(vopt(dec_dt(a.get(0)?)?.years_since(dec_dt(a.get(1)?)?), vint)))(),
        "d8.quarter" => (|| Some(vint(dec_date(a.get(0)?)?.quarter())))(),
        "d8.yce" => (|| { let (ce, y) = dec_date(a.get(0)?)?.year_ce(); Some(vtup(vec![vbool(ce), vint(y)])) })(),
        "d8.dim" => (|| Some(vint(dec_date(a.get(0)?)?.num_days_in_month())))(),
        "d8.mdays" => (|| Some(vopt(dec_month(a.get(0)?)?.num_days(a.get(1)?.i32()?), vint)))(),
        "d8.ndt.addm" => (|| Some(vopt(dec_ndt(a.get(0)?)?.checked_add_months(Months::new(a.get(1)?.u32()?)), enc_ndt)))(),
        "d8.ndt.subm" => (|| Some(vopt(dec_ndt(a.get(0)?)?.checked_sub_months(Months::new(a.get(1)?.u32()?)), enc_ndt)))(),
        "d8.ndt.with" => (|| {
            let f = a.get(0)?.str()?; let d = dec_ndt(a.get(1)?)?;
            Some(vopt(with_date(&d, f, a.get(2)?)?, enc_ndt))
        })(),
        // operator month stepping and the provided Datelike methods on NaiveDateTime, Months accessor,
        // equality / hashing of NaiveWeek
        "d8.ndt.opaddm" => (|| Some(enc_ndt(dec_ndt(a.get(0)?)? + Months::new(a.get(1)?.u32()?))))(),
        "d8.ndt.opsubm" => (|| Some(enc_ndt(dec_ndt(a.get(0)?)? - Months::new(a.get(1)?.u32()?))))(),
        "d8.ndt.prov" => (|| {
            let n = dec_ndt(a.get(0)?)?;
            let (ce, y) = n.year_ce();
            Some(vtup(vec![vint(n.quarter()), vbool(ce), vint(y), vint(n.num_days_in_month()),
                           vint(n.year()), vint(n.month()), vint(n.month0()), vint(n.day()), vint(n.day0()),
                           vint(n.ordinal()), vint(n.ordinal0()), enc_wd(n.weekday())]))
        })(),
        "d8.months_u32" => (|| Some(vint(Months::new(a.get(0)?.u32()?).as_u32())))(),
        "d8.weq" => (|| {
            let w1 = dec_date(a.get(0)?)?.week(dec_wd(a.get(1)?)?);
            let w2 = dec_date(a.get(2)?)?.week(dec_wd(a.get(3)?)?);
            Some(vtup(vec![vbool(w1 == w2), vbool(w1 != w2), vbool(h(&w1) == h(&w2))]))
        })(),
        #[allow(deprecated)]
        "d8.pnthwd" => (|| Some(enc_date(
            NaiveDate::from_weekday_of_month(a.get(0)?.i32()?, a.get(1)?.u32()?, dec_wd(a.get(2)?)?, a.get(3)?.u8()?))))(),
        _ => return None,
    };
    Some(r.unwrap_or_else(bad))
}
