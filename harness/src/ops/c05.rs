//! C05: local time follows the zone data.  Two routes to the real code:
//!
//! * the guarded accessor `chrono::offset::__verif::Zone` (zone built from TZif bytes or a TZ
//!   string; `at` / `at_local` are `TimeZone::find_local_time_type{,_from_local}`), wrapped in a
//!   `chrono::TimeZone` implementation (`HookTz`) whose two required methods repeat the last lines
//!   of `Cache::offset` / `impl TimeZone for Local` (expect, `FixedOffset::east_opt`, `unwrap`).
//!   Everything else -- `TimeZone::from_local_datetime`, `from_utc_datetime`,
//!   `MappedLocalTime::{earliest, latest, single, map}`, `DateTime::naive_local`/`timestamp` -- is
//!   chrono's own code;
//! * `lz.env`: the public route.  The TZif bytes are written to a file under a scratch directory
//!   of this process, `TZ=:/abs/path` is set, the conversions run with `chrono::Local` on a fresh
//!   thread (the zone cache is thread-local), `TZ` is restored.  A file the reader rejects is
//!   reported as `err:<variant>` (through the hook) and not converted: `Local` would silently use
//!   its fall-back zone, which is C18's subject.
//!
//! Instants and wall-clock readings travel as whole seconds (`DateTime::from_timestamp(x, 0)`),
//! results as offsets in seconds (`lz.rt`: as Unix timestamps).
use crate::val::*;
use chrono::offset::__verif::Zone;
use chrono::format::ParseErrorKind;
use chrono::{DateTime, FixedOffset, Local, MappedLocalTime, NaiveDate, NaiveDateTime, NaiveTime, Offset, TimeDelta, TimeZone, Utc};
use std::cell::RefCell;
use std::time::{Duration, UNIX_EPOCH};
use std::panic::{catch_unwind, AssertUnwindSafe};

thread_local! {
    static CUR: RefCell<Option<Zone>> = const { RefCell::new(None) };
}

/// `Local` with the zone taken from the hook instead of the environment.
#[derive(Clone, Copy, Debug)]
struct HookTz;

/// `Cache::offset` after the cache refresh (src/offset/local/unix.rs)
fn cache_offset(d: NaiveDateTime, local: bool) -> MappedLocalTime<FixedOffset> {
    CUR.with(|c| {
        let c = c.borrow();
        let zone = c.as_ref().expect("no zone");
        if !local {
            let offset = zone.at(d.and_utc().timestamp()).expect("unable to select local time type").0;
            return match FixedOffset::east_opt(offset) {
                Some(offset) => MappedLocalTime::Single(offset),
                None => MappedLocalTime::None,
            };
        }
        // MappedLocalTime::and_then is pub(crate): the same match, written out
        match zone.at_local(d).expect("unable to select local time type") {
            MappedLocalTime::None => MappedLocalTime::None,
            MappedLocalTime::Single(v) => match FixedOffset::east_opt(v.0) {
                Some(new) => MappedLocalTime::Single(new),
                None => MappedLocalTime::None,
            },
            MappedLocalTime::Ambiguous(min, max) => match (FixedOffset::east_opt(min.0), FixedOffset::east_opt(max.0)) {
                (Some(min), Some(max)) => MappedLocalTime::Ambiguous(min, max),
                _ => MappedLocalTime::None,
            },
        }
    })
}

impl TimeZone for HookTz {
    type Offset = FixedOffset;
    fn from_offset(_offset: &FixedOffset) -> HookTz { HookTz }
    fn offset_from_local_date(&self, local: &NaiveDate) -> MappedLocalTime<FixedOffset> {
        self.offset_from_local_datetime(&local.and_time(NaiveTime::MIN))
    }
    fn offset_from_local_datetime(&self, local: &NaiveDateTime) -> MappedLocalTime<FixedOffset> {
        cache_offset(*local, true)
    }
    fn offset_from_utc_date(&self, utc: &NaiveDate) -> FixedOffset {
        self.offset_from_utc_datetime(&utc.and_time(NaiveTime::MIN))
    }
    fn offset_from_utc_datetime(&self, utc: &NaiveDateTime) -> FixedOffset {
        cache_offset(*utc, false).unwrap()
    }
}

fn err_of(dbg: &str) -> Val {
    let end = dbg.find(|c: char| !(c.is_ascii_alphanumeric() || c == '_')).unwrap_or(dbg.len());
    Val::Err(dbg[..end].to_string())
}
fn zone_of(src: &Val) -> Option<Result<Zone, String>> {
    match src {
        Val::Str(b) => Some(Zone::from_tzif(b)),
        Val::Tup(l) if l.len() == 2 => {
            let ext = match l[1].int()? { 0 => false, 1 => true, _ => return None };
            Some(Zone::from_tz_string(l[0].bytes()?, ext))
        }
        _ => None,
    }
}
fn secs_list(v: &Val) -> Option<Vec<NaiveDateTime>> {
    v.tup()?.iter().map(|x| DateTime::from_timestamp(x.i64()?, 0).map(|d| d.naive_utc())).collect()
}
fn guarded(f: impl FnOnce() -> Val) -> Val {
    match catch_unwind(AssertUnwindSafe(f)) { Ok(v) => v, Err(_) => Val::Panic }
}
fn off<Tz: TimeZone>(d: &DateTime<Tz>) -> Val { vint(d.offset().fix().local_minus_utc()) }

fn op_at<Tz: TimeZone>(tz: &Tz, n: &NaiveDateTime) -> Val { guarded(|| off(&tz.from_utc_datetime(n))) }
fn op_loc<Tz: TimeZone>(tz: &Tz, n: &NaiveDateTime) -> Val {
    guarded(|| enc_mlt(tz.from_local_datetime(n), |d| off(&d)))
}
fn op_sel<Tz: TimeZone>(tz: &Tz, n: &NaiveDateTime) -> Val {
    guarded(|| {
        let m = tz.from_local_datetime(n);
        vtup(vec![vopt(m.clone().earliest(), |d| off(&d)), vopt(m.clone().latest(), |d| off(&d)), vopt(m.single(), |d| off(&d))])
    })
}
fn op_rt<Tz: TimeZone>(tz: &Tz, n: &NaiveDateTime) -> Val {
    guarded(|| {
        let dt = tz.from_utc_datetime(n);
        let w = dt.naive_local();
        let m = tz.from_local_datetime(&w);
        vtup(vec![vint(w.and_utc().timestamp()), enc_mlt(m, |d| vint(d.timestamp()))])
    })
}

fn kind_name(k: ParseErrorKind) -> &'static str {
    match k {
        ParseErrorKind::OutOfRange => "OutOfRange",
        ParseErrorKind::Impossible => "Impossible",
        ParseErrorKind::NotEnough => "NotEnough",
        ParseErrorKind::Invalid => "Invalid",
        ParseErrorKind::TooShort => "TooShort",
        ParseErrorKind::TooLong => "TooLong",
        ParseErrorKind::BadFormat => "BadFormat",
        _ => "Unknown",
    }
}
fn pair<Tz: TimeZone>(d: &DateTime<Tz>) -> Val { vtup(vec![off(d), vint(d.timestamp())]) }
/// the conversions into and out of `DateTime<Local>` (public route only: they name `Local` itself)
fn op_conv(n: &NaiveDateTime) -> Val {
    guarded(|| {
        let u: DateTime<Utc> = n.and_utc();
        let x = u.timestamp();
        let k = ((x.rem_euclid(2879) - 1439) * 60) as i32;
        let f: DateTime<FixedOffset> = u.with_timezone(&FixedOffset::east_opt(k).unwrap());
        let l1 = DateTime::<Local>::from(u);
        let l2 = DateTime::<Local>::from(f);
        let u3 = DateTime::<Utc>::from(l1);
        let f4 = DateTime::<FixedOffset>::from(l1);
        let text = format!("{:?}", f);
        let p5 = match text.parse::<DateTime<Local>>() { Ok(l) => pair(&l), Err(e) => verr(kind_name(e.kind())) };
        let t = if x >= 0 { UNIX_EPOCH + Duration::from_secs(x as u64) } else { UNIX_EPOCH - Duration::from_secs(x.unsigned_abs()) };
        let l6 = DateTime::<Local>::from(t);
        vtup(vec![pair(&l1), pair(&l2), pair(&u3), pair(&f4), p5, pair(&l6)])
    })
}

fn scratch_dir() -> std::path::PathBuf {
    let d = std::env::temp_dir().join(format!("verif-c05-{}", std::process::id()));
    let _ = std::fs::create_dir_all(&d);
    d
}

/// `DateTime<Local>` at the instant, then `+=` / `-=` d seconds as TimeDelta and |d| seconds as
/// core::time::Duration, each assignment under its own catch_unwind
fn op_asg(d: i64, n: &NaiveDateTime) -> Val {
    guarded(|| {
        let a: DateTime<Local> = Local.from_utc_datetime(n);
        let td = TimeDelta::try_seconds(d).unwrap();
        let sd = Duration::from_secs(d.unsigned_abs());
        vtup(vec![
            guarded(|| { let mut x = a; x += td; pair(&x) }),
            guarded(|| { let mut x = a; x -= td; pair(&x) }),
            guarded(|| { let mut x = a; x += sd; pair(&x) }),
            guarded(|| { let mut x = a; x -= sd; pair(&x) }),
        ])
    })
}

/// the public route: TZ=:/abs/path, chrono::Local on a fresh thread
fn op_env(bytes: &[u8], f: impl Fn(&NaiveDateTime) -> Val + Send + 'static, ns: Vec<NaiveDateTime>) -> Val {
    let path = scratch_dir().join("zone.tzif");
    if std::fs::write(&path, bytes).is_err() { return verr("IO"); }
    let saved = std::env::var_os("TZ");
    std::env::set_var("TZ", format!(":{}", path.display()));
    let r = std::thread::spawn(move || vtup(ns.iter().map(|n| f(n)).collect())).join();
    match saved { Some(v) => std::env::set_var("TZ", v), None => std::env::remove_var("TZ") }
    let _ = std::fs::remove_file(&path);
    match r { Ok(v) => v, Err(_) => Val::Panic }
}

pub fn dispatch(op: &str, a: &[Val]) -> Option<Val> {
    let r = match op {
        "lz.at" | "lz.uat" | "lz.loc" | "lz.uloc" | "lz.sel" | "lz.usel" | "lz.rt" | "lz.urt" => (|| {
            if a.len() != 3 { return None; }
            let ns = secs_list(&a[2])?;
            let z = match zone_of(&a[0])? { Ok(z) => z, Err(e) => return Some(err_of(&e)) };
            CUR.with(|c| *c.borrow_mut() = Some(z));
            let f: fn(&HookTz, &NaiveDateTime) -> Val = match op {
                "lz.at" | "lz.uat" => op_at,
                "lz.loc" | "lz.uloc" => op_loc,
                "lz.sel" | "lz.usel" => op_sel,
                _ => op_rt,
            };
            let out = vtup(ns.iter().map(|n| f(&HookTz, n)).collect());
            CUR.with(|c| *c.borrow_mut() = None);
            Some(out)
        })(),
        "lz.env" => (|| {
            if a.len() != 4 { return None; }
            let dir = a[2].int()?;
            if dir != 0 && dir != 1 { return None; }
            let ns = secs_list(&a[3])?;
            let bytes = a[0].bytes()?;
            // a file the reader rejects would silently select the fall-back zone (C18's subject):
            // report the rejection instead of converting in whatever zone that is
            if let Err(e) = Zone::from_tzif(bytes) { return Some(err_of(&e)); }
            Some(if dir == 0 { op_env(bytes, |n| op_at(&Local, n), ns) } else { op_env(bytes, |n| op_loc(&Local, n), ns) })
        })(),
        "lz.conv" => (|| {
            if a.len() != 3 { return None; }
            let ns = secs_list(&a[2])?;
            let bytes = a[0].bytes()?;
            if let Err(e) = Zone::from_tzif(bytes) { return Some(err_of(&e)); }
            Some(op_env(bytes, op_conv, ns))
        })(),
        "lz.asg" => (|| {
            if a.len() != 4 { return None; }
            let d = a[2].i64()?;
            if !(-10_000_000_000_000..=10_000_000_000_000).contains(&d) { return None; }
            let ns = secs_list(&a[3])?;
            let bytes = a[0].bytes()?;
            if let Err(e) = Zone::from_tzif(bytes) { return Some(err_of(&e)); }
            Some(op_env(bytes, move |n| op_asg(d, n), ns))
        })(),
        _ => return None,
    };
    Some(r.unwrap_or_else(bad))
}
