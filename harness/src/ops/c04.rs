//! C04: DateTime<FixedOffset> / DateTime<Utc> — construction from wall clock and from UTC, wall-clock
//! accessors and setters, comparison/hash, zone conversion, day and month stepping.
use crate::val::*;
use chrono::{DateTime, Datelike, Days, FixedOffset, Months, NaiveDateTime, TimeZone, Timelike, Utc};
use std::collections::hash_map::DefaultHasher;
use std::hash::{Hash, Hasher};

fn off(v: &Val) -> Option<FixedOffset> { FixedOffset::east_opt(v.i32()?) }
fn enc_fo(o: FixedOffset) -> Val { vint(o.local_minus_utc()) }
fn enc_z(z: DateTime<FixedOffset>) -> Val { enc_dt(&z) }
fn h<T: Hash>(x: &T) -> u64 { let mut s = DefaultHasher::new(); x.hash(&mut s); s.finish() }

fn acc(z: DateTime<FixedOffset>) -> Val {
    let iw = z.iso_week();
    vtup(vec![
        vint(z.year()), vint(z.month()), vint(z.month0()), vint(z.day()), vint(z.day0()),
        vint(z.ordinal()), vint(z.ordinal0()), enc_wd(z.weekday()),
        vint(z.hour()), vint(z.minute()), vint(z.second()), vint(z.nanosecond()),
        vint(iw.year()), vint(iw.week()),
    ])
}

fn with(field: i128, z: DateTime<FixedOffset>, v: &Val) -> Option<Val> {
    let r = match field {
        0 => z.with_year(v.i32()?),
        1 => z.with_month(v.u32()?),
        2 => z.with_month0(v.u32()?),
        3 => z.with_day(v.u32()?),
        4 => z.with_day0(v.u32()?),
        5 => z.with_ordinal(v.u32()?),
        6 => z.with_ordinal0(v.u32()?),
        7 => z.with_hour(v.u32()?),
        8 => z.with_minute(v.u32()?),
        9 => z.with_second(v.u32()?),
        10 => z.with_nanosecond(v.u32()?),
        _ => return None,
    };
    Some(vopt(r, enc_z))
}

pub fn dispatch(op: &str, a: &[Val]) -> Option<Val> {
    let r = match op {
        "z.east" => (|| Some(vopt(FixedOffset::east_opt(a.get(0)?.i32()?), enc_fo)))(),
        "z.west" => (|| Some(vopt(FixedOffset::west_opt(a.get(0)?.i32()?), enc_fo)))(),
        "z.fromlocal" => (|| {
            let o = off(a.get(0)?)?; let l: NaiveDateTime = dec_ndt(a.get(1)?)?;
            Some(enc_mlt(o.from_local_datetime(&l), enc_z))
        })(),
        "z.fromutc" => (|| {
            let o = off(a.get(0)?)?; let u = dec_ndt(a.get(1)?)?;
            Some(enc_z(o.from_utc_datetime(&u)))
        })(),
        "z.nutc" => (|| Some(enc_ndt(dec_dt(a.get(0)?)?.naive_utc())))(),
        "z.nlocal" => (|| Some(enc_ndt(dec_dt(a.get(0)?)?.naive_local())))(),
        "z.show" => (|| {
            use std::fmt::Write;
            let z = dec_dt(a.get(0)?)?; let form = a.get(1)?.int()?;
            let mut t = String::new();
            let r = match form { 0 => write!(&mut t, "{}", z), 1 => write!(&mut t, "{:?}", z), _ => return None };
            Some(if r.is_ok() { vstr(&t) } else { verr("fmt") })
        })(),
        "z.acc" => (|| Some(acc(dec_dt(a.get(0)?)?)))(),
        "z.time" => (|| Some(enc_time(dec_dt(a.get(0)?)?.time())))(),
        "z.datenaive" => (|| Some(enc_date(dec_dt(a.get(0)?)?.date_naive())))(),
        "z.withtz" => (|| {
            let z = dec_dt(a.get(0)?)?; let o = off(a.get(1)?)?;
            Some(enc_z(z.with_timezone(&o)))
        })(),
        "z.fixed" => (|| Some(enc_z(dec_dt(a.get(0)?)?.fixed_offset())))(),
        "z.toutc" => (|| { let u: DateTime<Utc> = dec_dt(a.get(0)?)?.to_utc(); Some(enc_dt(&u)) })(),
        "z.eq" => (|| Some(vbool(dec_dt(a.get(0)?)? == dec_dt(a.get(1)?)?)))(),
        "z.cmp" => (|| Some(vint(dec_dt(a.get(0)?)?.cmp(&dec_dt(a.get(1)?)?) as i8)))(),
        "z.hasheq" => (|| Some(vbool(h(&dec_dt(a.get(0)?)?) == h(&dec_dt(a.get(1)?)?))))(),
        "z.with" => (|| with(a.get(0)?.int()?, dec_dt(a.get(1)?)?, a.get(2)?))(),
        "z.withtime" => (|| {
            let z = dec_dt(a.get(0)?)?; let t = dec_time(a.get(1)?)?;
            Some(enc_mlt(z.with_time(t), enc_z))
        })(),
        "z.days" => (|| {
            let z = dec_dt(a.get(0)?)?; let n = Days::new(a.get(2)?.u64()?);
            match a.get(1)?.int()? {
                1 => Some(vopt(z.checked_add_days(n), enc_z)),
                -1 => Some(vopt(z.checked_sub_days(n), enc_z)),
                _ => None,
            }
        })(),
        "z.months" => (|| {
            let z = dec_dt(a.get(0)?)?; let n = Months::new(a.get(2)?.u32()?);
            match a.get(1)?.int()? {
                1 => Some(vopt(z.checked_add_months(n), enc_z)),
                -1 => Some(vopt(z.checked_sub_months(n), enc_z)),
                _ => None,
            }
        })(),
        "z.ymdhms" => (|| {
            let o = off(a.get(0)?)?;
            Some(enc_mlt(o.with_ymd_and_hms(a.get(1)?.i32()?, a.get(2)?.u32()?, a.get(3)?.u32()?,
                                            a.get(4)?.u32()?, a.get(5)?.u32()?, a.get(6)?.u32()?), enc_z))
        })(),
        // operator month stepping, From conversions, partial order across zones, utc_minus_local,
        // provided methods of Datelike / Timelike on a zone-aware value
        "z.opmonths" => (|| {
            let z = dec_dt(a.get(0)?)?; let n = Months::new(a.get(2)?.u32()?);
            match a.get(1)?.int()? {
                1 => Some(enc_z(z + n)),
                -1 => Some(enc_z(z - n)),
                _ => None,
            }
        })(),
        "z.opdays" => (|| {
            let z = dec_dt(a.get(0)?)?; let n = Days::new(a.get(2)?.u64()?);
            match a.get(1)?.int()? {
                1 => Some(enc_z(z + n)),
                -1 => Some(enc_z(z - n)),
                _ => None,
            }
        })(),
        "z.conv" => (|| {
            let z = dec_dt(a.get(0)?)?;
            let u: DateTime<Utc> = DateTime::<Utc>::from(z);
            let f: DateTime<FixedOffset> = DateTime::<FixedOffset>::from(u);
            Some(vtup(vec![enc_dt(&u), enc_z(f)]))
        })(),
        "z.pcmp" => (|| {
            let x = dec_dt(a.get(0)?)?; let y = dec_dt(a.get(1)?)?;
            let yu: DateTime<Utc> = y.to_utc();
            Some(vtup(vec![
                vopt(x.partial_cmp(&y), |o| vint(o as i8)), vopt(x.partial_cmp(&yu), |o| vint(o as i8)),
                vbool(x == yu), vbool(x != y),
                vbool(x < y), vbool(x <= y), vbool(x > y), vbool(x >= y),
                vbool(x < yu), vbool(x >= yu),
            ]))
        })(),
        "z.uml" => (|| { let o = off(a.get(0)?)?; Some(vtup(vec![vint(o.utc_minus_local()), vint(o.local_minus_utc())])) })(),
        "z.prov" => (|| {
            let z = dec_dt(a.get(0)?)?;
            let (ce, y) = z.year_ce(); let (pm, h12) = z.hour12();
            Some(vtup(vec![vbool(ce), vint(y), vint(z.quarter()), vint(z.num_days_from_ce()), vint(z.num_days_in_month()),
                           vbool(pm), vint(h12), vint(z.num_seconds_from_midnight()), vint(z.iso_week().week0())]))
        })(),
        // the deprecated panicking constructors
        #[allow(deprecated)]
        "z.peast" => (|| Some(enc_fo(FixedOffset::east(a.get(0)?.i32()?))))(),
        #[allow(deprecated)]
        "z.pwest" => (|| Some(enc_fo(FixedOffset::west(a.get(0)?.i32()?))))(),
        // direct constructors (from_naive_utc_and_offset, the deprecated from_utc / from_local) and timezone()
        "z.mk" => (|| {
            let o = off(a.get(0)?)?; let u = dec_ndt(a.get(1)?)?;
            let z = DateTime::<FixedOffset>::from_naive_utc_and_offset(u, o);
            #[allow(deprecated)]
            let z2 = DateTime::<FixedOffset>::from_utc(u, o);
            Some(vtup(vec![enc_z(z), vint(z.timezone().local_minus_utc()), enc_z(z2)]))
        })(),
        #[allow(deprecated)]
        "z.pfromlocal" => (|| {
            let o = off(a.get(0)?)?; let l = dec_ndt(a.get(1)?)?;
            Some(enc_z(DateTime::<FixedOffset>::from_local(l, o)))
        })(),
        _ => return None,
    };
    Some(r.unwrap_or_else(bad))
}
