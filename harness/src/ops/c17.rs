//! C17: DurationRound / SubsecRound (src/round.rs).
use crate::val::*;
use chrono::{DurationRound, RoundingError, SubsecRound};

fn enc_err(e: RoundingError) -> Val {
    // the variant name, from the derived Debug output
    verr(&format!("{:?}", e))
}
fn res<T>(r: Result<T, RoundingError>, f: impl FnOnce(T) -> Val) -> Val {
    match r { Ok(x) => f(x), Err(e) => enc_err(e) }
}

fn subsec(round: bool, a: &[Val]) -> Option<Val> {
    let kind = a.get(0)?.int()?;
    let v = a.get(1)?;
    let digits = a.get(2)?.u16()?;
    Some(match kind {
        1 => { let t = dec_time(v)?; enc_time(if round { t.round_subsecs(digits) } else { t.trunc_subsecs(digits) }) }
        2 => { let t = dec_ndt(v)?; enc_ndt(if round { t.round_subsecs(digits) } else { t.trunc_subsecs(digits) }) }
        3 => { let t = dec_dt(v)?; enc_dt(&if round { t.round_subsecs(digits) } else { t.trunc_subsecs(digits) }) }
        _ => return None,
    })
}

pub fn dispatch(op: &str, a: &[Val]) -> Option<Val> {
    let r = match op {
        "rd.trunc" => (|| Some(res(dec_ndt(a.get(0)?)?.duration_trunc(dec_td(a.get(1)?)?), enc_ndt)))(),
        "rd.round" => (|| Some(res(dec_ndt(a.get(0)?)?.duration_round(dec_td(a.get(1)?)?), enc_ndt)))(),
        "rd.up" => (|| Some(res(dec_ndt(a.get(0)?)?.duration_round_up(dec_td(a.get(1)?)?), enc_ndt)))(),
        "rd.ztrunc" => (|| Some(res(dec_dt(a.get(0)?)?.duration_trunc(dec_td(a.get(1)?)?), |z| enc_dt(&z))))(),
        "rd.zround" => (|| Some(res(dec_dt(a.get(0)?)?.duration_round(dec_td(a.get(1)?)?), |z| enc_dt(&z))))(),
        "rd.zup" => (|| Some(res(dec_dt(a.get(0)?)?.duration_round_up(dec_td(a.get(1)?)?), |z| enc_dt(&z))))(),
        "rd.rsub" => subsec(true, a),
        "rd.tsub" => subsec(false, a),
        _ => return None,
    };
    Some(r.unwrap_or_else(bad))
}
