//! C20: serde support (crate feature "serde"), through serde_json (self-describing) and bincode
//! (positional), with `#[serde(with = "...")]` wrapper structs for all sixteen ts_* helper modules.
//!   sd.rt     fmt ty value        -> (payload, deserialized) | err:<serializer error>
//!   sd.read   fmt ty <bytes>      -> value | err:..   (the string is written with the format, then read as ty)
//!   sd.ts     m fmt value         -> (written, read back)     option modules: none | some(value)
//!   sd.tsread m fmt kind integer  -> value | err:..           kind 0: visit_i64, 1: visit_u64
//!   sd.tsnone m fmt kind          -> none                     option modules: kind 0 none/null, 1 unit
//!   sd.tdread fmt secs nanos      -> (secs,nanos) | err:..
//! fmt: 0 serde_json, 1 bincode, 2 (sd.tsread / sd.tsnone only) a hand-written Deserializer that hands
//!      the integer / none / unit to the visitor directly
//! ty: 0 NaiveDate, 1 NaiveTime, 2 NaiveDateTime, 3 DateTime<FixedOffset>, 4 DateTime<Utc>, 5 TimeDelta,
//!     6 Weekday, 7 Month, 8 DateTime<FixedOffset> -> DateTime<Utc>, 9 DateTime<FixedOffset> -> DateTime<Local>
//! m:  8*z + 2*u + o   z: 0 NaiveDateTime 1 DateTime<Utc>;  u: 0 s 1 ms 2 us 3 ns;  o: 0 plain 1 _option
//! Errors are reported by the kind of their message (serde errors carry text only).
use crate::val::*;
use chrono::{DateTime, FixedOffset, Local, Month, NaiveDate, NaiveDateTime, NaiveTime, TimeDelta, Utc, Weekday};
use serde::de::{DeserializeOwned, Visitor};
use serde::{Deserialize, Serialize};

fn err_name(msg: &str) -> String {
    let table = [
        ("value is not a legal timestamp: ", "InvalidTimestamp"),
        ("TimeDelta out of bounds", "TimeDeltaOutOfBounds"),
        ("short or long weekday names expected", "WeekdayName"),
        ("short (3-letter) or full month names expected", "MonthName"),
        ("value out of range for a timestamp with nanosecond precision", "SerNanosRange"),
        ("input is out of range", "OutOfRange"),
        ("no possible date and time matching input", "Impossible"),
        ("input is not enough for unique date and time", "NotEnough"),
        ("input contains invalid characters", "Invalid"),
        ("premature end of input", "TooShort"),
        ("trailing input", "TooLong"),
        ("bad or unsupported format string", "BadFormat"),
        ("invalid type", "InvalidType"),
        ("invalid value", "InvalidType"),
    ];
    for (k, v) in table { if msg.contains(k) { return v.to_string(); } }
    "Other".to_string()
}

fn ser<T: Serialize + ?Sized>(fmt: i128, x: &T) -> Result<Vec<u8>, String> {
    match fmt {
        0 => serde_json::to_vec(x).map_err(|e| e.to_string()),
        _ => bincode::serialize(x).map_err(|e| e.to_string()),
    }
}
fn de<T: DeserializeOwned>(fmt: i128, b: &[u8]) -> Result<T, String> {
    match fmt {
        0 => serde_json::from_slice(b).map_err(|e| e.to_string()),
        _ => bincode::deserialize(b).map_err(|e| e.to_string()),
    }
}
fn res<T>(r: Result<T, String>, enc: impl FnOnce(T) -> Val) -> Val {
    match r { Ok(v) => enc(v), Err(m) => verr(&err_name(&m)) }
}

/// serialize x, read the payload back generically as P, then deserialize as U
fn round_trip<T: Serialize, P: DeserializeOwned, U: DeserializeOwned>(
    fmt: i128, x: &T, encp: impl FnOnce(P) -> Val, enc: impl FnOnce(U) -> Val) -> Val {
    let bytes = match ser(fmt, x) { Ok(b) => b, Err(m) => return verr(&err_name(&m)) };
    let payload = match de::<P>(fmt, &bytes) { Ok(p) => encp(p), Err(_) => verr("PAYLOAD") };
    vtup(vec![payload, res(de::<U>(fmt, &bytes), enc)])
}
fn ptext(s: String) -> Val { vstr(&s) }

fn rt(fmt: i128, ty: i128, v: &Val) -> Option<Val> {
    Some(match ty {
        0 => round_trip(fmt, &dec_date(v)?, ptext, enc_date),
        1 => round_trip(fmt, &dec_time(v)?, ptext, enc_time),
        2 => round_trip(fmt, &dec_ndt(v)?, ptext, enc_ndt),
        3 => round_trip(fmt, &dec_dt(v)?, ptext, |z: DateTime<FixedOffset>| enc_dt(&z)),
        4 => {
            let z = dec_dt(v)?;
            if z.offset().local_minus_utc() != 0 { return None; }
            round_trip(fmt, &z.with_timezone(&Utc), ptext, |z: DateTime<Utc>| enc_dt(&z))
        }
        5 => round_trip(fmt, &dec_td(v)?, |p: (i64, i32)| vtup(vec![vint(p.0), vint(p.1)]), enc_td),
        6 => round_trip(fmt, &dec_wd(v)?, ptext, enc_wd),
        7 => round_trip(fmt, &dec_month(v)?, ptext, enc_month),
        8 => round_trip(fmt, &dec_dt(v)?, ptext, |z: DateTime<Utc>| enc_dt(&z)),
        9 => round_trip(fmt, &dec_dt(v)?, ptext, |z: DateTime<Local>| enc_dt(&z.with_timezone(&Utc))),
        _ => return None,
    })
}

fn read(fmt: i128, ty: i128, s: &str) -> Option<Val> {
    let bytes = ser(fmt, s).ok()?;
    Some(match ty {
        0 => res(de::<NaiveDate>(fmt, &bytes), enc_date),
        1 => res(de::<NaiveTime>(fmt, &bytes), enc_time),
        2 => res(de::<NaiveDateTime>(fmt, &bytes), enc_ndt),
        3 => res(de::<DateTime<FixedOffset>>(fmt, &bytes), |z| enc_dt(&z)),
        4 | 8 => res(de::<DateTime<Utc>>(fmt, &bytes), |z| enc_dt(&z)),
        6 => res(de::<Weekday>(fmt, &bytes), enc_wd),
        7 => res(de::<Month>(fmt, &bytes), enc_month),
        9 => res(de::<DateTime<Local>>(fmt, &bytes), |z| enc_dt(&z.with_timezone(&Utc))),
        _ => return None,
    })
}

// ---- the sixteen helper modules behind #[serde(with = ...)] -------------------------------------
trait Wrap: Serialize + DeserializeOwned {
    const OPT: bool;
    fn make(o: Option<NaiveDateTime>) -> Option<Self>;
    fn val(&self) -> Val;
}
macro_rules! wrap {
    ($name:ident, $path:literal, naive, plain) => {
        #[derive(Serialize, Deserialize)] struct $name(#[serde(with = $path)] NaiveDateTime);
        impl Wrap for $name {
            const OPT: bool = false;
            fn make(o: Option<NaiveDateTime>) -> Option<Self> { o.map($name) }
            fn val(&self) -> Val { enc_ndt(self.0) }
        }
    };
    ($name:ident, $path:literal, naive, option) => {
        #[derive(Serialize, Deserialize)] struct $name(#[serde(with = $path)] Option<NaiveDateTime>);
        impl Wrap for $name {
            const OPT: bool = true;
            fn make(o: Option<NaiveDateTime>) -> Option<Self> { Some($name(o)) }
            fn val(&self) -> Val { vopt(self.0, enc_ndt) }
        }
    };
    ($name:ident, $path:literal, utc, plain) => {
        #[derive(Serialize, Deserialize)] struct $name(#[serde(with = $path)] DateTime<Utc>);
        impl Wrap for $name {
            const OPT: bool = false;
            fn make(o: Option<NaiveDateTime>) -> Option<Self> { o.map(|n| $name(n.and_utc())) }
            fn val(&self) -> Val { enc_ndt(self.0.naive_utc()) }
        }
    };
    ($name:ident, $path:literal, utc, option) => {
        #[derive(Serialize, Deserialize)] struct $name(#[serde(with = $path)] Option<DateTime<Utc>>);
        impl Wrap for $name {
            const OPT: bool = true;
            fn make(o: Option<NaiveDateTime>) -> Option<Self> { Some($name(o.map(|n| n.and_utc()))) }
            fn val(&self) -> Val { vopt(self.0, |z| enc_ndt(z.naive_utc())) }
        }
    };
}
wrap!(M0, "chrono::naive::serde::ts_seconds", naive, plain);
wrap!(M1, "chrono::naive::serde::ts_seconds_option", naive, option);
wrap!(M2, "chrono::naive::serde::ts_milliseconds", naive, plain);
wrap!(M3, "chrono::naive::serde::ts_milliseconds_option", naive, option);
wrap!(M4, "chrono::naive::serde::ts_microseconds", naive, plain);
wrap!(M5, "chrono::naive::serde::ts_microseconds_option", naive, option);
wrap!(M6, "chrono::naive::serde::ts_nanoseconds", naive, plain);
wrap!(M7, "chrono::naive::serde::ts_nanoseconds_option", naive, option);
wrap!(M8, "chrono::serde::ts_seconds", utc, plain);
wrap!(M9, "chrono::serde::ts_seconds_option", utc, option);
wrap!(M10, "chrono::serde::ts_milliseconds", utc, plain);
wrap!(M11, "chrono::serde::ts_milliseconds_option", utc, option);
wrap!(M12, "chrono::serde::ts_microseconds", utc, plain);
wrap!(M13, "chrono::serde::ts_microseconds_option", utc, option);
wrap!(M14, "chrono::serde::ts_nanoseconds", utc, plain);
wrap!(M15, "chrono::serde::ts_nanoseconds_option", utc, option);

/// fmt 2: hands a primitive straight to the visitor the impl passes in
#[derive(Clone, Copy)]
enum Prim { I64(i64), U64(u64), None, Unit }
struct Direct(Prim);
impl<'de> serde::Deserializer<'de> for Direct {
    type Error = serde::de::value::Error;
    fn deserialize_any<V: Visitor<'de>>(self, v: V) -> Result<V::Value, Self::Error> {
        match self.0 {
            Prim::I64(x) => v.visit_i64(x),
            Prim::U64(x) => v.visit_u64(x),
            Prim::None => v.visit_none(),
            Prim::Unit => v.visit_unit(),
        }
    }
    fn deserialize_option<V: Visitor<'de>>(self, v: V) -> Result<V::Value, Self::Error> {
        match self.0 {
            Prim::None => v.visit_none(),
            Prim::Unit => v.visit_unit(),
            _ => v.visit_some(self),
        }
    }
    fn deserialize_newtype_struct<V: Visitor<'de>>(self, _name: &'static str, v: V) -> Result<V::Value, Self::Error> {
        v.visit_newtype_struct(self)
    }
    serde::forward_to_deserialize_any! {
        bool i8 i16 i32 i64 i128 u8 u16 u32 u64 u128 f32 f64 char str string bytes byte_buf unit unit_struct
        seq tuple tuple_struct map struct enum identifier ignored_any
    }
}

fn ts_rt<W: Wrap>(fmt: i128, v: &Val) -> Option<Val> {
    let arg = if W::OPT {
        match v { Val::None => None, Val::Some(x) => Some(dec_ndt(x)?), _ => return None }
    } else { Some(dec_ndt(v)?) };
    let w = W::make(arg)?;
    Some(if W::OPT {
        round_trip(fmt, &w, |p: Option<i64>| vopt(p, vint), |u: W| u.val())
    } else {
        round_trip(fmt, &w, |p: i64| vint(p), |u: W| u.val())
    })
}
fn ts_read<W: Wrap>(fmt: i128, kind: i128, n: i128) -> Option<Val> {
    let r: Result<W, String> = match fmt {
        0 => {
            let ok = (kind == 1 && n >= 0 && n <= u64::MAX as i128) || (kind == 0 && n < 0 && n >= i64::MIN as i128);
            if !ok { return None; }
            de::<W>(0, n.to_string().as_bytes())
        }
        1 => {
            if kind != 0 { return None; }
            let x = i64::try_from(n).ok()?;
            let bytes = if W::OPT { bincode::serialize(&Some(x)).ok()? } else { bincode::serialize(&x).ok()? };
            de::<W>(1, &bytes)
        }
        2 => {
            let p = match kind { 0 => Prim::I64(i64::try_from(n).ok()?), 1 => Prim::U64(u64::try_from(n).ok()?), _ => return None };
            W::deserialize(Direct(p)).map_err(|e| e.to_string())
        }
        _ => return None,
    };
    Some(res(r, |w| w.val()))
}
fn ts_none<W: Wrap>(fmt: i128, kind: i128) -> Option<Val> {
    if !W::OPT { return None; }
    let r: Result<W, String> = match (fmt, kind) {
        (0, 0) => de::<W>(0, b"null"),
        (1, 0) => de::<W>(1, &[0u8]),
        (2, 0) => W::deserialize(Direct(Prim::None)).map_err(|e| e.to_string()),
        (2, 1) => W::deserialize(Direct(Prim::Unit)).map_err(|e| e.to_string()),
        _ => return None,
    };
    Some(res(r, |w| w.val()))
}
macro_rules! by_module {
    ($m:expr, $f:ident ( $($a:expr),* )) => {
        match $m {
            0 => $f::<M0>($($a),*), 1 => $f::<M1>($($a),*), 2 => $f::<M2>($($a),*), 3 => $f::<M3>($($a),*),
            4 => $f::<M4>($($a),*), 5 => $f::<M5>($($a),*), 6 => $f::<M6>($($a),*), 7 => $f::<M7>($($a),*),
            8 => $f::<M8>($($a),*), 9 => $f::<M9>($($a),*), 10 => $f::<M10>($($a),*), 11 => $f::<M11>($($a),*),
            12 => $f::<M12>($($a),*), 13 => $f::<M13>($($a),*), 14 => $f::<M14>($($a),*), 15 => $f::<M15>($($a),*),
            _ => None,
        }
    };
}

pub fn dispatch(op: &str, a: &[Val]) -> Option<Val> {
    let fmt_ok = |f: i128| f == 0 || f == 1;
    let r = match op {
        "sd.rt" => (|| {
            if a.len() != 3 { return None; }
            let fmt = a[0].int()?; if !fmt_ok(fmt) { return None; }
            rt(fmt, a[1].int()?, &a[2])
        })(),
        "sd.read" => (|| {
            if a.len() != 3 { return None; }
            let fmt = a[0].int()?; if !fmt_ok(fmt) { return None; }
            read(fmt, a[1].int()?, a[2].str()?)
        })(),
        "sd.ts" => (|| {
            if a.len() != 3 { return None; }
            let fmt = a[1].int()?; if !fmt_ok(fmt) { return None; }
            by_module!(a[0].int()?, ts_rt(fmt, &a[2]))
        })(),
        "sd.tsread" => (|| {
            if a.len() != 4 { return None; }
            by_module!(a[0].int()?, ts_read(a[1].int()?, a[2].int()?, a[3].int()?))
        })(),
        "sd.tsnone" => (|| {
            if a.len() != 3 { return None; }
            by_module!(a[0].int()?, ts_none(a[1].int()?, a[2].int()?))
        })(),
        "sd.tdread" => (|| {
            if a.len() != 3 { return None; }
            let fmt = a[0].int()?; if !fmt_ok(fmt) { return None; }
            let secs = a[1].i64()?; let nanos = a[2].i32()?;
            let bytes = ser(fmt, &(secs, nanos)).ok()?;
            Some(res(de::<TimeDelta>(fmt, &bytes), enc_td))
        })(),
        _ => return None,
    };
    Some(r.unwrap_or_else(bad))
}
