//! C09: default text forms (Display / Debug via to_string() / format!("{:?}")) and FromStr
//! (str::parse::<T>()) of NaiveDate, NaiveTime, NaiveDateTime, DateTime<FixedOffset>, DateTime<Utc>,
//! FixedOffset, Weekday, Month.
//!   tx.show  type form value   -> text            (form 0 = Display, 1 = Debug)
//!   tx.parse type <bytes>      -> value | err:<ParseErrorKind> (ParseWeekdayError / ParseMonthError)
//!   tx.rt    type form value   -> parse(show value)
//! types: 0 NaiveDate, 1 NaiveTime, 2 NaiveDateTime, 3 DateTime<FixedOffset>, 4 DateTime<Utc>,
//!        5 FixedOffset (value = seconds east), 6 Weekday, 7 Month (no Display: form 0 -> BADARGS).
use crate::val::*;
use chrono::format::ParseErrorKind;
use chrono::{DateTime, FixedOffset, Month, NaiveDate, NaiveDateTime, NaiveTime, ParseError, Utc, Weekday};

fn kind_name(k: ParseErrorKind) -> &'static str {
    match k {
        ParseErrorKind::OutOfRange => "OutOfRange",
        ParseErrorKind::Impossible => "Impossible",
        ParseErrorKind::NotEnough => "NotEnough",
        ParseErrorKind::Invalid => "Invalid",
        ParseErrorKind::TooShort => "TooShort",
        ParseErrorKind::TooLong => "TooLong",
        ParseErrorKind::BadFormat => "BadFormat",
        _ => "Unknown",
    }
}
fn pres<T>(r: Result<T, ParseError>, enc: impl FnOnce(T) -> Val) -> Val {
    match r { Ok(v) => enc(v), Err(e) => verr(kind_name(e.kind())) }
}

fn show(ty: i128, form: i128, v: &Val) -> Option<String> {
    let dbg = match form { 0 => false, 1 => true, _ => return None };
    Some(match ty {
        0 => { let d = dec_date(v)?; if dbg { format!("{:?}", d) } else { d.to_string() } }
        1 => { let t = dec_time(v)?; if dbg { format!("{:?}", t) } else { t.to_string() } }
        2 => { let n = dec_ndt(v)?; if dbg { format!("{:?}", n) } else { n.to_string() } }
        3 => { let z = dec_dt(v)?; if dbg { format!("{:?}", z) } else { z.to_string() } }
        4 => {
            let z = dec_dt(v)?;
            if z.offset().local_minus_utc() != 0 { return None; }
            let u: DateTime<Utc> = z.with_timezone(&Utc);
            if dbg { format!("{:?}", u) } else { u.to_string() }
        }
        5 => { let o = FixedOffset::east_opt(v.i32()?)?; if dbg { format!("{:?}", o) } else { o.to_string() } }
        6 => { let w = dec_wd(v)?; if dbg { format!("{:?}", w) } else { w.to_string() } }
        7 => { let m = dec_month(v)?; if dbg { format!("{:?}", m) } else { return None } }
        _ => return None,
    })
}

fn parse(ty: i128, s: &str) -> Option<Val> {
    Some(match ty {
        0 => pres(s.parse::<NaiveDate>(), enc_date),
        1 => pres(s.parse::<NaiveTime>(), enc_time),
        2 => pres(s.parse::<NaiveDateTime>(), enc_ndt),
        3 => pres(s.parse::<DateTime<FixedOffset>>(), |z| enc_dt(&z)),
        4 => pres(s.parse::<DateTime<Utc>>(), |z| enc_dt(&z)),
        5 => pres(s.parse::<FixedOffset>(), |o| vint(o.local_minus_utc())),
        6 => match s.parse::<Weekday>() { Ok(w) => enc_wd(w), Err(_) => verr("ParseWeekdayError") },
        7 => match s.parse::<Month>() { Ok(m) => enc_month(m), Err(_) => verr("ParseMonthError") },
        _ => return None,
    })
}

pub fn dispatch(op: &str, a: &[Val]) -> Option<Val> {
    let r = match op {
        "tx.show" => (|| {
            if a.len() != 3 { return None; }
            Some(vstr(&show(a[0].int()?, a[1].int()?, &a[2])?))
        })(),
        "tx.parse" => (|| {
            if a.len() != 2 { return None; }
            parse(a[0].int()?, a[1].str()?)
        })(),
        "tx.rt" => (|| {
            if a.len() != 3 { return None; }
            let ty = a[0].int()?;
            let s = show(ty, a[1].int()?, &a[2])?;
            parse(ty, &s)
        })(),
        _ => return None,
    };
    Some(r.unwrap_or_else(bad))
}
