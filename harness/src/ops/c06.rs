//! C06: TimeDelta operations.
use crate::val::*;
use chrono::TimeDelta;
use std::time::Duration;

fn acc(d: TimeDelta) -> Val {
    vtup(vec![
        vint(d.num_weeks()), vint(d.num_days()), vint(d.num_hours()), vint(d.num_minutes()),
        vint(d.num_seconds()), vint(d.num_milliseconds()),
        vopt(d.num_microseconds(), vint), vopt(d.num_nanoseconds(), vint),
        vint(d.subsec_millis()), vint(d.subsec_micros()), vint(d.subsec_nanos()), vbool(d.is_zero()),
    ])
}

pub fn dispatch(op: &str, a: &[Val]) -> Option<Val> {
    let r = match op {
        "td.new" => (|| Some(vopt(TimeDelta::new(a.get(0)?.i64()?, a.get(1)?.u32()?), enc_td)))(),
        "td.weeks" => (|| Some(vopt(TimeDelta::try_weeks(a.get(0)?.i64()?), enc_td)))(),
        "td.days" => (|| Some(vopt(TimeDelta::try_days(a.get(0)?.i64()?), enc_td)))(),
        "td.hours" => (|| Some(vopt(TimeDelta::try_hours(a.get(0)?.i64()?), enc_td)))(),
        "td.minutes" => (|| Some(vopt(TimeDelta::try_minutes(a.get(0)?.i64()?), enc_td)))(),
        "td.seconds" => (|| Some(vopt(TimeDelta::try_seconds(a.get(0)?.i64()?), enc_td)))(),
        "td.millis" => (|| Some(vopt(TimeDelta::try_milliseconds(a.get(0)?.i64()?), enc_td)))(),
        "td.pweeks" => (|| Some(enc_td(TimeDelta::weeks(a.get(0)?.i64()?))))(),
        "td.pdays" => (|| Some(enc_td(TimeDelta::days(a.get(0)?.i64()?))))(),
        "td.phours" => (|| Some(enc_td(TimeDelta::hours(a.get(0)?.i64()?))))(),
        "td.pminutes" => (|| Some(enc_td(TimeDelta::minutes(a.get(0)?.i64()?))))(),
        "td.pseconds" => (|| Some(enc_td(TimeDelta::seconds(a.get(0)?.i64()?))))(),
        "td.pmillis" => (|| Some(enc_td(TimeDelta::milliseconds(a.get(0)?.i64()?))))(),
        "td.micros" => (|| Some(enc_td(TimeDelta::microseconds(a.get(0)?.i64()?))))(),
        "td.nanos" => (|| Some(enc_td(TimeDelta::nanoseconds(a.get(0)?.i64()?))))(),
        "td.acc" => (|| Some(acc(dec_td(a.get(0)?)?)))(),
        "td.add" => (|| Some(vopt(dec_td(a.get(0)?)?.checked_add(&dec_td(a.get(1)?)?), enc_td)))(),
        "td.sub" => (|| Some(vopt(dec_td(a.get(0)?)?.checked_sub(&dec_td(a.get(1)?)?), enc_td)))(),
        "td.mul" => (|| Some(vopt(dec_td(a.get(0)?)?.checked_mul(a.get(1)?.i32()?), enc_td)))(),
        "td.div" => (|| Some(vopt(dec_td(a.get(0)?)?.checked_div(a.get(1)?.i32()?), enc_td)))(),
        "td.neg" => (|| Some(enc_td(-dec_td(a.get(0)?)?)))(),
        "td.abs" => (|| Some(enc_td(dec_td(a.get(0)?)?.abs())))(),
        "td.cmp" => (|| Some(vint(dec_td(a.get(0)?)?.cmp(&dec_td(a.get(1)?)?) as i8)))(),
        "td.fromstd" => (|| {
            let secs = a.get(0)?.u64()?; let n = a.get(1)?.u32()?;
            if n >= 1_000_000_000 { return None; }
            Some(vopt(TimeDelta::from_std(Duration::new(secs, n)).ok(), enc_td))
        })(),
        "td.tostd" => (|| Some(vopt(dec_td(a.get(0)?)?.to_std().ok(), |d| vtup(vec![vint(d.as_secs()), vint(d.subsec_nanos())]))))(),
        "td.disp" => (|| Some(vstr(&dec_td(a.get(0)?)?.to_string())))(),
        "td.opadd" => (|| Some(enc_td(dec_td(a.get(0)?)? + dec_td(a.get(1)?)?)))(),
        "td.opsub" => (|| Some(enc_td(dec_td(a.get(0)?)? - dec_td(a.get(1)?)?)))(),
        "td.opmul" => (|| Some(enc_td(dec_td(a.get(0)?)? * a.get(1)?.i32()?)))(),
        "td.opdiv" => (|| Some(enc_td(dec_td(a.get(0)?)? / a.get(1)?.i32()?)))(),
        "td.sum" => (|| {
            let l: Option<Vec<TimeDelta>> = a.get(0)?.tup()?.iter().map(dec_td).collect();
            Some(enc_td(l?.iter().sum()))
        })(),
        // compound assignment, Sum over owned values, the range constants
        "td.opaddasg" => (|| { let mut d = dec_td(a.get(0)?)?; d += dec_td(a.get(1)?)?; Some(enc_td(d)) })(),
        "td.opsubasg" => (|| { let mut d = dec_td(a.get(0)?)?; d -= dec_td(a.get(1)?)?; Some(enc_td(d)) })(),
        "td.sumv" => (|| {
            let l: Option<Vec<TimeDelta>> = a.get(0)?.tup()?.iter().map(dec_td).collect();
            Some(enc_td(l?.into_iter().sum()))
        })(),
        "td.consts" => (|| {
            if !a.is_empty() { return None; }
            #[allow(deprecated)]
            let (lo, hi) = (TimeDelta::min_value(), TimeDelta::max_value());
            Some(vtup(vec![enc_td(TimeDelta::MIN), enc_td(TimeDelta::MAX), enc_td(TimeDelta::zero()), enc_td(lo), enc_td(hi)]))
        })(),
        _ => return None,
    };
    Some(r.unwrap_or_else(bad))
}
