//! C14: format::Parsed — setters and field resolution.
//!   pz.resolve <target> ((k,v),...) [off]   setters applied in order, first failing one aborts with err:<Kind>@set
//!   pz.setseq ((k,v),...)                   -> ((r..),(21 fields))
//!   pz.raw <target> (21 x none|some(v)) [off]   direct field writes (the fields are pub)
use crate::val::*;
use chrono::format::{ParseError, ParseErrorKind, ParseResult, Parsed};
use chrono::{FixedOffset, MappedLocalTime, NaiveDate, NaiveDateTime, TimeZone};

/// A zone with one transition: offset `a` before instant `t` (seconds since the epoch), `b` from
/// then on.  `to_datetime_with_timezone` on it reaches the Ambiguous / None arms that a fixed offset
/// never takes.
#[derive(Clone, Copy, Debug)]
struct StepZone { t: i64, a: i32, b: i32 }
impl TimeZone for StepZone {
    type Offset = FixedOffset;
    fn from_offset(o: &FixedOffset) -> StepZone { StepZone { t: i64::MIN, a: o.local_minus_utc(), b: o.local_minus_utc() } }
    #[allow(deprecated)]
    fn offset_from_local_date(&self, _: &NaiveDate) -> MappedLocalTime<FixedOffset> { MappedLocalTime::None }
    fn offset_from_local_datetime(&self, l: &NaiveDateTime) -> MappedLocalTime<FixedOffset> {
        let w = l.and_utc().timestamp();
        let early = w - (self.a as i64) < self.t;
        let late = w - (self.b as i64) >= self.t;
        let fa = FixedOffset::east_opt(self.a).unwrap();
        let fb = FixedOffset::east_opt(self.b).unwrap();
        if early && late { MappedLocalTime::Ambiguous(fa, fb) }
        else if early { MappedLocalTime::Single(fa) }
        else if late { MappedLocalTime::Single(fb) }
        else { MappedLocalTime::None }
    }
    #[allow(deprecated)]
    fn offset_from_utc_date(&self, _: &NaiveDate) -> FixedOffset { FixedOffset::east_opt(self.a).unwrap() }
    fn offset_from_utc_datetime(&self, u: &NaiveDateTime) -> FixedOffset {
        FixedOffset::east_opt(if u.and_utc().timestamp() < self.t { self.a } else { self.b }).unwrap()
    }
}

fn kind_name(e: &ParseError) -> &'static str {
    match e.kind() {
        ParseErrorKind::OutOfRange => "OutOfRange",
        ParseErrorKind::Impossible => "Impossible",
        ParseErrorKind::NotEnough => "NotEnough",
        ParseErrorKind::Invalid => "Invalid",
        ParseErrorKind::TooShort => "TooShort",
        ParseErrorKind::TooLong => "TooLong",
        ParseErrorKind::BadFormat => "BadFormat",
        _ => "Other",
    }
}

fn dec_pairs(v: &Val) -> Option<Vec<(i64, i64)>> {
    let mut out = Vec::new();
    for p in v.tup()? {
        let t = p.tup()?;
        if t.len() != 2 { return None; }
        let k = t[0].i64()?; let x = t[1].i64()?;
        if !(0..=21).contains(&k) { return None; }
        if k == 11 && !(0..=6).contains(&x) { return None; }
        if k == 14 && !(0..=1).contains(&x) { return None; }
        out.push((k, x));
    }
    Some(out)
}

fn apply(p: &mut Parsed, k: i64, v: i64) -> ParseResult<()> {
    match k {
        0 => p.set_year(v),
        1 => p.set_year_div_100(v),
        2 => p.set_year_mod_100(v),
        3 => p.set_isoyear(v),
        4 => p.set_isoyear_div_100(v),
        5 => p.set_isoyear_mod_100(v),
        6 => p.set_quarter(v),
        7 => p.set_month(v),
        8 => p.set_week_from_sun(v),
        9 => p.set_week_from_mon(v),
        10 => p.set_isoweek(v),
        11 => p.set_weekday(dec_wd(&vint(v)).unwrap()),
        12 => p.set_ordinal(v),
        13 => p.set_day(v),
        14 => p.set_ampm(v == 1),
        15 => p.set_hour12(v),
        16 => p.set_hour(v),
        17 => p.set_minute(v),
        18 => p.set_second(v),
        19 => p.set_nanosecond(v),
        20 => p.set_timestamp(v),
        21 => p.set_offset(v),
        _ => unreachable!(),
    }
}

fn res<T>(r: ParseResult<T>, f: impl FnOnce(T) -> Val) -> Val {
    match r { Ok(v) => f(v), Err(e) => verr(kind_name(&e)) }
}

/// None = bad target/offset combination
fn resolve(target: i128, p: &Parsed, off: Option<&Val>) -> Option<Val> {
    Some(match (target, off) {
        (0, None) => res(p.to_naive_date(), enc_date),
        (1, None) => res(p.to_naive_time(), enc_time),
        (2, Some(o)) => res(p.to_naive_datetime_with_offset(o.i32()?), enc_ndt),
        (3, None) => res(p.to_datetime(), |d| enc_dt(&d)),
        (4, Some(o)) => {
            let tz = FixedOffset::east_opt(o.i32()?)?;
            res(p.to_datetime_with_timezone(&tz), |d| enc_dt(&d))
        }
        (5, None) => res(p.to_fixed_offset(), |o| vint(o.local_minus_utc())),
        _ => return None,
    })
}

fn enc_parsed(p: &Parsed) -> Val {
    let i = |o: Option<i32>| vopt(o, vint);
    let u = |o: Option<u32>| vopt(o, vint);
    vtup(vec![
        i(p.year()), i(p.year_div_100()), i(p.year_mod_100()),
        i(p.isoyear()), i(p.isoyear_div_100()), i(p.isoyear_mod_100()),
        u(p.quarter()), u(p.month()), u(p.week_from_sun()), u(p.week_from_mon()), u(p.isoweek()),
        vopt(p.weekday(), enc_wd), u(p.ordinal()), u(p.day()),
        u(p.hour_div_12()), u(p.hour_mod_12()), u(p.minute()), u(p.second()), u(p.nanosecond()),
        vopt(p.timestamp(), vint), i(p.offset()),
    ])
}

fn dec_state(v: &Val) -> Option<Parsed> {
    let t = v.tup()?;
    if t.len() != 21 { return None; }
    fn o<T>(v: &Val, f: impl Fn(&Val) -> Option<T>) -> Option<Option<T>> {
        match v { Val::None => Some(None), Val::Some(x) => f(x).map(Some), _ => None }
    }
    let mut p = Parsed::new();
    p.year = o(&t[0], Val::i32)?;
    p.year_div_100 = o(&t[1], Val::i32)?;
    p.year_mod_100 = o(&t[2], Val::i32)?;
    p.isoyear = o(&t[3], Val::i32)?;
    p.isoyear_div_100 = o(&t[4], Val::i32)?;
    p.isoyear_mod_100 = o(&t[5], Val::i32)?;
    p.quarter = o(&t[6], Val::u32)?;
    p.month = o(&t[7], Val::u32)?;
    p.week_from_sun = o(&t[8], Val::u32)?;
    p.week_from_mon = o(&t[9], Val::u32)?;
    p.isoweek = o(&t[10], Val::u32)?;
    p.weekday = o(&t[11], dec_wd)?;
    p.ordinal = o(&t[12], Val::u32)?;
    p.day = o(&t[13], Val::u32)?;
    p.hour_div_12 = o(&t[14], Val::u32)?;
    p.hour_mod_12 = o(&t[15], Val::u32)?;
    p.minute = o(&t[16], Val::u32)?;
    p.second = o(&t[17], Val::u32)?;
    p.nanosecond = o(&t[18], Val::u32)?;
    p.timestamp = o(&t[19], Val::i64)?;
    p.offset = o(&t[20], Val::i32)?;
    Some(p)
}

fn target_off(a: &[Val]) -> Option<Option<&Val>> {
    match a.len() { 2 => Some(None), 3 => { a[2].int()?; Some(Some(&a[2])) } _ => None }
}

pub fn dispatch(op: &str, a: &[Val]) -> Option<Val> {
    let r = match op {
        "pz.resolve" => (|| {
            let target = a.get(0)?.int()?;
            let ps = dec_pairs(a.get(1)?)?;
            let off = target_off(a)?;
            // the target/offset combination is validated before the setters run
            resolve(target, &Parsed::new(), off)?;
            let mut p = Parsed::new();
            for (k, v) in ps {
                if let Err(e) = apply(&mut p, k, v) {
                    return Some(verr(&format!("{}@set", kind_name(&e))));
                }
            }
            resolve(target, &p, off)
        })(),
        "pz.setseq" => (|| {
            if a.len() != 1 { return None; }
            let ps = dec_pairs(a.get(0)?)?;
            let mut p = Parsed::new();
            let mut rs = Vec::new();
            for (k, v) in ps {
                rs.push(match apply(&mut p, k, v) { Ok(()) => vint(0), Err(e) => verr(kind_name(&e)) });
            }
            Some(vtup(vec![vtup(rs), enc_parsed(&p)]))
        })(),
        "pz.raw" => (|| {
            let target = a.get(0)?.int()?;
            let p = dec_state(a.get(1)?)?;
            let off = target_off(a)?;
            resolve(target, &p, off)
        })(),
        "pz.zone" => (|| {
            if a.len() != 4 { return None; }
            let p = dec_state(a.get(0)?)?;
            let t = a.get(1)?.i64()?;
            let oa = a.get(2)?.i32()?;
            let ob = a.get(3)?.i32()?;
            FixedOffset::east_opt(oa)?;
            FixedOffset::east_opt(ob)?;
            let z = StepZone { t, a: oa, b: ob };
            Some(res(p.to_datetime_with_timezone(&z), |d| enc_dt(&d.fixed_offset())))
        })(),
        _ => return None,
    };
    Some(r.unwrap_or_else(bad))
}
