//! C19: Weekday, Month, WeekdaySet.
//! Encodings are written out variant by variant here (not through the numbering functions under
//! test): weekday 0..6 (Mon = 0), month 1..12, weekday set 0..127 (bit i = weekday i, read from
//! the derived-from-bits `Debug` text so that a stray 8th bit would be visible).
use crate::val::*;
use chrono::{Month, Weekday, WeekdaySet};
use num_traits::FromPrimitive;

const WEEK: [Weekday; 7] = [Weekday::Mon, Weekday::Tue, Weekday::Wed, Weekday::Thu, Weekday::Fri, Weekday::Sat, Weekday::Sun];
const YEAR: [Month; 12] = [
    Month::January, Month::February, Month::March, Month::April, Month::May, Month::June, Month::July,
    Month::August, Month::September, Month::October, Month::November, Month::December,
];

fn ewd(w: Weekday) -> Val {
    vint(match w {
        Weekday::Mon => 0u8, Weekday::Tue => 1, Weekday::Wed => 2, Weekday::Thu => 3,
        Weekday::Fri => 4, Weekday::Sat => 5, Weekday::Sun => 6,
    })
}
fn dwd(v: &Val) -> Option<Weekday> {
    let i = v.int()?;
    if (0..7).contains(&i) { Some(WEEK[i as usize]) } else { None }
}
fn emo(m: Month) -> Val {
    vint(match m {
        Month::January => 1u8, Month::February => 2, Month::March => 3, Month::April => 4, Month::May => 5,
        Month::June => 6, Month::July => 7, Month::August => 8, Month::September => 9, Month::October => 10,
        Month::November => 11, Month::December => 12,
    })
}
fn dmo(v: &Val) -> Option<Month> {
    let i = v.int()?;
    if (1..13).contains(&i) { Some(YEAR[(i - 1) as usize]) } else { None }
}
fn ews(s: WeekdaySet) -> Val {
    // "WeekdaySet(0000101)"
    let t = format!("{:?}", s);
    let bits = t.strip_prefix("WeekdaySet(").and_then(|r| r.strip_suffix(')'));
    match bits.and_then(|b| u32::from_str_radix(b, 2).ok()) {
        Some(n) => vint(n),
        None => verr("WSDEBUG"),
    }
}
fn wds_of_mask(m: i128) -> Vec<Weekday> {
    (0..7).filter(|i| m >> i & 1 == 1).map(|i| WEEK[i as usize]).collect()
}
fn from_slice(l: &[Weekday]) -> Option<WeekdaySet> {
    macro_rules! arr { ($($n:literal),*) => { match l.len() {
        $($n => { let a: [Weekday; $n] = l.try_into().ok()?; Some(WeekdaySet::from_array(a)) })*
        _ => None } } }
    arr!(0, 1, 2, 3, 4, 5, 6, 7, 8, 9, 10, 11, 12, 13, 14)
}
fn dws(v: &Val) -> Option<WeekdaySet> {
    let m = v.int()?;
    if !(0..128).contains(&m) { return None; }
    from_slice(&wds_of_mask(m))
}
fn dwds(v: &Val) -> Option<Vec<Weekday>> { v.tup()?.iter().map(dwd).collect() }
fn res<T, E>(r: Result<T, E>, f: impl FnOnce(T) -> Val, name: &str) -> Val { match r { Ok(x) => f(x), Err(_) => verr(name) } }

macro_rules! from_prim {
    ($a:expr, $get:ident, $T:ty, $m:ident, $enc:expr) => {
        (|| Some(vopt(<$T>::$m($a.get(0)?.$get()?), $enc)))()
    };
}
fn isize_of(v: &Val) -> Option<isize> { v.int().and_then(|z| isize::try_from(z).ok()) }
fn i128_of(v: &Val) -> Option<i128> { v.int() }
fn u128_of(v: &Val) -> Option<u128> { v.int().and_then(|z| u128::try_from(z).ok()) }
trait Get { fn isize(&self) -> Option<isize>; fn i128(&self) -> Option<i128>; fn u128(&self) -> Option<u128>; }
impl Get for Val {
    fn isize(&self) -> Option<isize> { isize_of(self) }
    fn i128(&self) -> Option<i128> { i128_of(self) }
    fn u128(&self) -> Option<u128> { u128_of(self) }
}

pub fn dispatch(op: &str, a: &[Val]) -> Option<Val> {
    let r = match op {
        // ---- Weekday
        "wd.succ" => (|| Some(ewd(dwd(a.get(0)?)?.succ())))(),
        "wd.pred" => (|| Some(ewd(dwd(a.get(0)?)?.pred())))(),
        "wd.nfm" => (|| Some(vint(dwd(a.get(0)?)?.number_from_monday())))(),
        "wd.nfs" => (|| Some(vint(dwd(a.get(0)?)?.number_from_sunday())))(),
        "wd.ndfm" => (|| Some(vint(dwd(a.get(0)?)?.num_days_from_monday())))(),
        "wd.ndfs" => (|| Some(vint(dwd(a.get(0)?)?.num_days_from_sunday())))(),
        "wd.since" => (|| Some(vint(dwd(a.get(0)?)?.days_since(dwd(a.get(1)?)?))))(),
        "wd.disp" => (|| Some(vstr(&dwd(a.get(0)?)?.to_string())))(),
        "wd.try" => (|| Some(res(Weekday::try_from(a.get(0)?.u8()?), ewd, "OutOfRange")))(),
        "wd.fi64" => from_prim!(a, i64, Weekday, from_i64, ewd),
        "wd.fu64" => from_prim!(a, u64, Weekday, from_u64, ewd),
        "wd.fu32" => from_prim!(a, u32, Weekday, from_u32, ewd),
        "wd.fu16" => from_prim!(a, u16, Weekday, from_u16, ewd),
        "wd.fu8" => from_prim!(a, u8, Weekday, from_u8, ewd),
        "wd.fusize" => from_prim!(a, usize, Weekday, from_usize, ewd),
        "wd.fu128" => from_prim!(a, u128, Weekday, from_u128, ewd),
        "wd.fi32" => from_prim!(a, i32, Weekday, from_i32, ewd),
        "wd.fi16" => from_prim!(a, i16, Weekday, from_i16, ewd),
        "wd.fi8" => from_prim!(a, i8, Weekday, from_i8, ewd),
        "wd.fisize" => from_prim!(a, isize, Weekday, from_isize, ewd),
        "wd.fi128" => from_prim!(a, i128, Weekday, from_i128, ewd),
        "wd.parse" => (|| Some(res(a.get(0)?.str()?.parse::<Weekday>(), ewd, "ParseWeekdayError")))(),
        // ---- Month
        "mo.succ" => (|| Some(emo(dmo(a.get(0)?)?.succ())))(),
        "mo.pred" => (|| Some(emo(dmo(a.get(0)?)?.pred())))(),
        "mo.num" => (|| Some(vint(dmo(a.get(0)?)?.number_from_month())))(),
        "mo.name" => (|| Some(vstr(dmo(a.get(0)?)?.name())))(),
        "mo.cmp" => (|| Some(vint(dmo(a.get(0)?)?.cmp(&dmo(a.get(1)?)?) as i8)))(),
        "mo.try" => (|| Some(res(Month::try_from(a.get(0)?.u8()?), emo, "OutOfRange")))(),
        "mo.fi64" => from_prim!(a, i64, Month, from_i64, emo),
        "mo.fu64" => from_prim!(a, u64, Month, from_u64, emo),
        "mo.fu32" => from_prim!(a, u32, Month, from_u32, emo),
        "mo.fu16" => from_prim!(a, u16, Month, from_u16, emo),
        "mo.fu8" => from_prim!(a, u8, Month, from_u8, emo),
        "mo.fusize" => from_prim!(a, usize, Month, from_usize, emo),
        "mo.fu128" => from_prim!(a, u128, Month, from_u128, emo),
        "mo.fi32" => from_prim!(a, i32, Month, from_i32, emo),
        "mo.fi16" => from_prim!(a, i16, Month, from_i16, emo),
        "mo.fi8" => from_prim!(a, i8, Month, from_i8, emo),
        "mo.fisize" => from_prim!(a, isize, Month, from_isize, emo),
        "mo.fi128" => from_prim!(a, i128, Month, from_i128, emo),
        "mo.parse" => (|| Some(res(a.get(0)?.str()?.parse::<Month>(), emo, "ParseMonthError")))(),
        // ---- WeekdaySet
        "ws.consts" => (|| if a.is_empty() { Some(vtup(vec![ews(WeekdaySet::EMPTY), ews(WeekdaySet::ALL)])) } else { None })(),
        "ws.single" => (|| Some(ews(WeekdaySet::single(dwd(a.get(0)?)?))))(),
        "ws.single_day" => (|| Some(vopt(dws(a.get(0)?)?.single_day(), ewd)))(),
        "ws.fromarr" => (|| Some(ews(from_slice(&dwds(a.get(0)?)?)?)))(),
        "ws.collect" => (|| Some(ews(dwds(a.get(0)?)?.into_iter().collect::<WeekdaySet>())))(),
        "ws.insert" => (|| { let mut s = dws(a.get(0)?)?; let b = s.insert(dwd(a.get(1)?)?); Some(vtup(vec![ews(s), vbool(b)])) })(),
        "ws.remove" => (|| { let mut s = dws(a.get(0)?)?; let b = s.remove(dwd(a.get(1)?)?); Some(vtup(vec![ews(s), vbool(b)])) })(),
        "ws.contains" => (|| Some(vbool(dws(a.get(0)?)?.contains(dwd(a.get(1)?)?))))(),
        "ws.subset" => (|| Some(vbool(dws(a.get(0)?)?.is_subset(dws(a.get(1)?)?))))(),
        "ws.inter" => (|| Some(ews(dws(a.get(0)?)?.intersection(dws(a.get(1)?)?))))(),
        "ws.union" => (|| Some(ews(dws(a.get(0)?)?.union(dws(a.get(1)?)?))))(),
        "ws.symdiff" => (|| Some(ews(dws(a.get(0)?)?.symmetric_difference(dws(a.get(1)?)?))))(),
        "ws.diff" => (|| Some(ews(dws(a.get(0)?)?.difference(dws(a.get(1)?)?))))(),
        "ws.first" => (|| Some(vopt(dws(a.get(0)?)?.first(), ewd)))(),
        "ws.last" => (|| Some(vopt(dws(a.get(0)?)?.last(), ewd)))(),
        "ws.empty" => (|| Some(vbool(dws(a.get(0)?)?.is_empty())))(),
        "ws.len" => (|| Some(vint(dws(a.get(0)?)?.len())))(),
        "ws.disp" => (|| Some(vstr(&dws(a.get(0)?)?.to_string())))(),
        "ws.iter" => (|| {
            if a.len() != 3 { return None; }
            let s = dws(&a[0])?; let start = dwd(&a[1])?; let sched = a[2].bytes()?;
            if !sched.iter().all(|c| *c == b'f' || *c == b'b') { return None; }
            let mut it = s.iter(start);
            let mut out = Vec::new();
            for c in sched {
                let item = if *c == b'f' { it.next() } else { it.next_back() };
                out.push(vtup(vec![vopt(item, ewd), vint(it.len() as u64)]));
            }
            Some(vtup(out))
        })(),
        // provided adaptors of WeekdaySetIter (size_hint, count, last, nth, nth_back, rev, collect)
        "ws.adapt" => (|| {
            if a.len() != 3 { return None; }
            let s = dws(&a[0])?; let start = dwd(&a[1])?; let k = a[2].int()?;
            if !(0..=9).contains(&k) { return None; }
            let k = k as usize;
            let it = s.iter(start);
            let (lo, hi) = it.size_hint();
            Some(vtup(vec![
                vint(lo as u64), vopt(hi, |x| vint(x as u64)),
                vint(it.clone().count() as u64), vopt(it.clone().last(), ewd),
                vopt(it.clone().nth(k), ewd), vopt(it.clone().nth_back(k), ewd), vopt(it.clone().rev().nth(k), ewd),
                vtup(it.clone().collect::<Vec<Weekday>>().into_iter().map(ewd).collect()),
                vtup(it.clone().rev().collect::<Vec<Weekday>>().into_iter().map(ewd).collect()),
                vint(it.clone().rev().len() as u64),
            ]))
        })(),
        _ => return None,
    };
    let arity = match op {
        "ws.consts" => 0,
        "wd.since" | "mo.cmp" | "ws.insert" | "ws.remove" | "ws.contains" | "ws.subset" | "ws.inter" | "ws.union"
        | "ws.symdiff" | "ws.diff" => 2,
        "ws.iter" | "ws.adapt" => 3,
        _ => 1,
    };
    if a.len() != arity { return Some(bad()); }
    Some(r.unwrap_or_else(bad))
}
