//! C13: parsing with a format string inverts formatting with it.
//!   fp.fmt   kind value <fmt>        -> text, or err:fmt when formatting fails
//!   fp.rt    kind value <fmt>        -> T::parse_from_str(&value.format(fmt).to_string(), fmt): value / err:<kind> / err:fmt
//!   fp.rtx   kind value <fmt> seed   -> the same, after a legitimate perturbation of the formatted text: the letters
//!                                       of every name item (month / weekday names, AM/PM) change case and every
//!                                       white-space item of the format gets surplus white space, as chosen by `seed`
//!   fp.parse kind <text> <fmt>       -> T::parse_from_str(text, fmt): err:<kind>, or (v, r) where v is the value and r the
//!                                       result of formatting v with fmt and parsing again
//!   fp.rem   kind value <fmt> <tail> -> T::parse_and_remainder(&(value.format(fmt).to_string() + tail), fmt):
//!                                       (value, remainder) / err:<kind> / err:fmt
//! kind: 0 NaiveDate, 1 NaiveTime, 2 NaiveDateTime, 3 DateTime<FixedOffset>.
use crate::val::*;
use chrono::format::{Fixed, Item, ParseError, ParseErrorKind, StrftimeItems};
use chrono::{DateTime, FixedOffset, NaiveDate, NaiveDateTime, NaiveTime};
use std::fmt::Write;

fn kind_name(e: ParseError) -> &'static str {
    match e.kind() {
        ParseErrorKind::OutOfRange => "OutOfRange",
        ParseErrorKind::Impossible => "Impossible",
        ParseErrorKind::NotEnough => "NotEnough",
        ParseErrorKind::Invalid => "Invalid",
        ParseErrorKind::TooShort => "TooShort",
        ParseErrorKind::TooLong => "TooLong",
        ParseErrorKind::BadFormat => "BadFormat",
        _ => "Unknown",
    }
}

fn render<D: std::fmt::Display>(d: D) -> Option<String> {
    let mut s = String::new();
    match write!(&mut s, "{}", d) { Ok(()) => Some(s), Err(_) => None }
}

enum V { D(NaiveDate), T(NaiveTime), N(NaiveDateTime), Z(DateTime<FixedOffset>) }

fn dec(kind: i128, v: &Val) -> Option<V> {
    Some(match kind {
        0 => V::D(dec_date(v)?),
        1 => V::T(dec_time(v)?),
        2 => V::N(dec_ndt(v)?),
        3 => V::Z(dec_dt(v)?),
        _ => return None,
    })
}
fn enc(v: &V) -> Val {
    match v { V::D(d) => enc_date(*d), V::T(t) => enc_time(*t), V::N(n) => enc_ndt(*n), V::Z(z) => enc_dt(z) }
}
fn kind_of(v: &V) -> i128 { match v { V::D(_) => 0, V::T(_) => 1, V::N(_) => 2, V::Z(_) => 3 } }

fn format(v: &V, f: &str) -> Option<String> {
    match v {
        V::D(d) => render(d.format(f)),
        V::T(t) => render(t.format(f)),
        V::N(n) => render(n.format(f)),
        V::Z(z) => render(z.format(f)),
    }
}
fn format_item(v: &V, it: &Item) -> Option<String> {
    let items = std::iter::once(it.clone());
    match v {
        V::D(d) => render(d.format_with_items(items)),
        V::T(t) => render(t.format_with_items(items)),
        V::N(n) => render(n.format_with_items(items)),
        V::Z(z) => render(z.format_with_items(items)),
    }
}

fn parse(kind: i128, text: &str, f: &str) -> Option<Result<V, ParseError>> {
    Some(match kind {
        0 => NaiveDate::parse_from_str(text, f).map(V::D),
        1 => NaiveTime::parse_from_str(text, f).map(V::T),
        2 => NaiveDateTime::parse_from_str(text, f).map(V::N),
        3 => DateTime::<FixedOffset>::parse_from_str(text, f).map(V::Z),
        _ => return None,
    })
}
fn parse_rem<'a>(kind: i128, text: &'a str, f: &str) -> Option<Result<(V, &'a str), ParseError>> {
    Some(match kind {
        0 => NaiveDate::parse_and_remainder(text, f).map(|(v, r)| (V::D(v), r)),
        1 => NaiveTime::parse_and_remainder(text, f).map(|(v, r)| (V::T(v), r)),
        2 => NaiveDateTime::parse_and_remainder(text, f).map(|(v, r)| (V::N(v), r)),
        3 => DateTime::<FixedOffset>::parse_and_remainder(text, f).map(|(v, r)| (V::Z(v), r)),
        _ => return None,
    })
}
fn enc_res(r: Result<V, ParseError>) -> Val {
    match r { Ok(v) => enc(&v), Err(e) => verr(kind_name(e)) }
}

// 64-bit linear congruential generator (Knuth's MMIX constants), upper 31 bits of the new state
fn lcg(x: &mut u64) -> u64 {
    *x = x.wrapping_mul(6364136223846793005).wrapping_add(1442695040888963407);
    *x >> 33
}
const WS: [&str; 5] = [" ", "\t", "\n", "\u{3000}", "\u{a0}"];

fn perturbed(v: &V, f: &str, seed: u64) -> Option<String> {
    let mut x = seed;
    let mut out = String::new();
    for it in StrftimeItems::new(f) {
        let piece = format_item(v, &it)?;
        match it {
            Item::Fixed(Fixed::ShortMonthName) | Item::Fixed(Fixed::LongMonthName)
            | Item::Fixed(Fixed::ShortWeekdayName) | Item::Fixed(Fixed::LongWeekdayName)
            | Item::Fixed(Fixed::LowerAmPm) | Item::Fixed(Fixed::UpperAmPm) => {
                for c in piece.chars() {
                    if c.is_ascii_alphabetic() && lcg(&mut x) & 1 == 1 {
                        out.push((c as u8 ^ 0x20) as char);
                    } else {
                        out.push(c);
                    }
                }
            }
            Item::Space(_) | Item::OwnedSpace(_) => {
                out.push_str(&piece);
                let k = lcg(&mut x) % 3;
                for _ in 0..k {
                    out.push_str(WS[(lcg(&mut x) % 5) as usize]);
                }
            }
            _ => out.push_str(&piece),
        }
    }
    Some(out)
}

pub fn dispatch(op: &str, a: &[Val]) -> Option<Val> {
    let r = match op {
        "fp.fmt" => (|| {
            let v = dec(a.get(0)?.int()?, a.get(1)?)?;
            let f = a.get(2)?.str()?;
            if a.len() != 3 { return None; }
            Some(match format(&v, f) { Some(s) => vstr(&s), None => verr("fmt") })
        })(),
        "fp.rt" => (|| {
            let kind = a.get(0)?.int()?;
            let v = dec(kind, a.get(1)?)?;
            let f = a.get(2)?.str()?;
            if a.len() != 3 { return None; }
            Some(match format(&v, f) { Some(s) => enc_res(parse(kind, &s, f)?), None => verr("fmt") })
        })(),
        "fp.rtx" => (|| {
            let kind = a.get(0)?.int()?;
            let v = dec(kind, a.get(1)?)?;
            let f = a.get(2)?.str()?;
            let seed = a.get(3)?.u64()?;
            if a.len() != 4 { return None; }
            Some(match perturbed(&v, f, seed) { Some(s) => enc_res(parse(kind, &s, f)?), None => verr("fmt") })
        })(),
        "fp.parse" => (|| {
            let kind = a.get(0)?.int()?;
            let text = a.get(1)?.str()?;
            let f = a.get(2)?.str()?;
            if a.len() != 3 { return None; }
            Some(match parse(kind, text, f)? {
                Err(e) => verr(kind_name(e)),
                Ok(v) => {
                    let again = match format(&v, f) { Some(s) => enc_res(parse(kind, &s, f)?), None => verr("fmt") };
                    vtup(vec![enc(&v), again])
                }
            })
        })(),
        "fp.rem" => (|| {
            let kind = a.get(0)?.int()?;
            let v = dec(kind, a.get(1)?)?;
            let f = a.get(2)?.str()?;
            let tail = a.get(3)?.str()?;
            if a.len() != 4 { return None; }
            Some(match format(&v, f) {
                None => verr("fmt"),
                Some(mut s) => {
                    s.push_str(tail);
                    match parse_rem(kind, &s, f)? {
                        Err(e) => verr(kind_name(e)),
                        Ok((v, r)) => vtup(vec![enc(&v), vstr(r)]),
                    }
                }
            })
        })(),
        _ => return None,
    };
    Some(r.unwrap_or_else(bad))
}
