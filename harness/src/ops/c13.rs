//! C13: parsing with a format string inverts formatting with it.
//!   fp.fmt   kind value <fmt>        -> text, or err:fmt when formatting fails
//!   fp.rt    kind value <fmt>        -> T::parse_from_str(&value.format(fmt).to_string(), fmt): value / err:<kind> / err:fmt
//!   fp.rtx   kind value <fmt> seed   -> the same, after a legitimate perturbation of the formatted text: the letters
//!                                       of every name item (month / weekday names, AM/PM) change case and every
//!                                       white-space item of the format gets surplus white space, as chosen by `seed`
//!   fp.parse kind <text> <fmt>       -> T::parse_from_str(text, fmt): err:<kind>, or (v, r) where v is the value and r the
//!                                       result of formatting v with fmt and parsing again
//!   fp.rem   kind value <fmt> <tail> -> T::parse_and_remainder(&(value.format(fmt).to_string() + tail), fmt):
//!                                       (value, remainder) / err:<kind> / err:fmt
//!   fp.irt   kind value (items)      -> like fp.rt with an explicit item list (canonical item encoding of sf.items:
//!                                       (0,text) Literal, (1,text) Space, (2,numeric,pad), (3,fixed), (4) Error; Literal and
//!                                       Space are built as the Owned variants): value.format_with_items(items), then
//!                                       format::parse(&mut Parsed, text, items) and the to_* resolution of the kind
//!   fp.iparse kind <text> (items)    -> like fp.parse with an explicit item list
//! kind: 0 NaiveDate, 1 NaiveTime, 2 NaiveDateTime, 3 DateTime<FixedOffset>.
use crate::val::*;
use chrono::format::{Fixed, Item, Numeric, Pad, ParseError, ParseErrorKind, Parsed, StrftimeItems};
use chrono::{DateTime, FixedOffset, NaiveDate, NaiveDateTime, NaiveTime};
use std::fmt::Write;

fn kind_name(e: ParseError) -> &'static str {
    match e.kind() {
        ParseErrorKind::OutOfRange => "OutOfRange",
        ParseErrorKind::Impossible => "Impossible",
        ParseErrorKind::NotEnough => "NotEnough",
        ParseErrorKind::Invalid => "Invalid",
        ParseErrorKind::TooShort => "TooShort",
        ParseErrorKind::TooLong => "TooLong",
        ParseErrorKind::BadFormat => "BadFormat",
        _ => "Unknown",
    }
}

fn render<D: std::fmt::Display>(d: D) -> Option<String> {
    let mut s = String::new();
    match write!(&mut s, "{}", d) { Ok(()) => Some(s), Err(_) => None }
}

enum V { D(NaiveDate), T(NaiveTime), N(NaiveDateTime), Z(DateTime<FixedOffset>) }

fn dec(kind: i128, v: &Val) -> Option<V> {
    Some(match kind {
        0 => V::D(dec_date(v)?),
        1 => V::T(dec_time(v)?),
        2 => V::N(dec_ndt(v)?),
        3 => V::Z(dec_dt(v)?),
        _ => return None,
    })
}
fn enc(v: &V) -> Val {
    match v { V::D(d) => enc_date(*d), V::T(t) => enc_time(*t), V::N(n) => enc_ndt(*n), V::Z(z) => enc_dt(z) }
}
fn kind_of(v: &V) -> i128 { match v { V::D(_) => 0, V::T(_) => 1, V::N(_) => 2, V::Z(_) => 3 } }

fn format(v: &V, f: &str) -> Option<String> {
    match v {
        V::D(d) => render(d.format(f)),
        V::T(t) => render(t.format(f)),
        V::N(n) => render(n.format(f)),
        V::Z(z) => render(z.format(f)),
    }
}
fn format_item(v: &V, it: &Item) -> Option<String> {
    let items = std::iter::once(it.clone());
    match v {
        V::D(d) => render(d.format_with_items(items)),
        V::T(t) => render(t.format_with_items(items)),
        V::N(n) => render(n.format_with_items(items)),
        V::Z(z) => render(z.format_with_items(items)),
    }
}

fn parse(kind: i128, text: &str, f: &str) -> Option<Result<V, ParseError>> {
    Some(match kind {
        0 => NaiveDate::parse_from_str(text, f).map(V::D),
        1 => NaiveTime::parse_from_str(text, f).map(V::T),
        2 => NaiveDateTime::parse_from_str(text, f).map(V::N),
        3 => DateTime::<FixedOffset>::parse_from_str(text, f).map(V::Z),
        _ => return None,
    })
}
fn parse_rem<'a>(kind: i128, text: &'a str, f: &str) -> Option<Result<(V, &'a str), ParseError>> {
    Some(match kind {
        0 => NaiveDate::parse_and_remainder(text, f).map(|(v, r)| (V::D(v), r)),
        1 => NaiveTime::parse_and_remainder(text, f).map(|(v, r)| (V::T(v), r)),
        2 => NaiveDateTime::parse_and_remainder(text, f).map(|(v, r)| (V::N(v), r)),
        3 => DateTime::<FixedOffset>::parse_and_remainder(text, f).map(|(v, r)| (V::Z(v), r)),
        _ => return None,
    })
}
fn enc_res(r: Result<V, ParseError>) -> Val {
    match r { Ok(v) => enc(&v), Err(e) => verr(kind_name(e)) }
}


fn dec_numeric(k: i128) -> Option<Numeric> {
    use Numeric::*;
    Some(match k {
        0 => Year, 1 => YearDiv100, 2 => YearMod100, 3 => IsoYear, 4 => IsoYearDiv100, 5 => IsoYearMod100,
        6 => Quarter, 7 => Month, 8 => Day, 9 => WeekFromSun, 10 => WeekFromMon, 11 => IsoWeek,
        12 => NumDaysFromSun, 13 => WeekdayFromMon, 14 => Ordinal, 15 => Hour, 16 => Hour12, 17 => Minute,
        18 => Second, 19 => Nanosecond, 20 => Timestamp,
        _ => return None,
    })
}
fn dec_fixed(k: i128) -> Option<Fixed> {
    use Fixed::*;
    // the internal items cannot be named from outside the crate: take them from the strftime parser
    let internal = |spec: &'static str| match StrftimeItems::new(spec).next() { Some(Item::Fixed(f)) => Some(f), _ => None };
    Some(match k {
        0 => ShortMonthName, 1 => LongMonthName, 2 => ShortWeekdayName, 3 => LongWeekdayName,
        4 => LowerAmPm, 5 => UpperAmPm, 6 => Nanosecond, 7 => Nanosecond3, 8 => Nanosecond6, 9 => Nanosecond9,
        10 => TimezoneName, 11 => TimezoneOffsetColon, 12 => TimezoneOffsetDoubleColon,
        13 => TimezoneOffsetTripleColon, 14 => TimezoneOffsetColonZ, 15 => TimezoneOffset, 16 => TimezoneOffsetZ,
        17 => RFC2822, 18 => RFC3339,
        100 => internal("%#z")?, 101 => internal("%3f")?, 102 => internal("%6f")?, 103 => internal("%9f")?,
        _ => return None,
    })
}
fn dec_items(v: &Val) -> Option<Vec<Item<'static>>> {
    let mut out = Vec::new();
    for it in v.tup()? {
        let t = it.tup()?;
        out.push(match (t.get(0)?.int()?, t.len()) {
            (0, 2) => Item::OwnedLiteral(t[1].str()?.into()),
            (1, 2) => Item::OwnedSpace(t[1].str()?.into()),
            (2, 3) => Item::Numeric(dec_numeric(t[1].int()?)?, match t[2].int()? { 0 => Pad::None, 1 => Pad::Zero, 2 => Pad::Space, _ => return None }),
            (3, 2) => Item::Fixed(dec_fixed(t[1].int()?)?),
            (4, 1) => Item::Error,
            _ => return None,
        });
    }
    Some(out)
}
fn format_items(v: &V, items: &[Item<'static>]) -> Option<String> {
    match v {
        V::D(d) => render(d.format_with_items(items.iter())),
        V::T(t) => render(t.format_with_items(items.iter())),
        V::N(n) => render(n.format_with_items(items.iter())),
        V::Z(z) => render(z.format_with_items(items.iter())),
    }
}
fn parse_items(kind: i128, text: &str, items: &[Item<'static>]) -> Option<Result<V, ParseError>> {
    let mut parsed = Parsed::new();
    if let Err(e) = chrono::format::parse(&mut parsed, text, items.iter()) { return Some(Err(e)); }
    Some(match kind {
        0 => parsed.to_naive_date().map(V::D),
        1 => parsed.to_naive_time().map(V::T),
        2 => parsed.to_naive_datetime_with_offset(0).map(V::N),
        3 => parsed.to_datetime().map(V::Z),
        _ => return None,
    })
}

// 64-bit linear congruential generator (Knuth's MMIX constants), upper 31 bits of the new state
fn lcg(x: &mut u64) -> u64 {
    *x = x.wrapping_mul(6364136223846793005).wrapping_add(1442695040888963407);
    *x >> 33
}
const WS: [&str; 5] = [" ", "\t", "\n", "\u{3000}", "\u{a0}"];

fn perturbed(v: &V, f: &str, seed: u64) -> Option<String> {
    let mut x = seed;
    let mut out = String::new();
    for it in StrftimeItems::new(f) {
        let piece = format_item(v, &it)?;
        match it {
            Item::Fixed(Fixed::ShortMonthName) | Item::Fixed(Fixed::LongMonthName)
            | Item::Fixed(Fixed::ShortWeekdayName) | Item::Fixed(Fixed::LongWeekdayName)
            | Item::Fixed(Fixed::LowerAmPm) | Item::Fixed(Fixed::UpperAmPm) => {
                for c in piece.chars() {
                    if c.is_ascii_alphabetic() && lcg(&mut x) & 1 == 1 {
                        out.push((c as u8 ^ 0x20) as char);
                    } else {
                        out.push(c);
                    }
                }
            }
            Item::Space(_) | Item::OwnedSpace(_) => {
                out.push_str(&piece);
                let k = lcg(&mut x) % 3;
                for _ in 0..k {
                    out.push_str(WS[(lcg(&mut x) % 5) as usize]);
                }
            }
            _ => out.push_str(&piece),
        }
    }
    Some(out)
}

pub fn dispatch(op: &str, a: &[Val]) -> Option<Val> {
    let r = match op {
        "fp.fmt" => (|| {
            let v = dec(a.get(0)?.int()?, a.get(1)?)?;
            let f = a.get(2)?.str()?;
            if a.len() != 3 { return None; }
            Some(match format(&v, f) { Some(s) => vstr(&s), None => verr("fmt") })
        })(),
        "fp.rt" => (|| {
            let kind = a.get(0)?.int()?;
            let v = dec(kind, a.get(1)?)?;
            let f = a.get(2)?.str()?;
            if a.len() != 3 { return None; }
            Some(match format(&v, f) { Some(s) => enc_res(parse(kind, &s, f)?), None => verr("fmt") })
        })(),
        "fp.rtx" => (|| {
            let kind = a.get(0)?.int()?;
            let v = dec(kind, a.get(1)?)?;
            let f = a.get(2)?.str()?;
            let seed = a.get(3)?.u64()?;
            if a.len() != 4 { return None; }
            Some(match perturbed(&v, f, seed) { Some(s) => enc_res(parse(kind, &s, f)?), None => verr("fmt") })
        })(),
        "fp.rtxo" => (|| {
            let kind = a.get(0)?.int()?;
            let v = dec(kind, a.get(1)?)?;
            let f = a.get(2)?.str()?;
            let seed = a.get(3)?.u64()?;
            if a.len() != 4 { return None; }
            Some(match perturbed(&v, f, seed) {
                Some(s) => match StrftimeItems::new(f).parse_to_owned() {
                    Ok(items) => enc_res(parse_items(kind, &s, &items)?),
                    Err(_) => verr("fmt"),
                },
                None => verr("fmt"),
            })
        })(),
        "fp.parse" => (|| {
            let kind = a.get(0)?.int()?;
            let text = a.get(1)?.str()?;
            let f = a.get(2)?.str()?;
            if a.len() != 3 { return None; }
            Some(match parse(kind, text, f)? {
                Err(e) => verr(kind_name(e)),
                Ok(v) => {
                    let again = match format(&v, f) { Some(s) => enc_res(parse(kind, &s, f)?), None => verr("fmt") };
                    vtup(vec![enc(&v), again])
                }
            })
        })(),
        "fp.irt" => (|| {
            let kind = a.get(0)?.int()?;
            let v = dec(kind, a.get(1)?)?;
            let items = dec_items(a.get(2)?)?;
            if a.len() != 3 { return None; }
            Some(match format_items(&v, &items) { Some(s) => enc_res(parse_items(kind, &s, &items)?), None => verr("fmt") })
        })(),
        "fp.iparse" => (|| {
            let kind = a.get(0)?.int()?;
            let text = a.get(1)?.str()?;
            let items = dec_items(a.get(2)?)?;
            if a.len() != 3 || !(0..=3).contains(&kind) { return None; }
            Some(match parse_items(kind, text, &items)? {
                Err(e) => verr(kind_name(e)),
                Ok(v) => {
                    let again = match format_items(&v, &items) { Some(s) => enc_res(parse_items(kind, &s, &items)?), None => verr("fmt") };
                    vtup(vec![enc(&v), again])
                }
            })
        })(),
        "fp.rem" => (|| {
            let kind = a.get(0)?.int()?;
            let v = dec(kind, a.get(1)?)?;
            let f = a.get(2)?.str()?;
            let tail = a.get(3)?.str()?;
            if a.len() != 4 { return None; }
            Some(match format(&v, f) {
                None => verr("fmt"),
                Some(mut s) => {
                    s.push_str(tail);
                    match parse_rem(kind, &s, f)? {
                        Err(e) => verr(kind_name(e)),
                        Ok((v, r)) => vtup(vec![enc(&v), vstr(r)]),
                    }
                }
            })
        })(),
        _ => return None,
    };
    Some(r.unwrap_or_else(bad))
}
