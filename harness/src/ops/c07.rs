//! C07: NaiveTime constructors, accessors, field replacement and leap-aware arithmetic.
use crate::val::*;
use chrono::{FixedOffset, NaiveDate, NaiveDateTime, NaiveTime, TimeDelta, Timelike, Datelike};
use std::time::Duration;

fn vtime(o: Option<NaiveTime>) -> Val { vopt(o, enc_time) }
fn pair(r: (NaiveTime, i64)) -> Val { vtup(vec![enc_time(r.0), vint(r.1)]) }
fn off(v: &Val) -> Option<FixedOffset> { FixedOffset::east_opt(v.i32()?) }
fn std(s: &Val, n: &Val) -> Option<Duration> {
    let n = n.u32()?;
    if n >= 1_000_000_000 { return None; }
    Some(Duration::new(s.u64()?, n))
}
/// (time, days) of NaiveTime::overflowing_{add,sub}_offset, observed through the public
/// NaiveDateTime::checked_{add,sub}_offset on a date far from the range ends (2001-01-02).
fn offd(t: NaiveTime, o: FixedOffset, sub: bool) -> Option<Val> {
    let base = NaiveDate::from_yo_opt(2001, 2)?;
    let dt = NaiveDateTime::new(base, t);
    let r = if sub { dt.checked_sub_offset(o)? } else { dt.checked_add_offset(o)? };
    if r.date().year() != 2001 { return None; }
    Some(vtup(vec![enc_time(r.time()), vint(r.date().ordinal() as i64 - 2)]))
}

pub fn dispatch(op: &str, a: &[Val]) -> Option<Val> {
    let r = match op {
        "t.hms" => (|| Some(vtime(NaiveTime::from_hms_opt(a.get(0)?.u32()?, a.get(1)?.u32()?, a.get(2)?.u32()?))))(),
        "t.hms_milli" => (|| Some(vtime(NaiveTime::from_hms_milli_opt(a.get(0)?.u32()?, a.get(1)?.u32()?, a.get(2)?.u32()?, a.get(3)?.u32()?))))(),
        "t.hms_micro" => (|| Some(vtime(NaiveTime::from_hms_micro_opt(a.get(0)?.u32()?, a.get(1)?.u32()?, a.get(2)?.u32()?, a.get(3)?.u32()?))))(),
        "t.hms_nano" => (|| Some(vtime(NaiveTime::from_hms_nano_opt(a.get(0)?.u32()?, a.get(1)?.u32()?, a.get(2)?.u32()?, a.get(3)?.u32()?))))(),
        "t.nsfm" => (|| Some(vtime(NaiveTime::from_num_seconds_from_midnight_opt(a.get(0)?.u32()?, a.get(1)?.u32()?))))(),
        "t.acc" => (|| {
            let t = dec_time(a.get(0)?)?;
            let (pm, h12) = t.hour12();
            Some(vtup(vec![vint(t.hour()), vint(t.minute()), vint(t.second()), vint(t.nanosecond()),
                           vint(t.num_seconds_from_midnight()), vbool(pm), vint(h12)]))
        })(),
        "t.with_hour" => (|| Some(vtime(dec_time(a.get(0)?)?.with_hour(a.get(1)?.u32()?))))(),
        "t.with_minute" => (|| Some(vtime(dec_time(a.get(0)?)?.with_minute(a.get(1)?.u32()?))))(),
        "t.with_second" => (|| Some(vtime(dec_time(a.get(0)?)?.with_second(a.get(1)?.u32()?))))(),
        "t.with_nano" => (|| Some(vtime(dec_time(a.get(0)?)?.with_nanosecond(a.get(1)?.u32()?))))(),
        "t.add" => (|| Some(pair(dec_time(a.get(0)?)?.overflowing_add_signed(dec_td(a.get(1)?)?))))(),
        "t.sub" => (|| Some(pair(dec_time(a.get(0)?)?.overflowing_sub_signed(dec_td(a.get(1)?)?))))(),
        "t.opadd" => (|| Some(enc_time(dec_time(a.get(0)?)? + dec_td(a.get(1)?)?)))(),
        "t.opsub" => (|| Some(enc_time(dec_time(a.get(0)?)? - dec_td(a.get(1)?)?)))(),
        "t.opadd_assign" => (|| { let mut t = dec_time(a.get(0)?)?; t += dec_td(a.get(1)?)?; Some(enc_time(t)) })(),
        "t.opsub_assign" => (|| { let mut t = dec_time(a.get(0)?)?; t -= dec_td(a.get(1)?)?; Some(enc_time(t)) })(),
        "t.diff" => (|| Some(enc_td(dec_time(a.get(0)?)?.signed_duration_since(dec_time(a.get(1)?)?))))(),
        "t.opdiff" => (|| Some(enc_td(dec_time(a.get(0)?)? - dec_time(a.get(1)?)?)))(),
        "t.addstd" => (|| Some(enc_time(dec_time(a.get(0)?)? + std(a.get(1)?, a.get(2)?)?)))(),
        "t.substd" => (|| Some(enc_time(dec_time(a.get(0)?)? - std(a.get(1)?, a.get(2)?)?)))(),
        "t.addstd_assign" => (|| { let mut t = dec_time(a.get(0)?)?; t += std(a.get(1)?, a.get(2)?)?; Some(enc_time(t)) })(),
        "t.substd_assign" => (|| { let mut t = dec_time(a.get(0)?)?; t -= std(a.get(1)?, a.get(2)?)?; Some(enc_time(t)) })(),
        "t.addoff" => (|| Some(enc_time(dec_time(a.get(0)?)? + off(a.get(1)?)?)))(),
        "t.suboff" => (|| Some(enc_time(dec_time(a.get(0)?)? - off(a.get(1)?)?)))(),
        "t.addoffd" => (|| offd(dec_time(a.get(0)?)?, off(a.get(1)?)?, false))(),
        "t.suboffd" => (|| offd(dec_time(a.get(0)?)?, off(a.get(1)?)?, true))(),
        "ndt.add" => (|| Some(vopt(dec_ndt(a.get(0)?)?.checked_add_signed(dec_td(a.get(1)?)?), enc_ndt)))(),
        "ndt.sub" => (|| Some(vopt(dec_ndt(a.get(0)?)?.checked_sub_signed(dec_td(a.get(1)?)?), enc_ndt)))(),
        "ndt.opadd" => (|| Some(enc_ndt(dec_ndt(a.get(0)?)? + dec_td(a.get(1)?)?)))(),
        "ndt.opsub" => (|| Some(enc_ndt(dec_ndt(a.get(0)?)? - dec_td(a.get(1)?)?)))(),
        "ndt.addstd" => (|| Some(enc_ndt(dec_ndt(a.get(0)?)? + std(a.get(1)?, a.get(2)?)?)))(),
        "ndt.substd" => (|| Some(enc_ndt(dec_ndt(a.get(0)?)? - std(a.get(1)?, a.get(2)?)?)))(),
        "ndt.addstd_assign" => (|| { let mut t = dec_ndt(a.get(0)?)?; t += std(a.get(1)?, a.get(2)?)?; Some(enc_ndt(t)) })(),
        "ndt.substd_assign" => (|| { let mut t = dec_ndt(a.get(0)?)?; t -= std(a.get(1)?, a.get(2)?)?; Some(enc_ndt(t)) })(),
        // impl Timelike for NaiveDateTime called directly (accessors, provided methods, setters)
        "ndt.tacc" => (|| {
            let n = dec_ndt(a.get(0)?)?;
            let (pm, h12) = n.hour12();
            Some(vtup(vec![vint(n.hour()), vint(n.minute()), vint(n.second()), vint(n.nanosecond()),
                           vint(n.num_seconds_from_midnight()), vbool(pm), vint(h12)]))
        })(),
        "ndt.twith" => (|| {
            let n = dec_ndt(a.get(1)?)?; let v = a.get(2)?.u32()?;
            let r = match a.get(0)?.int()? {
                0 => n.with_hour(v), 1 => n.with_minute(v), 2 => n.with_second(v), 3 => n.with_nanosecond(v),
                _ => return None,
            };
            Some(vopt(r, enc_ndt))
        })(),
        // the deprecated panicking constructors
        #[allow(deprecated)]
        "t.phms" => (|| Some(enc_time(NaiveTime::from_hms(a.get(0)?.u32()?, a.get(1)?.u32()?, a.get(2)?.u32()?))))(),
        #[allow(deprecated)]
        "t.phms_milli" => (|| Some(enc_time(NaiveTime::from_hms_milli(a.get(0)?.u32()?, a.get(1)?.u32()?, a.get(2)?.u32()?, a.get(3)?.u32()?))))(),
        #[allow(deprecated)]
        "t.phms_micro" => (|| Some(enc_time(NaiveTime::from_hms_micro(a.get(0)?.u32()?, a.get(1)?.u32()?, a.get(2)?.u32()?, a.get(3)?.u32()?))))(),
        #[allow(deprecated)]
        "t.phms_nano" => (|| Some(enc_time(NaiveTime::from_hms_nano(a.get(0)?.u32()?, a.get(1)?.u32()?, a.get(2)?.u32()?, a.get(3)?.u32()?))))(),
        #[allow(deprecated)]
        "t.pnsfm" => (|| Some(enc_time(NaiveTime::from_num_seconds_from_midnight(a.get(0)?.u32()?, a.get(1)?.u32()?))))(),
        // the deprecated panicking NaiveDate::and_hms*
        #[allow(deprecated)]
        "ndt.phms" => (|| Some(enc_ndt(dec_date(a.get(0)?)?.and_hms(a.get(1)?.u32()?, a.get(2)?.u32()?, a.get(3)?.u32()?))))(),
        #[allow(deprecated)]
        "ndt.phms_milli" => (|| Some(enc_ndt(dec_date(a.get(0)?)?.and_hms_milli(a.get(1)?.u32()?, a.get(2)?.u32()?, a.get(3)?.u32()?, a.get(4)?.u32()?))))(),
        #[allow(deprecated)]
        "ndt.phms_micro" => (|| Some(enc_ndt(dec_date(a.get(0)?)?.and_hms_micro(a.get(1)?.u32()?, a.get(2)?.u32()?, a.get(3)?.u32()?, a.get(4)?.u32()?))))(),
        #[allow(deprecated)]
        "ndt.phms_nano" => (|| Some(enc_ndt(dec_date(a.get(0)?)?.and_hms_nano(a.get(1)?.u32()?, a.get(2)?.u32()?, a.get(3)?.u32()?, a.get(4)?.u32()?))))(),
        _ => return None,
    };
    Some(r.unwrap_or_else(bad))
}
