#!/bin/sh
# Builds the whole framework from files on disk (offline): Coq development, extracted runners, harness.
cd "$(dirname "$0")" || exit 2
export CARGO_NET_OFFLINE=true
python3 tools/translate.py || echo "translate reported failures (checks will report them)"
python3 - <<'PY'
import sys
sys.path.insert(0, 'tools')
import vcheck
vcheck.ensure_makefile()
PY
(cd coq && timeout 7200 make -j16 -k 2>&1 | tail -15)
python3 - <<'PY'
import sys
sys.path.insert(0, 'tools')
import vcheck
rc, out, exe = vcheck.build_harness()
print('harness', 'ok' if rc == 0 else 'FAILED: ' + out[-2000:])
PY
python3 - <<'PY'
import sys, glob, os
sys.path.insert(0, 'tools')
import vcheck
for f in sorted(glob.glob('coq/Extract/*.v')):
    pid = os.path.basename(f)[:-2]
    rc, out, exe = vcheck.build_modelrun(pid)
    print('modelrun', pid, 'ok' if rc == 0 else 'FAILED: ' + out[-300:])
PY
exit 0
